"""C19 - JSON.parse and JSON.stringify implement the JSON/ECMAScript contract.

Domains (gens/jsongen.py, all Hypothesis-generated inside the workers, seeded per shard):
  val    (i)   JSON-representable values, handed over by Context.set ("set") or built by a
               printed JavaScript literal ("lit"): stringify(v) == reference text and
               parse(stringify(v)) structurally equals v
  text   (ii)  grammar texts (whitespace, every escape form, number spellings, duplicate keys):
               parse(t) == reference value (typed), stringify(parse(t)) == canonical(t)
  miss   (iii) one-token mutations of grammar texts; those the reference parser rejects must
               raise an error the *script* catches and that is `instanceof SyntaxError`
  script (iv)  values that are not JSON at some position (undefined / function / NaN / +-Infinity
               at root, in arrays, in objects), inherited properties, arrays with named
               properties, shared (acyclic) references, cycles -> catchable TypeError;
               class "opts": toJSON, accessor properties, replacer and indent arguments;
               half of the function leaves are callables of a random kind of G.CALLABLES
  fn     (iv)  enumerated grid: every kind of callable the engine has (script functions, arrows,
               bound functions, native methods, built-in constructors, host callables) x every
               position (root, array element, property value, nested, behind toJSON / getter /
               prototype / extra array property, with replacer / indent)
  wide   (ii)  wide documents: hundreds to thousands of sibling members (empty and non-empty
               arrays / objects, scalars) in one container or in groups, at depth 1-3
Oracle: oracles/jsonref.py.  Strings are compared as UTF-16 code-unit sequences.
"""
import collections
import math
import os
import random

from gens import jsongen as G
from oracles import jsonref as J
from oracles import prims as P
from vf import core, engine, pool

ID = "C19"

ENC_JS = """
function enc(v){
  var t = typeof v;
  if (t === "undefined") return ["u"];
  if (v === null) return ["z"];
  if (t === "boolean") return ["b", v];
  if (t === "number") return ["n", v];
  if (t === "string") return ["s", v];
  if (t === "function") return ["f"];
  if (Array.isArray(v)) { var a = []; for (var i = 0; i < v.length; i++) { a.push(enc(v[i])); } return ["a", a]; }
  var ks = Object.keys(v); var o = [];
  for (var j = 0; j < ks.length; j++) { var e = enc(v[ks[j]]); o.push([ks[j], e]); }
  return ["o", o];
}
"""

# Every engine call sits at statement level with nothing pending on the operand stack, and no
# try block is left by return/break: exception-unwinding defects of the engine belong to C07.
TEXT_LOOP = """
var out = [];
for (var i = 0; i < T.length; i++) {
  var rec = null; var p = null; var ok = false; var s = null;
  try { p = JSON.parse(T[i]); ok = true; } catch (e) { rec = ["perr", e instanceof SyntaxError, "" + e.name]; }
  if (ok) {
    ok = false;
    try { s = JSON.stringify(p); ok = true; } catch (e2) { rec = ["serr", "" + e2.name]; }
    if (ok) { var en = null; if (E[i]) { en = enc(p); } rec = ["ok", p, typeof s, s, en]; }
  }
  out.push(rec);
}
out
"""

VALUE_LOOP = """
var out = [];
for (var i = 0; i < V.length; i++) {
  var rec = null; var p = null; var ok = false; var s = null; var v = V[i];
  try { s = JSON.stringify(v); ok = true; } catch (e) { rec = ["serr", "" + e.name]; }
  if (ok) {
    if (typeof s !== "string") { rec = ["nostr", typeof s]; }
    else {
      ok = false;
      try { p = JSON.parse(s); ok = true; } catch (e2) { rec = ["perr", s, "" + e2.name]; }
      if (ok) { var en = null; if (E[i]) { en = enc(p); } rec = ["ok", s, p, en]; }
    }
  }
  out.push(rec);
}
out
"""

SCRIPT_LOOP = """
var out = [];
for (var i = 0; i < C.length; i++) {
  var rec = null; var r = null; var ok = false; var f = C[i];
  try { r = f(); ok = true; } catch (e) { rec = ["err", e instanceof TypeError, "" + e.name]; }
  if (ok) { rec = ["ok", typeof r, r]; }
  out.push(rec);
}
out
"""

REPLACER_JS = {
    "none": None,
    "null": "null",
    "fn-identity": "function(k, v){ return v; }",
    "fn-double": 'function(k, v){ return typeof v === "number" ? v * 2 : v; }',
    "fn-drop-a": 'function(k, v){ return k === "a" ? undefined : v; }',
    "fn-wrap-root": 'function(k, v){ return k === "" ? [v] : v; }',
    "arr-ab": '["a", "b", "a"]',
    "arr-num": '[1, "b", 0]',
    "arr-empty": "[]",
    "non-callable": '"x"',
}
REPLACER_PY = {
    "none": None,
    "null": None,
    "fn-identity": lambda k, v: v,
    "fn-double": lambda k, v: v * 2 if isinstance(v, float) else v,
    "fn-drop-a": lambda k, v: P.UNDEF if k == "a" else v,
    "fn-wrap-root": lambda k, v: [v] if k == "" else v,
    "arr-ab": ["a", "b", "a"],
    "arr-num": [1.0, "b", 0.0],
    "arr-empty": [],
    "non-callable": None,
}
INDENT_PY = {
    "none": None, "0": 0.0, "1": 1.0, "2": 2.0, "10": 10.0, "11": 11.0, "2.7": 2.7, "-1": -1.0, "NaN": math.nan,
    '""': "", '"\\t"': "\t", '"--"': "--", '"0123456789ab"': "0123456789ab", "true": True, "null": None, "({})": None,
}


# =========================================================================== typed forms
def cheap(v, depth=0):
    """Typed form of what eval() returned (undefined/null merged into nil)."""
    if v is None:
        return ["nil"]
    if v is True:
        return ["b", 1]
    if v is False:
        return ["b", 0]
    if isinstance(v, int):
        try:
            f = float(v)
        except OverflowError:
            return ["bigint", str(v)]
        if int(f) != v:
            return ["bigint", str(v)]
        return ["n", J.numkey(f)]
    if isinstance(v, float):
        return ["n", J.numkey(v)]
    if isinstance(v, str):
        return ["s", J.norm_str(v)]
    if depth > 40:
        return ["deep"]
    if isinstance(v, list):
        return ["a", [cheap(x, depth + 1) for x in v]]
    if isinstance(v, dict):
        return ["o", [[J.norm_str(str(k)), cheap(x, depth + 1)] for k, x in v.items()]]
    if callable(v) or type(v).__name__ == "JSFunction":
        return ["f"]
    return ["py", type(v).__name__]


def from_enc(e, depth=0):
    """Typed form of the JS-side encoder output (keeps undefined and null apart)."""
    try:
        t = e[0]
        if t in ("u", "z", "f"):
            return [t]
        if t == "b":
            return ["b", 1 if e[1] else 0]
        if t == "n":
            return cheap(e[1]) if not isinstance(e[1], bool) else ["bad", "bool as number"]
        if t == "s":
            return ["s", J.norm_str(e[1])]
        if t == "a":
            return ["a", [from_enc(x, depth + 1) for x in e[1]]]
        if t == "o":
            return ["o", [[J.norm_str(p[0]), from_enc(p[1], depth + 1)] for p in e[1]]]
    except Exception:
        pass
    return ["bad", repr(e)[:80]]


def diffclass(exp, got):
    """Coarse label of the first difference of two typed forms."""
    if exp == got:
        return ""
    if not (isinstance(exp, list) and isinstance(got, list) and exp and got):
        return "shape"
    if exp[0] != got[0]:
        if got[0] == "bigint":
            return "bigint"
        return "type %s->%s" % (exp[0], got[0])
    t = exp[0]
    if t == "n":
        if exp[1] == "-0":
            return "neg-zero"
        if exp[1] in ("Infinity", "-Infinity") or got[1] in ("Infinity", "-Infinity", "NaN"):
            return "num-range"
        return "num"
    if t == "s":
        return "string"
    if t == "a":
        if len(exp[1]) != len(got[1]):
            return "array-length"
        for a, b in zip(exp[1], got[1]):
            d = diffclass(a, b)
            if d:
                return d
    if t == "o":
        ek, gk = [p[0] for p in exp[1]], [p[0] for p in got[1]]
        if ek != gk:
            return "key-order" if sorted(ek) == sorted(gk) else "keys"
        for a, b in zip(exp[1], got[1]):
            d = diffclass(a[1], b[1])
            if d:
                return d
    return "value"


def _unordered(t):
    if t[0] == "a":
        return ["a", [_unordered(x) for x in t[1]]]
    if t[0] == "o":
        return ["o", sorted([k, _unordered(x)] for k, x in t[1])]
    return t


def textdiff(exp, got):
    """Coarse label of the first difference of two JSON texts."""
    if not isinstance(got, str) or not isinstance(exp, str):
        return "type"
    exp, got = J.norm_str(exp), J.norm_str(got)
    if len(exp) == len(got) and sorted(exp) == sorted(got):
        try:  # same members in another order?
            if _unordered(J.typed(J.parse(exp))) == _unordered(J.typed(J.parse(got))):
                return "key-order"
        except (J.JSONSyntaxError, RecursionError):
            pass
    i = 0
    n = min(len(exp), len(got))
    while i < n and exp[i] == got[i]:
        i += 1
    g, e = got[i:], exp[i:]
    if g[:2] == "\\u" and e[:2] != "\\u":
        return "char-escaped"
    if e[:2] == "\\u" and g[:2] != "\\u":
        return "char-not-escaped"
    if g[:2] == ".0":
        return "integral-float"
    for w in ("NaN", "Infinity", "-Infinity"):
        if g.startswith(w) or (i and got[i - 1 :].startswith(w)):
            return "nonfinite"
    if e[:4] == "null" or g[:4] == "null":
        return "null-position"
    if (e[:1] in " \n") != (g[:1] in " \n") or "\n" in e[:2] or "\n" in g[:2]:
        return "layout"
    j = i
    while j > 0 and (got[j - 1].isdigit() or got[j - 1] in "+-.eE"):
        j -= 1
    if j < i or g[:1].isdigit() or e[:1].isdigit():
        return "number-format"
    return "other"


# =========================================================================== engine side
def _ctx():
    m = engine.load()
    return m.Context(time_limit=60)


def _exc_record(e):
    info = engine.exc_info(e)
    return ["exc", info["cls"], bool(info["family"]), (info.get("message") or "")[:100]]


def _run(setup, script, n):
    """One script for n cases -> list of n records, or None when the batch as a whole failed."""
    try:
        with pool.cpu_alarm(120):
            ctx = _ctx()
            setup(ctx)
            r = ctx.eval(script)
        if isinstance(r, list) and len(r) == n:
            return r
        return None
    except pool.HarnessTimeout:
        return None
    except RecursionError:
        return None
    except Exception:
        return None


def _run_one(setup, script):
    try:
        with pool.cpu_alarm(30):
            ctx = _ctx()
            setup(ctx)
            r = ctx.eval(script)
        if isinstance(r, list) and len(r) == 1:
            return r[0]
        return ["bad", repr(r)[:100]]
    except pool.HarnessTimeout:
        return ["exc", "HANG", False, ""]
    except RecursionError as e:
        return ["exc", "RecursionError", False, ""]
    except Exception as e:
        return _exc_record(e)


def eval_texts(texts, encflags):
    def setup_all(ctx):
        ctx.set("T", list(texts))
        ctx.set("E", [bool(x) for x in encflags])

    script = ENC_JS + TEXT_LOOP
    r = _run(setup_all, script, len(texts))
    if r is not None:
        return r
    out = []
    for t, e in zip(texts, encflags):
        def setup(ctx, t=t, e=e):
            ctx.set("T", [t])
            ctx.set("E", [bool(e)])
        out.append(_run_one(setup, script))
    return out


def value_script(recipes, mode):
    if mode == "set":
        return ENC_JS + VALUE_LOOP
    parts = ["var V = [];"]
    for r in recipes:
        parts.append("V.push((function(){ return %s; })());" % G.recipe_js(r))
    return ENC_JS + "\n".join(parts) + VALUE_LOOP


def eval_values(recipes, mode, encflags):
    def mk(rs, es):
        def setup(ctx):
            if mode == "set":
                ctx.set("V", [G.recipe_py(r) for r in rs])
            ctx.set("E", [bool(x) for x in es])
        return setup

    r = _run(mk(recipes, encflags), value_script(recipes, mode), len(recipes))
    if r is not None:
        return r
    return [_run_one(mk([rc], [e]), value_script([rc], mode)) for rc, e in zip(recipes, encflags)]


def _path_js(path):
    return "v" + "".join("[%d]" % p if isinstance(p, int) else "[%s]" % P.js_string_literal(p) for p in path)


def script_fn_src(case):
    """JavaScript function expression that builds the value and returns JSON.stringify of it."""
    body = ["var v = %s;" % G.recipe_js(case["recipe"])]
    for p, key, q in case["links"]:
        if key is None:
            body.append("%s.push(%s);" % (_path_js(p), _path_js(q)))
        else:
            body.append("%s[%s] = %s;" % (_path_js(p), P.js_string_literal(key), _path_js(q)))
    args = ["v"]
    rep, ind = REPLACER_JS[case["replacer"]], case["indent"]
    if rep is not None or ind != "none":
        args.append(rep if rep is not None else "undefined")
    if ind != "none":
        args.append(ind)
    body.append("return JSON.stringify(%s);" % ", ".join(args))
    return "function(){ %s }" % " ".join(body)


def eval_scripts(cases):
    def script(cs):
        return "var C = [];\n" + "\n".join("C.push(%s);" % script_fn_src(c) for c in cs) + SCRIPT_LOOP

    r = _run(_script_setup, script(cases), len(cases))
    if r is not None:
        return r
    return [_run_one(_script_setup, script([c])) for c in cases]


def _script_setup(ctx):
    for name, fn in G.host_callables().items():
        ctx.set(name, fn)


_AVAILABLE = []


def available_callables():
    """Kinds of G.CALLABLES whose expression evaluates to a value with typeof "function" in the
    engine under test -> (kinds, dropped kinds)."""
    if not _AVAILABLE:
        parts = ["var out = [];"]
        for _, e in G.CALLABLES:
            parts.append('try { out.push(typeof (%s)); } catch (e) { out.push("error"); }' % e)
        r = _run(_script_setup, "\n".join(parts) + "\nout", len(G.CALLABLES))
        if r is None:
            r = [_run_one(_script_setup, 'var out = []; try { out.push(typeof (%s)); } catch (e) { out.push("error"); }\nout' % e)
                 for _, e in G.CALLABLES]
        _AVAILABLE.append(([k for (k, _), t in zip(G.CALLABLES, r) if t == "function"],
                           [k for (k, _), t in zip(G.CALLABLES, r) if t != "function"]))
    return _AVAILABLE[0]


# =========================================================================== model side
def apply_links(model, links):
    """Apply the links to the model; returns the links that could be applied (the same
    navigation succeeds in JavaScript)."""
    kept = []
    for p, key, q in links:
        try:
            tp, tq = model, model
            for s in p:
                tp = tp[s]
            for s in q:
                tq = tq[s]
            if not isinstance(tq, (list, dict)):
                continue
            if key is None:
                if not isinstance(tp, list):
                    continue
                tp.append(tq)
            else:
                if not isinstance(tp, dict):
                    continue
                tp[key] = tq
            kept.append([p, key, q])
        except (KeyError, IndexError, TypeError):
            continue
    return kept


def script_expected(case):
    model = G.recipe_model(case["recipe"])
    apply_links(model, case["links"])
    try:
        s = J.stringify(model, REPLACER_PY[case["replacer"]], INDENT_PY[case["indent"]])
    except J.JSONTypeError:
        return ["err", True, "TypeError"]
    except RecursionError:
        return None
    if s is P.UNDEF:
        return ["ok", "undefined", None]
    return ["ok", "string", J.norm_str(s)]


def normalise_script_links(case):
    model = G.recipe_model(case["recipe"])
    case["links"] = apply_links(model, case["links"])
    return case


# =========================================================================== judging
# every judge returns a list of (signature, expected, actual)
def _exc_sig(prefix, rec):
    if rec[1] == "JSSyntaxError":
        return prefix + "|error-not-catchable|JSSyntaxError"
    if rec[2]:
        return prefix + "|error-not-catchable|" + str(rec[1])
    return prefix + "|foreign-exception|" + str(rec[1])


def judge_text(text, rec, kind=None):
    try:
        val = J.parse(text)
        valid = True
    except J.JSONSyntaxError:
        valid = False
    except RecursionError:
        return []
    tag = rec[0] if isinstance(rec, list) and rec else "bad"
    if not valid:
        exp = ["perr", True, "SyntaxError"]
        if tag == "perr":
            if rec[1] is True and rec[2] == "SyntaxError":
                return []
            return [("parse|error-wrong-type", exp, rec)]
        if tag == "exc":
            return [(_exc_sig("parse", rec), exp, rec)]
        if tag in ("ok", "serr"):
            return [("parse|accepts-invalid|%s" % (kind or _invalid_kind(text)), exp, ["accepted", rec[1] if tag == "ok" else None])]
        return [("parse|bad-record", exp, rec)]
    canon = J.norm_str(J.stringify(val))
    exp_val = J.typed(val, nil=True)
    exp = ["ok", exp_val, "string", canon]
    if tag == "perr":
        return [("parse|rejects-valid|%s" % _valid_feature(text), exp, rec)]
    if tag == "exc":
        if rec[1] == "JSSyntaxError":
            return [("parse|rejects-valid|%s" % _valid_feature(text), exp, rec)]
        return [(_exc_sig("parse", rec), exp, rec)]
    if tag == "serr":
        return [("canonical|stringify-throws|%s" % rec[1], exp, rec)]
    if tag != "ok":
        return [("parse|bad-record", exp, rec)]
    out = []
    got_val = cheap(rec[1])
    if got_val != exp_val:
        out.append(("parse|value|%s" % diffclass(exp_val, got_val), exp_val, got_val))
    elif rec[4] is not None:
        e2, g2 = J.typed(val), from_enc(rec[4])
        if e2 != g2:
            out.append(("parse|value-in-script|%s" % diffclass(e2, g2), e2, g2))
    got_s = J.norm_str(rec[3]) if isinstance(rec[3], str) else rec[3]
    if rec[2] != "string" or got_s != canon:
        if got_val == exp_val:  # otherwise the text difference only repeats the value difference
            out.append(("canonical|text|%s" % textdiff(canon, got_s), canon, [rec[2], got_s]))
    return out


def _invalid_kind(text):
    t = text.strip(" \t\n\r")
    for w in ("NaN", "-Infinity", "Infinity"):
        if w in t:
            return "word " + w
    return "other"


def _valid_feature(text):
    if text.count("[") + text.count("{") > 100:
        return "many-containers"
    if any(ord(c) > 0x7E for c in text):
        return "non-ascii"
    if "\\u" in text:
        return "unicode-escape"
    if "\\" in text:
        return "escape"
    return "other"


def judge_value(recipe, mode, rec):
    model = G.recipe_model(recipe)
    exp_s = J.norm_str(J.stringify(model))
    back = J.parse(exp_s)
    exp_back = J.typed(back, nil=True)
    exp = ["ok", exp_s, exp_back]
    tag = rec[0] if isinstance(rec, list) and rec else "bad"
    if tag == "exc":
        return [(_exc_sig("stringify", rec), exp, rec)]
    if tag == "serr":
        return [("stringify|throws|%s" % rec[1], exp, rec)]
    if tag == "nostr":
        return [("stringify|not-a-string|%s" % rec[1], exp, rec)]
    if tag == "perr":
        got_s = J.norm_str(rec[1])
        if got_s != exp_s:
            return [("stringify|text|%s" % textdiff(exp_s, got_s), exp_s, got_s)]
        return [("roundtrip|parse-rejects-stringify-output", exp, rec)]
    if tag != "ok":
        return [("stringify|bad-record", exp, rec)]
    out = []
    got_s = J.norm_str(rec[1]) if isinstance(rec[1], str) else rec[1]
    if got_s != exp_s:
        out.append(("stringify|text|%s" % textdiff(exp_s, got_s), exp_s, got_s))
        # judge the round trip against the engine's own text when that text is valid JSON
        try:
            exp_back = J.typed(J.parse(got_s), nil=True)
        except (J.JSONSyntaxError, TypeError):
            return out
    got_back = cheap(rec[2])
    if got_back != exp_back:
        out.append(("roundtrip|value|%s" % diffclass(exp_back, got_back), exp_back, got_back))
    elif rec[3] is not None and got_s == exp_s:
        e2, g2 = J.typed(back), from_enc(rec[3])
        if e2 != g2:
            out.append(("roundtrip|value-in-script|%s" % diffclass(e2, g2), e2, g2))
    return out


def script_features(case):
    feats = set()

    def walk(r, pos):
        t = r[0]
        if t == "u":
            feats.add("undefined@" + pos)
        elif t == "f":
            feats.add("function@" + pos)
        elif t == "n" and r[1] in ("NaN", "Infinity", "-Infinity"):
            feats.add("nonfinite@" + pos)
        elif t == "a":
            for x in r[1]:
                walk(x, "array")
        elif t == "o":
            for k, x in r[1]:
                if k == "toJSON" and x[0] == "f":
                    feats.add("toJSON")
                walk(x, "object")
        elif t == "tojson":
            feats.add("toJSON")
            walk(r[1], "toJSON-result")
            for k, x in r[3]:
                walk(x, "unused")
        elif t == "inh":
            feats.add("inherited")
            for k, x in r[1]:
                if k == "toJSON" and x[0] == "f":
                    feats.add("toJSON")
                walk(x, "object")
            for k, x in r[2]:
                walk(x, "unused")
        elif t == "arrx":
            feats.add("array-extra-props")
            for x in r[1]:
                walk(x, "array")
            for k, x in r[2]:
                walk(x, "unused")
        elif t == "oget":
            if any(p[2] for p in r[1]):
                feats.add("accessor")
            for p in r[1]:
                walk(p[1], "object")

    walk(case["recipe"], "root")
    if case["links"]:
        feats.add("links")
    if case["replacer"] not in ("none",):
        feats.add("replacer")
    if case["indent"] != "none":
        feats.add("indent")
    return feats


OPTS_FEATS = ("accessor", "toJSON", "replacer", "indent")


def script_class(case, exp):
    feats = script_features(case)
    opts = sorted(f for f in feats if f in OPTS_FEATS)
    if exp and exp[0] == "err":
        base = "cycle"
    elif "links" in feats:
        base = "shared"
    else:
        base = "plain"
    return feats, ("opts:" + "+".join(opts)) if opts else ("script:" + base)


def judge_script(case, rec):
    exp = script_expected(case)
    if exp is None:
        return []
    feats, cls = script_class(case, exp)
    prefix = "stringify-opts" if cls.startswith("opts:") else "stringify-script"
    tag = rec[0] if isinstance(rec, list) and rec else "bad"
    if tag == "exc":
        if exp[0] == "err":
            return [(prefix + "|cycle|" + _exc_sig("", rec).strip("|"), exp, rec)]
        return [(_exc_sig(prefix, rec), exp, rec)]
    if tag == "err":
        if exp[0] == "err":
            if rec[1] is True and rec[2] == "TypeError":
                return []
            return [(prefix + "|cycle|error-wrong-type", exp, rec)]
        return [(prefix + "|throws|%s" % rec[2], exp, rec)]
    if tag != "ok":
        return [(prefix + "|bad-record", exp, rec)]
    if exp[0] == "err":
        return [(prefix + "|cycle|no-error", exp, rec)]
    got = ["ok", rec[1], J.norm_str(rec[2]) if isinstance(rec[2], str) else rec[2]]
    if got == exp:
        return []
    if exp[1] != got[1]:
        return [(prefix + "|result-type|%s->%s" % (exp[1], got[1]), exp, got)]
    if cls.startswith("opts:"):
        # one bucket per option: the first of accessor, toJSON, replacer, indent the case uses
        return [(prefix + "|text|" + [f for f in OPTS_FEATS if f in feats][0], exp, got)]
    return [(prefix + "|text|" + textdiff(exp[2], got[2]), exp, got)]


# =========================================================================== shard worker
def _collect(strategy, n, seed):
    import hypothesis
    from hypothesis import HealthCheck, settings

    cases = []

    @hypothesis.seed(seed)
    @settings(max_examples=n, database=None, deadline=None, derandomize=False,
              suppress_health_check=[HealthCheck.too_slow, HealthCheck.data_too_large],
              phases=[hypothesis.Phase.generate])
    @hypothesis.given(strategy)
    def collect(c):
        cases.append(c)

    collect()
    return cases


class _Acc:
    def __init__(self):
        self.count = 0
        self.classes = collections.Counter()
        self.nontrivial = set()
        self.samples = []
        self.viol = {}  # signature -> {"n", "best": (size, case, exp, act)}
        self.excluded = collections.Counter()

    def violation(self, sig, size, case, exp, act):
        v = self.viol.setdefault(sig, {"n": 0, "best": None})
        v["n"] += 1
        if v["best"] is None or size < v["best"][0]:
            v["best"] = (size, case, exp, act)

    def result(self):
        return {"count": self.count, "classes": dict(self.classes), "nontrivial": sorted(self.nontrivial),
                "samples": self.samples, "viol": self.viol, "excluded": dict(self.excluded)}


def _needs_escape(s):
    return any(c in '"\\' or ord(c) < 0x20 or 0xD800 <= ord(c) <= 0xDFFF for c in s)


def _recipe_nontrivial(r):
    if G.recipe_depth(r) < 2:
        return False
    for leaf in G.recipe_leaves(r):
        if leaf[0] == "s" and _needs_escape(leaf[1]):
            return True
        if leaf[0] == "n" and not float(leaf[1]).is_integer():
            return True
    return False


def _string_units(tok):
    """Spelled characters of a JSON string token (without the quotes)."""
    out, k = [], 1
    while k < len(tok) - 1:
        if tok[k] == "\\":
            step = 6 if tok[k + 1 : k + 2] == "u" else 2
        else:
            step = 1
        out.append(tok[k : k + step])
        k += step
    return out


def shard_val(task):
    _, shard, n, seed, guards = task
    acc = _Acc()
    strat = G.value_recipes()
    import hypothesis.strategies as st

    cases = _collect(st.tuples(strat, st.sampled_from(["set", "lit"])), n, seed)
    groups = {"set": [], "lit": []}
    for r, mode in cases:
        if "c19.intkey_order" in guards and not G.recipe_key_order_ok(r):
            r = G.recipe_es_order(r)
            acc.excluded["C19-intkey-order: keys rearranged into own-key order"] += 1
        if mode == "lit" and G.recipe_has_key(r, "__proto__"):
            mode = "set"  # "__proto__" in an object literal is not a property definition
        groups[mode].append(r)
    for mode, rs in groups.items():
        size = 50 if mode == "set" else 25
        for i in range(0, len(rs), size):
            chunk = rs[i : i + size]
            flags = [G.recipe_nodes(r) <= 12 or (i + j) % 8 == 0 for j, r in enumerate(chunk)]
            recs = eval_values(chunk, mode, flags)
            for r, rec in zip(chunk, recs):
                acc.count += 1
                d = G.recipe_depth(r)
                acc.classes["val:%s depth %d" % (mode, min(d, 6))] += 1
                esc = any(l[0] == "s" and _needs_escape(l[1]) for l in G.recipe_leaves(r))
                if esc:
                    acc.classes["val:has string needing escape"] += 1
                if any(l[0] == "s" and any(ord(c) > 0x7E for c in l[1]) for l in G.recipe_leaves(r)):
                    acc.classes["val:has non-ASCII"] += 1
                if any(l[0] == "n" and not float(l[1]).is_integer() for l in G.recipe_leaves(r)):
                    acc.classes["val:has non-integer number"] += 1
                if _recipe_nontrivial(r):
                    acc.nontrivial.add(core.h16(["val", mode, r]))
                vs = judge_value(r, mode, rec)
                if not vs and len(acc.samples) < 2 and _recipe_nontrivial(r) and G.recipe_nodes(r) < 10:
                    acc.samples.append({"sub": "val", "mode": mode, "js": G.recipe_js(r), "stringify": rec[1]})
                for sig, exp, act in vs:
                    acc.violation(sig, G.recipe_nodes(r), {"kind": "value", "mode": mode, "recipe": r}, exp, act)
    _shrink_values(acc)
    return acc.result()


def _shrink_values(acc):
    for sig, v in acc.viol.items():
        size, case, exp, act = v["best"]
        if case.get("kind") != "value":
            continue
        mode = case["mode"]

        def fails(r):
            rec = eval_values([r], mode, [True])[0]
            for s2, e2, a2 in judge_value(r, mode, rec):
                if s2 == sig:
                    return (e2, a2)
            return None

        r = case["recipe"]
        steps = 0
        changed = True
        while changed and steps < 60:
            changed = False
            for cand in _recipe_candidates(r):
                steps += 1
                res = fails(cand)
                if res:
                    r, (exp, act) = cand, res
                    changed = True
                    break
                if steps >= 60:
                    break
        v["best"] = (G.recipe_nodes(r), {"kind": "value", "mode": mode, "recipe": r, "js": G.recipe_js(r)}, exp, act)


def _recipe_candidates(r):
    t = r[0]
    if t == "a":
        for x in r[1]:
            yield x
        if len(r[1]) > 1:
            for i in range(len(r[1])):
                yield ["a", r[1][:i] + r[1][i + 1 :]]
    elif t == "o":
        for _, x in r[1]:
            yield x
        if len(r[1]) > 1:
            for i in range(len(r[1])):
                yield ["o", r[1][:i] + r[1][i + 1 :]]
    elif t == "s" and len(r[1]) > 1:
        for ch in r[1]:
            yield ["s", ch]


def shard_text(task):
    _, shard, n, seed, guards = task
    acc = _Acc()
    cases = _collect(G.text_cases(), n, seed)
    kept = []
    for tk in cases:
        text = tk.text()
        if "c19.intkey_order" in guards:
            try:
                val = J.parse(text)
            except (J.JSONSyntaxError, RecursionError):
                val = None
            if not _model_key_order_ok(val):
                acc.excluded["C19-intkey-order: text with integer-like keys out of own-key order"] += 1
                continue
        kept.append((tk, text))
    size = 50
    for i in range(0, len(kept), size):
        chunk = kept[i : i + size]
        flags = [tk.nodes <= 12 or (i + j) % 8 == 0 for j, (tk, _) in enumerate(chunk)]
        recs = eval_texts([t for _, t in chunk], flags)
        for (tk, text), rec in zip(chunk, recs):
            acc.count += 1
            acc.classes["text:depth %d" % min(tk.depth, 6)] += 1
            if tk.escapes:
                acc.classes["text:has escapes"] += 1
            if tk.ws:
                acc.classes["text:has whitespace"] += 1
            if tk.escapes and tk.ws:
                acc.nontrivial.add(core.h16(["text", text]))
            vs = judge_text(text, rec)
            if not vs and len(acc.samples) < 2 and tk.escapes and tk.ws and len(text) < 60:
                acc.samples.append({"sub": "text", "text": text, "canonical": rec[3]})
            for sig, exp, act in vs:
                small = _shrink_text(tk, text, sig) if sig not in acc.viol else None
                if small:
                    acc.violation(sig, len(small[0]), {"kind": "text", "text": small[0], "from": text[:200]}, small[1], small[2])
                else:
                    acc.violation(sig, len(text) + 1000, {"kind": "text", "text": text}, exp, act)
    return acc.result()


def _model_key_order_ok(v):
    if isinstance(v, list):
        return all(_model_key_order_ok(x) for x in v)
    if isinstance(v, dict):
        return list(v) == J.own_keys(v) and all(_model_key_order_ok(x) for x in v.values())
    return True


def _fails_text(text, sig):
    rec = eval_texts([text], [True])[0]
    for s2, e2, a2 in judge_text(text, rec):
        if s2 == sig:
            return (e2, a2)
    return None


def _shrink_text(tk, text, sig):
    """Smallest sub-value of the text (then single spelled character) that fails the same way."""
    best = None
    spans = sorted(tk.spans, key=lambda s: s[1] - s[0])
    tries = 0
    for a, b in spans:
        sub = "".join(t for _, t in tk.toks[a:b])
        if len(sub) >= len(text):
            break
        tries += 1
        if tries > 25:
            break
        res = _fails_text(sub, sig)
        if res:
            best = (sub, res[0], res[1])
            break
    cur = best[0] if best else text
    if cur.startswith('"') and cur.endswith('"') and len(cur) > 3:
        for u in _string_units(cur)[:30]:
            res = _fails_text('"%s"' % u, sig)
            if res:
                return ('"%s"' % u, res[0], res[1])
    return best


def shard_miss(task):
    _, shard, n, seed, guards = task
    acc = _Acc()
    cases = _collect(G.nearmiss_cases(), n, seed)
    size = 50
    for i in range(0, len(cases), size):
        chunk = cases[i : i + size]
        recs = eval_texts([t for _, t in chunk], [False] * len(chunk))
        for (kind, text), rec in zip(chunk, recs):
            acc.count += 1
            valid = J.accepts(text)
            if valid:
                if "c19.intkey_order" in guards and not _model_key_order_ok(J.parse(text)):
                    acc.excluded["C19-intkey-order: text with integer-like keys out of own-key order"] += 1
                    acc.count -= 1
                    continue
                acc.classes["miss:mutant still valid (judged as text)"] += 1
            else:
                acc.classes["miss:" + kind] += 1
                acc.nontrivial.add(core.h16(["miss", text]))
            vs = judge_text(text, rec, kind)
            if not vs and not valid and len(acc.samples) < 2 and len(text) < 40:
                acc.samples.append({"sub": "miss", "mutation": kind, "text": text, "outcome": rec})
            for sig, exp, act in vs:
                acc.violation(sig, len(text), {"kind": "text", "text": text, "mutation": kind}, exp, act)
    return acc.result()


def _script_skip(c, feats, guards):
    if "c19.accessor" in guards and "accessor" in feats:
        return "C19-accessor: object with an accessor property"
    if "c19.options" in guards and (feats & {"toJSON", "replacer", "indent"}):
        return "C19-options: toJSON / replacer / indent"
    if "c19.intkey_order" in guards and not G.recipe_key_order_ok(c["recipe"]):
        return "C19-intkey-order: keys out of own-key order"
    return None


def shard_script(task):
    _, shard, n, seed, guards = task
    acc = _Acc()
    strat = G.script_domain_cases()
    cases = [normalise_script_links(c) for c in _collect(strat, n, seed)]
    kinds, _ = available_callables()
    rnd = random.Random(seed)  # selection only: which function leaves become which kind of callable

    def other_kind(leaf):
        return ["f", rnd.choice(kinds)] if kinds and rnd.randrange(2) else leaf

    kept = []
    for c in cases:
        c["recipe"] = G.recipe_map_functions(c["recipe"], other_kind)
        feats = script_features(c)
        skip = _script_skip(c, feats, guards)
        if skip:
            acc.excluded[skip] += 1
            continue
        kept.append(c)
    size = 25
    for i in range(0, len(kept), size):
        chunk = kept[i : i + size]
        recs = eval_scripts(chunk)
        for c, rec in zip(chunk, recs):
            exp = script_expected(c)
            if exp is None:
                continue
            acc.count += 1
            feats, cls = script_class(c, exp)
            acc.classes[cls] += 1
            for f in feats:
                if "@" in f and not f.endswith("@unused"):
                    acc.classes["script:has " + f] += 1
            if any("@" in f and not f.endswith(("@root", "@unused")) for f in feats) or exp[0] == "err" or cls.startswith("opts:"):
                acc.nontrivial.add(core.h16(["script", c]))
            vs = judge_script(c, rec)
            if not vs and len(acc.samples) < 2 and G.recipe_nodes(c["recipe"]) < 9 and len(feats) >= 2:
                acc.samples.append({"sub": "script", "js": script_fn_src(c), "expected": exp, "actual": rec})
            for sig, e, a in vs:
                acc.violation(sig, G.recipe_nodes(c["recipe"]) + 3 * len(c["links"]),
                              {"kind": "script", "case": c, "js": script_fn_src(c)}, e, a)
    _shrink_scripts(acc)
    return acc.result()


def _shrink_scripts(acc):
    for sig, v in acc.viol.items():
        size, case, exp, act = v["best"]
        if case.get("kind") != "script":
            continue
        c = case["case"]

        def fails(cand):
            rec = eval_scripts([cand])[0]
            for s2, e2, a2 in judge_script(cand, rec):
                if s2 == sig:
                    return (e2, a2)
            return None

        steps = 0
        changed = True
        while changed and steps < 40:
            changed = False
            for cand in _script_candidates(c):
                steps += 1
                res = fails(cand)
                if res:
                    c, (exp, act) = cand, res
                    changed = True
                    break
                if steps >= 40:
                    break
        v["best"] = (G.recipe_nodes(c["recipe"]), {"kind": "script", "case": c, "js": script_fn_src(c)}, exp, act)


def _script_candidates(c):
    if c["replacer"] != "none":
        yield dict(c, replacer="none")
    if c["indent"] != "none":
        yield dict(c, indent="none")
    if c["links"]:
        for i in range(len(c["links"])):
            yield normalise_script_links(dict(c, links=c["links"][:i] + c["links"][i + 1 :]))
    else:
        r = c["recipe"]
        subs = []
        if r[0] == "a":
            subs = list(r[1]) + [["a", r[1][:i] + r[1][i + 1 :]] for i in range(len(r[1])) if len(r[1]) > 1]
        elif r[0] == "o":
            subs = [x for _, x in r[1]] + [["o", r[1][:i] + r[1][i + 1 :]] for i in range(len(r[1])) if len(r[1]) > 1]
        elif r[0] == "tojson":
            subs = [["tojson", r[1], r[2], []]] if r[3] else []
        elif r[0] == "inh":
            subs = [["o", r[1]]] + [x for _, x in r[1]]
        elif r[0] == "arrx":
            subs = [["a", r[1]]] + list(r[1])
        elif r[0] == "oget":
            subs = [p[1] for p in r[1]] + [["oget", r[1][:i] + r[1][i + 1 :]] for i in range(len(r[1])) if len(r[1]) > 1]
        for s in subs:
            yield dict(c, recipe=s)


def shard_fn(task):
    """Enumerated: every available kind of callable x every position template (slice shard::nshards)."""
    _, shard, nshards, seed, guards = task
    acc = _Acc()
    kinds, dropped = available_callables()
    if shard == 0:
        for k in dropped:
            acc.excluded["callable kind %s: not a function in this engine" % k] += 1
    grid = []
    for k in kinds:
        for name, recipe, rep, ind in G.callable_templates(["f", k]):
            grid.append((k, name, {"recipe": recipe, "links": [], "replacer": rep, "indent": ind}))
    kept = []
    for k, name, c in grid[shard::nshards]:
        skip = _script_skip(c, script_features(c), guards)
        if skip:
            acc.excluded[skip] += 1
            continue
        kept.append((k, name, c))
    size = 40
    for i in range(0, len(kept), size):
        chunk = kept[i : i + size]
        recs = eval_scripts([c for _, _, c in chunk])
        for (k, name, c), rec in zip(chunk, recs):
            acc.count += 1
            family = k.split(":")[0]
            acc.classes["fn:kind %s" % family] += 1
            acc.classes["fn:position %s" % name] += 1
            if name != "root":
                acc.nontrivial.add(core.h16(["fn", k, name]))
            vs = judge_script(c, rec)
            if not vs and len(acc.samples) < 1 and family in ("ctor", "host", "bound") and name.startswith("nested"):
                acc.samples.append({"sub": "fn", "js": script_fn_src(c), "expected": script_expected(c), "actual": rec})
            for sig, e, a in vs:
                acc.violation("%s|callable %s" % (sig, family), G.recipe_nodes(c["recipe"]) + (0 if c["replacer"] == c["indent"] else 5),
                              {"kind": "script", "case": c, "js": script_fn_src(c), "callable": k, "position": name}, e, a)
    return acc.result()


def _wide_band(n):
    return "< 400" if n < 400 else ("400-999" if n < 1000 else ">= 1000")


def shard_wide(task):
    _, shard, n, seed, guards = task
    acc = _Acc()
    rnd = random.Random(seed)  # selection only: the parameters of each document
    cases = []
    for _ in range(n):
        p = G.wide_params(rnd)
        cases.append((p, G.wide_text(p)))
    size = 4
    for i in range(0, len(cases), size):
        chunk = cases[i : i + size]
        recs = eval_texts([t for _, t in chunk], [p["n"] <= 450 for p, _ in chunk])
        for (p, text), rec in zip(chunk, recs):
            acc.count += 1
            acc.classes["wide:members %s" % p["members"]] += 1
            acc.classes["wide:%s members" % _wide_band(p["n"])] += 1
            acc.classes["wide:%s" % ("grouped" if p["group"] else "flat")] += 1
            acc.classes["wide:depth of the members %d" % (1 + len(p["wrap"]) + (1 if p["group"] else 0))] += 1
            acc.nontrivial.add(core.h16(["wide", p]))
            vs = judge_text(text, rec)
            if not vs and len(acc.samples) < 1 and p["n"] > 400 and not p["group"]:
                acc.samples.append({"sub": "wide", "params": p, "text": text[:60] + "...", "canonical": str(rec[3])[:60] + "..."})
            for sig, exp, act in vs:
                small = _shrink_wide(p, sig) if sig not in acc.viol else None
                if small:
                    p2, t2, exp, act = small
                    acc.violation(sig, len(t2), {"kind": "text", "text": t2, "wide": p2}, _clip(exp), _clip(act))
                else:
                    acc.violation(sig, len(text) + 100000, {"kind": "text", "text": text, "wide": p}, _clip(exp), _clip(act))
    return acc.result()


def _clip(x):
    s = repr(x)
    return x if len(s) <= 400 else s[:400] + "..."


def _shrink_wide(p, sig):
    """Fewest members (bisection), then no wrappers / groups / separators, failing the same way."""
    def fails(q):
        t = G.wide_text(q)
        res = _fails_text(t, sig)
        return (q, t, res[0], res[1]) if res else None

    best = None
    for q in (dict(p, wrap=[], group=0, sep=""), dict(p, wrap=[], sep=""), dict(p, sep=""), p):
        best = fails(q)
        if best:
            break
    if not best:
        return None
    lo, hi = 0, best[0]["n"]  # invariant: hi fails
    while hi - lo > 1:
        mid = (lo + hi) // 2
        r = fails(dict(best[0], n=mid)) if mid > 0 else None
        if r:
            hi, best = mid, r
        else:
            lo = mid
    return best


SHARDS = {"val": shard_val, "text": shard_text, "miss": shard_miss, "script": shard_script, "fn": shard_fn,
          "wide": shard_wide}


def run_shard(task):
    return SHARDS[task[0]](task)


# =========================================================================== fixed cases
FIXED_TEXTS = [
    # (argument as JavaScript source, expected: ["ok", typed value] or "SyntaxError")
    ('"null"', ["ok", ["z"]]), ("null", ["ok", ["z"]]), ("true", ["ok", ["b", 1]]), ("12", ["ok", ["n", "12.0"]]),
    ("(-0)", ["ok", ["n", "0"]]), ('"-0"', ["ok", ["n", "-0"]]), ("undefined", "SyntaxError"), ("NaN", "SyntaxError"),
    ("Infinity", "SyntaxError"), ('""', "SyntaxError"), ('"[]"', ["ok", ["a", []]]), ('"{}"', ["ok", ["o", []]]),
    ('" 1 "', ["ok", ["n", "1.0"]]), ('"1e400"', ["ok", ["n", "Infinity"]]),
]


def eval_fixed(argsrc):
    if argsrc == "stringify()":
        return _run_one(lambda ctx: None, 'var r = JSON.stringify(); [["ok", typeof r, r]]')
    script = ENC_JS + (
        "var rec = null; var p = null; var ok = false;\n"
        'try { p = JSON.parse(%s); ok = true; } catch (e) { rec = ["perr", e instanceof SyntaxError, "" + e.name]; }\n'
        'if (ok) { rec = ["ok", enc(p)]; }\n[rec]' % argsrc
    )
    return _run_one(lambda ctx: None, script)


def judge_fixed(argsrc, rec):
    if argsrc == "stringify()":
        if rec != ["ok", "undefined", None]:
            return [("stringify-script|result-type|missing argument", ["ok", "undefined", None], rec)]
        return []
    exp = dict(FIXED_TEXTS + [("", "SyntaxError")])[argsrc]
    if exp == "SyntaxError":
        if rec[:1] == ["perr"] and rec[1] is True and rec[2] == "SyntaxError":
            return []
        if rec[0] == "exc":
            sig = _exc_sig("parse", rec)
        elif rec[0] == "ok":
            sig = "parse|accepts-invalid|argument " + (argsrc or "missing")
        else:
            sig = "parse|error-wrong-type"
        return [(sig, ["perr", True, "SyntaxError"], rec)]
    got = ["ok", from_enc(rec[1])] if rec[:1] == ["ok"] else rec
    if got == exp:
        return []
    if rec[0] == "exc":
        sig = _exc_sig("parse", rec)
    elif rec[0] == "ok":
        sig = "parse|value|" + diffclass(exp[1], got[1])
    else:
        sig = "parse|rejects-valid|argument"
    return [(sig, exp, got)]


def run_fixed(chk):
    """A few hand-written calls: ToString of a non-string argument, missing argument."""
    for argsrc in [a for a, _ in FIXED_TEXTS] + ["", "stringify()"]:
        rec = eval_fixed(argsrc)
        chk.count()
        chk.classify("fixed:argument conversion")
        for sig, exp, act in judge_fixed(argsrc, rec):
            chk.violation(sig, {"kind": "fixed", "arg": argsrc}, exp, act, sub="fixed")


# =========================================================================== main / replay
BUDGET = {  # cases per domain
    "quick": {"val": 40000, "text": 40000, "miss": 28000, "script": 12000},
    "thorough": {"val": 600000, "text": 600000, "miss": 500000, "script": 300000},
}
SHARD_SIZE = {"quick": 500, "thorough": 4000}
WIDE = {"quick": (16, 40), "thorough": (64, 100)}  # (shards, wide documents per shard)
FN_SHARDS = 16  # the callable grid is enumerated completely in both tiers


def active_guards(chk):
    """A listed known finding switches its guard on only while its repro still fails."""
    active = []
    for name, e in sorted(chk.guards.items()):
        path = os.path.join(core.ROOT, e.get("repro", ""))
        if not os.path.isfile(path):
            raise engine.HarnessError("known finding %s: repro %s missing" % (e["id"], path))
        rec = core.load_json(path)
        r = replay(rec)
        chk.count()
        if r["fails"]:
            chk.known_hit(e["id"])
            active.append(name)
    return active


def main(chk):
    chk.rule = (
        "value: depth >= 2 and a string needing escaping or a non-integer number; text: >= 1 escape and insignificant "
        "whitespace; every near-miss text the reference parser rejects; script value: a non-JSON value below the root, "
        "a cycle, or the opts class (toJSON / accessor / replacer / indent); fn: a callable below the root; wide: every "
        "document (>= 100 sibling members); distinct by case content"
    )
    chk.assumptions = [
        "oracles/jsonref.py transcribes JSON.parse / SerializeJSONProperty / QuoteJSONString (validated against node 20 at "
        "development time: oracle_validation/jsonref.json)",
        "strings are compared as UTF-16 code-unit sequences: the engine's code-point string model (C16) is not judged here",
        "Context.set hands lists/dicts/str/int/float/bool/None to the script unchanged (C11 checks that separately)",
        "no reviver argument (the engine has none); grammar texts stay below 10^4 characters and depth 7, wide documents "
        "below 10^5 characters, 3000 members and depth 6",
        "a function value is never called by JSON.stringify unless it is the toJSON property: every callable kind is "
        "modelled as one opaque function (ES SerializeJSONProperty: not serialisable)",
    ]
    known_repros = set()
    for e in chk.findings:
        if e.get("status") == "known" and e.get("repro"):
            known_repros.add(os.path.realpath(os.path.join(core.ROOT, e["repro"])))
    for path, rec in core.saved_replays(ID):
        if os.path.realpath(path) in known_repros:
            continue
        r = replay(rec)
        chk.count()
        chk.classify("replay")
        if r["fails"]:
            chk.violation("saved-replay|" + os.path.basename(path), rec.get("case"), r["expected"], r["actual"], sub="replay")
    guards = active_guards(chk)
    chk.extra["active_guards"] = guards
    run_fixed(chk)
    tasks = []
    size = SHARD_SIZE[chk.tier]
    for dom, total in BUDGET[chk.tier].items():
        nshards = max(1, total // size)
        for s in range(nshards):
            tasks.append((dom, s, size, core.shard_seed(chk.seed, ID, dom, s), guards))
    for s in range(FN_SHARDS):
        tasks.append(("fn", s, FN_SHARDS, core.shard_seed(chk.seed, ID, "fn", s), guards))
    for s in range(WIDE[chk.tier][0]):
        tasks.append(("wide", s, WIDE[chk.tier][1], core.shard_seed(chk.seed, ID, "wide", s), guards))
    res = pool.run(run_shard, tasks, timeout=900)
    merged = {}
    for task, r in zip(tasks, res):
        if isinstance(r, (pool.HANG, pool.CRASH)) or r is None:
            raise engine.HarnessError("C19 shard %s/%d: %r" % (task[0], task[1], r))
        chk.count(r["count"])
        for k, n in r["classes"].items():
            chk.classify(k, n)
        chk.nontrivial_many(r["nontrivial"])
        for k, n in r["excluded"].items():
            chk.excluded[k] += n
        for s in r["samples"]:
            chk.sample(s, cls=s.get("sub", ""), per_class=4)
        for sig, v in r["viol"].items():
            m = merged.setdefault(sig, {"n": 0, "best": None, "sub": task[0]})
            m["n"] += v["n"]
            if m["best"] is None or v["best"][0] < m["best"][0]:
                m["best"] = v["best"]
    for sig in sorted(merged):
        m = merged[sig]
        size_, case, exp, act = m["best"]
        chk.violation(sig, case, exp, act, sub=m["sub"])
        chk.violations[sig]["count"] += m["n"] - 1
        chk.violation_count += m["n"] - 1
    chk.exhaustive = False


def replay(rec):
    case = rec["case"]
    kind = case.get("kind")
    if kind == "text":
        out = eval_texts([case["text"]], [True])[0]
        vs = judge_text(case["text"], out, case.get("mutation"))
    elif kind == "value":
        out = eval_values([case["recipe"]], case["mode"], [True])[0]
        vs = judge_value(case["recipe"], case["mode"], out)
    elif kind == "script":
        c = normalise_script_links(dict(case["case"]))
        out = eval_scripts([c])[0]
        vs = judge_script(c, out)
    elif kind == "fixed":
        out = eval_fixed(case["arg"])
        vs = judge_fixed(case["arg"], out)
    else:
        raise engine.HarnessError("unknown replay kind %r" % kind)
    if vs:
        return {"fails": True, "expected": vs[0][1], "actual": vs[0][2], "signature": vs[0][0]}
    return {"fails": False, "expected": None, "actual": out}
