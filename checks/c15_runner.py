"""Evaluate a batch of programs on fresh contexts and dump typed outcomes.
Run as a subprocess by checks/c15.py under a chosen PYTHONHASHSEED.
usage: c15_runner.py <programs.json> <out.json> <order: fwd|rev|shuf:N|iso> <pollute: 0|1> <twice: 0|1>
order iso: every program in a forked child of its own (a process that evaluated nothing before it): its stand-alone outcome.
A "program" starting with //C15-API regexp [pattern, flags, subject] calls microjs.regex.RegExp directly."""
import json, os, random, signal, sys

sys.path.insert(0, os.path.dirname(os.path.dirname(os.path.abspath(__file__))))
from vf import engine  # noqa: E402


class _Timeout(BaseException):
    pass


def _alarm(sig, frm):
    raise _Timeout()


API = "//C15-API regexp "


def api_outcome(m, src):
    import importlib
    p, f, subj = json.loads(src[len(API):])
    rxm = importlib.import_module(m.__name__ + ".regex")
    signal.setitimer(signal.ITIMER_VIRTUAL, 30)
    try:
        try:
            rx = rxm.RegExp(p, f)
            res = ["value", engine.tv([rx.source, rx.flags, bool(rx.test(subj))])]
        except _Timeout:
            res = ["hang"]
        except Exception as e:
            res = ["exc", type(e).__name__, str(e)[:200]]
    except _Timeout:
        res = ["hang"]
    finally:
        signal.setitimer(signal.ITIMER_VIRTUAL, 0)
    return [res, [], None]


def isolated(m, src, pollute_first):
    """The outcome of src in a child process forked before anything was evaluated."""
    rfd, wfd = os.pipe()
    pid = os.fork()
    if pid == 0:
        code = 1
        try:
            os.close(rfd)
            data = json.dumps(outcome(m, src, pollute_first)).encode()
            with os.fdopen(wfd, "wb") as f:
                f.write(data)
            code = 0
        finally:
            os._exit(code)
    os.close(wfd)
    with os.fdopen(rfd, "rb") as f:
        data = f.read()
    os.waitpid(pid, 0)
    try:
        return json.loads(data)
    except ValueError:
        return [["child-died"], [], None]


def outcome(m, src, pollute_first):
    if src.startswith(API):
        return api_outcome(m, src)
    log = []
    if pollute_first:
        # an earlier context with a *short* time limit that compiles the shared regex literals first:
        # nothing of it (deadline callbacks, caches) may reach later contexts
        q = m.Context(time_limit=0.05)
        try:
            q.eval("[/(a+)+b/, /(x|xx)+y/, /^(\\w+\\s?)+$/, /(a*)*b/, /(?:a|b)*c/, /(\\d+)+x/].map(function(r){ return r.test('ab'); })")
        except Exception:
            pass
        p = m.Context(time_limit=5)
        try:
            p.eval("Object.prototype.zzq = 1; Math.zzq = 2; Array.prototype.zzq = 3; var leak = 5; String.zzq = function(){ return 1; }; "
                   "JSON.zzq = 4; Error.prototype.zzq = 5; Number.zzq = 6; RegExp.zzq = 7; Math.PI2 = 6.28; delete Math.E;")
        except Exception:
            pass
    ctx = m.Context(time_limit=3)
    ctx.set("log", lambda *a: log.append([engine.tv(x) for x in a]))
    ctx.set("console", {"log": lambda *a: log.append([engine.tv(x) for x in a])})
    signal.setitimer(signal.ITIMER_VIRTUAL, 30)
    try:
        try:
            r = ctx.eval(src)
            res = ["value", engine.tv(r)]
        except _Timeout:
            res = ["hang"]
        except RecursionError:
            res = ["exc", "RecursionError", ""]
        except Exception as e:
            info = engine.exc_info(e)
            res = ["exc", info["cls"], (info.get("message") or "")[:200]]
    except _Timeout:
        res = ["hang"]
    finally:
        signal.setitimer(signal.ITIMER_VIRTUAL, 0)
    # what a *fresh* context looks like to the script after the program ran in it: nothing of
    # other contexts (earlier programs, the polluting context) may show
    try:
        fp = ctx.eval(FINGERPRINT)
    except BaseException as e:
        fp = "fingerprint raised " + type(e).__name__
    return [res, log[:200], fp]


FINGERPRINT = (
    "[typeof Math.zzq, typeof Object.prototype.zzq, typeof Array.prototype.zzq, typeof String.zzq, typeof leak, typeof JSON.zzq, "
    "typeof Error.prototype.zzq, typeof Number.zzq, typeof RegExp.zzq, typeof ({}).zzq, typeof [].zzq, typeof (function(){}).zzq, typeof Math.PI2, typeof Math.E]"
)


def main():
    progs = json.load(open(sys.argv[1], encoding="utf-8"))
    order, pollute, twice = sys.argv[3], sys.argv[4] == "1", sys.argv[5] == "1"
    signal.signal(signal.SIGVTALRM, _alarm)
    m = engine.load()
    idx = list(range(len(progs)))
    if order == "rev":
        idx.reverse()
    elif order.startswith("shuf:"):
        random.Random(int(order[5:])).shuffle(idx)
    out = [None] * len(progs)
    for i in idx:
        if order == "iso":
            out[i] = isolated(m, progs[i], pollute)
            continue
        o = outcome(m, progs[i], pollute)
        if twice:
            o2 = outcome(m, progs[i], pollute)
            if o2 != o:
                o = ["DIFFERS-ON-REPEAT", o, o2]
        out[i] = o
    json.dump(out, open(sys.argv[2], "w", encoding="utf-8"))


if __name__ == "__main__":
    main()
