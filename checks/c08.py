"""C08 - objects, prototypes, functions and `this` behave as specified.

 (a) hist   object-graph histories: one Context holds objects in the globals
            o0..o7 and the constructors F0..F3; every step renders one
            statement, evaluates it, applies the same operation to
            oracles/objmodel.Model and then runs all observations
            (o[k], k in o, hasOwnProperty, keys/values/entries, for-in,
            getPrototypeOf, instanceof, isPrototypeOf, JSON.stringify).
            Histories come from a seeded builder (gens/c08gen.HistoryBuilder);
            a failing history is shrunk by dropping steps (every sub-sequence
            of a history is a history: steps that make no sense in the current
            state are skipped on both sides).
 (b) call   call forms x function kinds x this-arguments, exhaustive; the
            expected effect log comes from oracles/refjs.py.

Known-finding guards (active only while their repro still fails):
  c08.intkey_order    integer-like keys enumerate in insertion order
  c08.accessor_enum   own accessor properties are missing from enumerations
"""
import collections
import json
import os

from gens import c08gen as G
from gens import progs
from oracles import objmodel as M
from vf import core, engine, pool

from . import c08_builtin, proglib

ID = "C08"
GUARD_FINDING = {}


# ====================================================================== (a)
def _kind_of(enc):
    if enc in ("throw", "u", "l", "OP", "AP", "FP", "Object", "Array", "fn", "arr", "obj"):
        return enc
    return enc[:1]


def key_class(model, o, k):
    holder, p = model.find(o, k)
    if p is None:
        c = "absent"
    elif holder is o:
        c = "own-acc" if p.acc else "own-data"
    elif holder in (model.OP, model.AP, model.FP):
        c = "builtin"
    else:
        c = "inh-acc" if p.acc else "inh-data"
    if k in ("__proto__", "length", "constructor", "toString"):
        c += ":" + k
    elif M.array_index(k) is not None:
        c += ":index"
    return c


def _match_list(actual, expected):
    """actual: list of texts; expected: [(text, optional)]."""
    # actual must be `expected` with any subset of the optional items left out
    states = {0}  # positions in `actual` reachable after the expected items so far
    for t, opt in expected:
        nxt = set()
        for j in states:
            if j < len(actual) and actual[j] == t:
                nxt.add(j + 1)
            if opt:
                nxt.add(j)
        states = nxt
        if not states:
            return False
    return len(actual) in states


# (which model, accessors included) -> class of the recorded deviation
VARIANTS = [
    ((0, True), None),
    ((1, True), "intkey-order"),
    ((0, False), "accessor-omitted"),
    ((1, False), "intkey-order+accessor-omitted"),
]
VARIANT_GUARDS = {
    "intkey-order": ("c08.intkey_order",),
    "accessor-omitted": ("c08.accessor_enum",),
    "intkey-order+accessor-omitted": ("c08.intkey_order", "c08.accessor_enum"),
}


def _split(s):
    return s.split("|")[1:] if s else []


def _list_diff_class(actual, expected):
    exp = [t for t, _ in expected]
    missing = [t for t in exp if t not in actual]
    extra = [t for t in actual if t not in exp]
    if missing and extra:
        return "missing+extra"
    if missing:
        return "missing"
    if extra:
        return "extra"
    if sorted(actual) == sorted(exp):
        return "order"
    return "dup"


class Comparer:
    """Compares one step's observation records with the model's and collects
    (signature, expected, actual) triples."""

    def __init__(self, guards):
        self.guards = guards
        self.bad = []
        self.known = collections.Counter()

    def state_known(self):
        """An answer that equals the one of the creation-order model: known
        while the integer-key finding is active."""
        if "c08.intkey_order" in self.guards:
            self.known[GUARD_FINDING.get("c08.intkey_order", "c08.intkey_order")] += 1
            return True
        return False

    def add(self, sig, exp, act):
        if len(self.bad) < 12 and all(b[0] != sig for b in self.bad):
            self.bad.append((sig, exp, act))

    def enum_obs(self, name, kind, got, recs, field, as_list=True):
        """An enumeration-type observation; recs = (ES record, record of the
        model that enumerates in creation order)."""
        good = recs[0]["variants"][True][field]
        shown = ["%s%s" % (t, "?" if opt else "") for t, opt in good] if as_list else good
        if got == "throw" and as_list:
            self.add("hist|%s|%s|throw" % (name, kind), shown, got)
            return
        hit = None
        for (which, acc), cls in VARIANTS:
            exp = recs[which]["variants"][acc][field]
            if exp is None:
                continue
            ok = _match_list(_split(got), exp) if as_list else (got == exp)
            if ok:
                hit = (cls,)
                break
        if hit == (None,):
            return
        if hit is not None:
            cls = hit[0]
            if all(g in self.guards for g in VARIANT_GUARDS[cls]):
                for g in VARIANT_GUARDS[cls]:
                    self.known[GUARD_FINDING.get(g, g)] += 1
                return
            self.add("hist|%s|%s|%s" % (name, kind, cls), shown, got)
            return
        d = _list_diff_class(_split(got), good) if as_list else "text"
        self.add("hist|%s|%s|%s" % (name, kind, d), shown, got)

    def target(self, model, spec, keys, protos, mode, recs, got):
        o = model.target(spec)
        kind = o.kind
        rec = recs[0]
        n_expected = 3 * len(keys) + ((4 + 1 + 4 + len(protos)) if mode & 2 else 0) + (1 if mode & 1 else 0)
        if not isinstance(got, list) or len(got) != n_expected:
            self.add("hist|shape|%s" % kind, n_expected, got if not isinstance(got, list) else len(got))
            return
        i = 0
        for k, (eg, ei, eh), alt in zip(keys, rec["per"], recs[1]["per"]):
            ag, ai, ah = got[i], got[i + 1], got[i + 2]
            i += 3
            if [ag, ai, ah] != [eg, ei, eh] and [ag, ai, ah] == alt and self.state_known():
                continue  # the state itself differs because of the recorded key order (Object.assign stopped elsewhere)
            if ag != eg:
                self.add("hist|get|%s|%s|%s->%s" % (kind, key_class(model, o, k), _kind_of(eg), _kind_of(ag)), [k, eg], [k, ag])
            if ai != ei:
                self.add("hist|in|%s|%s|%s->%s" % (kind, key_class(model, o, k), ei, ai), [k, ei], [k, ai])
            if ah != eh:
                self.add("hist|hasOwn|%s|%s|%s->%s" % (kind, key_class(model, o, k), eh, ah), [k, eh], [k, ah])
        if mode & 2:
            self.enum_obs("keys", kind, got[i], recs, "keys")
            self.enum_obs("values", kind, got[i + 1], recs, "values")
            self.enum_obs("entries", kind, got[i + 2], recs, "entries")
            self.enum_obs("forin", kind, got[i + 3], recs, "forin")
            i += 4
            if got[i] != rec["proto"] and got[i] == recs[1]["proto"] and self.state_known():
                pass
            elif got[i] != rec["proto"]:
                self.add("hist|getPrototypeOf|%s|%s->%s" % (kind, _kind_of(rec["proto"]), _kind_of(got[i])), rec["proto"], got[i])
            i += 1
            for j in range(4):
                if got[i + j] != rec["inst"][j]:
                    self.add("hist|instanceof|%s|%s->%s" % (kind, rec["inst"][j], got[i + j]), ["F%d" % j, rec["inst"][j]], ["F%d" % j, got[i + j]])
            i += 4
            for j, p in enumerate(protos):
                if got[i + j] != rec["isproto"][j]:
                    self.add("hist|isPrototypeOf|%s|%s->%s" % (kind, rec["isproto"][j], got[i + j]), [p, rec["isproto"][j]], [p, got[i + j]])
            i += len(protos)
        if mode & 1:
            if rec["variants"][True]["json"] is not None:
                self.enum_obs("json", kind, got[i], recs, "jsontext", as_list=False)


def _texts(items):
    return [("s" + k, opt) for k, opt in items]


def model_records(model, plan):
    recs = []
    for spec, keys, protos, mode in plan:
        rec = model.observe(spec, keys, protos, bool(mode & 1))
        for v in rec["variants"].values():
            v["keys"] = _texts(v["keys"])
            v["forin"] = _texts(v["forin"])
            v["entries"] = [("s" + t, opt) for t, opt in v["entries"]]
            v["jsontext"] = None if v["json"] is None else "throw" if v["json"] is M.CYCLIC else "J" + v["json"]
        recs.append(rec)
    return recs


class History:
    """One engine context + one model, stepped together."""

    def __init__(self, guards=(), observe=True):
        self.m = engine.load()
        self.ctx = self.m.Context(time_limit=5)
        self.model = M.Model()
        self.model2 = M.Model(es_key_order=False)  # enumerates in creation order (recorded finding)
        self.guards = set(guards)
        self.observe = observe
        self.steps_run = 0
        self.known = collections.Counter()
        self.excluded = collections.Counter()
        self.diverged = False
        r = self._eval(G.PRELUDE)
        if r != ("ok", "ready"):
            raise engine.HarnessError("C08 prelude failed: %r" % (r,))

    def _eval(self, src):
        try:
            with pool.cpu_alarm(12):
                return ("ok", self.ctx.eval(src))
        except pool.HarnessTimeout:
            return ("exc", ["HANG", ""])
        except Exception as e:
            info = engine.exc_info(e)
            if info["family"]:
                return ("exc", ["JSError", "%s: %s" % (info["name"], (info["message"] or "")[:80])])
            return ("exc", [info["cls"], (info["message"] or "")[:80], info["frame"]])

    def step(self, st, index, full=False, observe=None):
        """Returns None (agreement / skipped) or a list of (signature, expected, actual)."""
        if "c08.function_object" in self.guards and st["op"] in ("defdata", "defacc", "assign"):
            t = self.model.target(st["o"])
            if t is not None and t.kind == "function":
                # recorded finding: Object.defineProperty / Object.assign do not
                # take functions; the step is left out on both sides
                self.excluded["C08-function-object: defineProperty / assign on a function"] += 1
                return None
        if self.guards and st["op"] in ("get", "callm"):
            t = self.model.target(st["o"])
            if t is not None and G.guarded_key(self.model, t, self.model.key_from_form(st["key"]), self.guards):
                self.excluded["read of a key excluded by a recorded finding"] += 1
                return None
        res = self.model.apply(st)
        if res is M.SKIP:
            return None
        res2 = self.model2.apply(st)
        if res2 != res:
            # The step ends differently when keys are enumerated in creation
            # order (an Object.assign that stops at another key): from here on
            # the two models describe different object graphs.
            if "c08.intkey_order" in self.guards:
                self.excluded["C08-intkey-order: history left where the key order changes the outcome of a step"] += 1
                self.diverged = True
                return None
        self.steps_run += 1
        observe = self.observe if observe is None else observe
        if observe:
            plan = G.observation_plan(self.model, st, index, full, self.guards)
            obs_text = G.render_observation(plan)
        else:
            plan, obs_text = [], "[]"
        src = G.step_script(st, obs_text)
        r = self._eval(src)
        if r[0] != "ok":
            return [("hist|exception|%s|%s" % (st["op"], r[1][0]), res, ["exception"] + list(r[1]))]
        got = r[1]
        if not isinstance(got, list) or len(got) != 2 or not isinstance(got[1], list) or len(got[1]) != len(plan):
            return [("hist|shape", "list of %d records" % len(plan), repr(got)[:200])]
        cmpr = Comparer(self.guards)
        if got[0] != res:
            cmpr.add("hist|step|%s|%s->%s" % (st["op"], _kind_of(res.lstrip("=")) if res[0] == "=" else res,
                                              _kind_of(str(got[0]).lstrip("=")) if str(got[0])[:1] == "=" else got[0]), res, got[0])
        recs = model_records(self.model, plan)
        recs2 = model_records(self.model2, plan)
        for (spec, keys, protos, mode), rec, rec2, g in zip(plan, recs, recs2, got[1]):
            cmpr.target(self.model, spec, keys, protos, mode, (rec, rec2), g)
        self.known.update(cmpr.known)
        return cmpr.bad or None


def run_history(steps, guards=(), final_only=False, want=None):
    """Run a history; returns (failure | None, History).  failure =
    {"signature", "all", "expected", "actual", "at"}.  final_only: observe
    after the last step only (used while shrinking); `want`: the signature
    that must be reproduced (any failure if None)."""
    h = History(guards)
    n = len(steps)
    for i, st in enumerate(steps):
        last = i == n - 1
        bad = h.step(st, i, full=last or (i % 6 == 5), observe=(last or not final_only))
        if h.diverged:
            return None, h
        if bad:
            if final_only and not last:
                # step results of intermediate steps do not count while shrinking
                bad = [b for b in bad if b[0].startswith("hist|exception")]
                if not bad:
                    continue
            pick = bad[0]
            if want is not None:
                m = [b for b in bad if b[0] == want]
                if not m:
                    if last:
                        return None, h
                    continue
                pick = m[0]
            return {"signature": pick[0], "all": [b[0] for b in bad], "expected": pick[1], "actual": pick[2], "at": i}, h
    return None, h


def shrink_history(steps, fail, guards):
    """ddmin by dropping steps; the failing observation must recur (same
    signature) after the last kept step."""
    steps = steps[: fail["at"] + 1]
    want = fail["signature"]

    def still(cand):
        try:
            f, _ = run_history(cand, guards, final_only=True, want=want)
        except M.Unmodelled:
            return False
        return f is not None and f["at"] == len(cand) - 1

    if not still(steps):
        return steps  # the failure needs the intermediate observations (should not happen)
    budget = 80
    chunk = max(1, len(steps) // 2)
    while chunk >= 1 and budget > 0:
        i = 0
        progressed = False
        while i < len(steps) - 1 and budget > 0:
            cand = steps[:i] + steps[i + chunk:]
            if not cand or cand[-1] is not steps[-1]:
                cand = steps[:i] + steps[min(i + chunk, len(steps) - 1):]
            budget -= 1
            if len(cand) < len(steps) and still(cand):
                steps = cand
                progressed = True
            else:
                i += chunk
        if chunk == 1 and not progressed:
            break
        chunk = chunk // 2 if chunk > 1 else (1 if progressed else 0)
    return steps


MAX_SHRINKS_PER_TASK = 3


def hist_task(task):
    seeds, n_steps, guards = task
    out = {"histories": 0, "steps": 0, "nontrivial": [], "classes": collections.Counter(), "fails": [], "known": collections.Counter(),
           "excluded": collections.Counter()}
    seen = set()
    shrinks = 0
    for seed in seeds:
        steps = G.build_history(seed, n_steps)
        fail, h = run_history(steps, guards)
        out["histories"] += 1
        out["steps"] += h.steps_run
        out["known"].update(h.known)
        out["excluded"].update(h.excluded)
        for s in steps[: (fail["at"] + 1) if fail else len(steps)]:
            out["classes"]["hist " + s["op"]] += 1
            k = s.get("key")
            if isinstance(k, list):
                out["classes"]["key form " + (k[0] if k[0] != "computed" else "computed-" + k[1][0])] += 1
                kk = k[-1] if k[0] != "computed" else k[1][-1]
                if kk in ("__proto__", "length", "constructor", "toString"):
                    out["classes"]["key " + kk] += 1
        tags = G.history_tags(steps[: (fail["at"] + 1) if fail else len(steps)])
        if ("relink" in tags or "accessor" in tags) and "delete" in tags:
            out["nontrivial"].append(seed)
        if fail:
            for sig in fail["all"]:
                if sig in seen:
                    out["fails"].append({"signature": sig, "dup": True})
                    continue
                seen.add(sig)
                f = dict(fail, signature=sig)
                small = steps[: fail["at"] + 1]
                # shrinking is bounded per task: a broken tree fails in hundreds of
                # ways and every candidate is a replay of the whole history
                if shrinks < MAX_SHRINKS_PER_TASK and not sig.startswith("hist|exception"):
                    shrinks += 1
                    if sig != fail["signature"]:
                        f2, _ = run_history(small, guards, want=sig)
                        if f2 is not None:
                            f = f2
                    cand = shrink_history(steps, f, guards)
                    f3, _ = run_history(cand, guards, final_only=True, want=sig)
                    if f3 is not None:
                        small, f = cand, f3
                ops = sorted({s["op"] for s in small})
                out["fails"].append({
                    "signature": sig + ("|ops:" + "+".join(ops) if len(small) <= 4 else "|ops:many"),
                    "steps": small, "expected": f["expected"], "actual": f["actual"], "seed": seed,
                    "js": [G.render_step(s)[0] for s in small],
                })
    out["classes"] = dict(out["classes"])
    out["known"] = dict(out["known"])
    out["excluded"] = dict(out["excluded"])
    return out


def run_hist(chk, guards):
    if chk.tier == "quick":
        n_hist, n_steps, per_task = 320, 26, 5
    else:
        n_hist, n_steps, per_task = 3000, 40, 20
    seeds = [core.shard_seed(chk.seed, ID, "hist", i) % (2 ** 31) for i in range(n_hist)]
    tasks = [(seeds[i : i + per_task], n_steps, sorted(guards)) for i in range(0, n_hist, per_task)]
    results = pool.run(hist_task, tasks, timeout=1800)
    for t, r in zip(tasks, results):
        if isinstance(r, (pool.HANG, pool.CRASH)):
            raise engine.HarnessError("C08 history task %r" % r)
        chk.count(r["steps"])
        chk.extra["histories"] = chk.extra.get("histories", 0) + r["histories"]
        for s in r["nontrivial"]:
            chk.nontrivial("hist|%d" % s)
        for k, n in r["classes"].items():
            chk.classify(k, n)
        for fid, n in r["known"].items():
            chk.known_hit(fid, n)
        for why, n in r["excluded"].items():
            chk.excluded[why] += n
        for f in r["fails"]:
            if f.get("dup"):
                if f["signature"] in chk.violations:
                    chk.violations[f["signature"]]["count"] += 1
                    chk.violation_count += 1
                continue
            chk.violation(f["signature"], {"kind": "hist", "steps": f["steps"], "js": f["js"], "want": f["signature"].split("|ops:")[0]}, f["expected"], f["actual"], sub="hist")
            if len(chk.samples) < 6:
                chk.sample({"sub": "hist", "js": f["js"], "expected": f["expected"], "actual": f["actual"]}, cls="hist-fail")


def sample_histories(chk, guards):
    """A few agreeing histories for the evidence."""
    for i in range(2):
        seed = core.shard_seed(chk.seed, ID, "sample", i) % (2 ** 31)
        steps = G.build_history(seed, 8)
        f, h = run_history(steps, guards)
        chk.sample({"sub": "hist", "js": [G.render_step(s)[0] for s in steps], "agrees": f is None}, cls="hist")


# ====================================================================== (b)
def call_task(ids):
    out = []
    for pid in ids:
        prog = G.call_program_by_id(pid)
        exp = proglib.run_ref(prog)
        if "unmodelled" in exp:
            out.append((pid, "unmodelled", exp, None))
            continue
        src = progs.to_js(prog)
        got = proglib.run_engine(src, time_limit=5.0)
        d = proglib.compare(exp, got, check_message=False)
        out.append((pid, d, exp, got))
    return out


def _call_signature(pid, d):
    kind, form, t = pid.split("|")
    what = d[0]
    detail = d[1]
    tag = ""
    if isinstance(detail, dict) and detail.get("expected") is not None and what.startswith("log"):
        e = detail.get("expected")
        tag = e[0] if isinstance(e, list) and e and isinstance(e[0], str) else ""
    return "call|%s|%s|%s|%s" % (tag or "-", what, kind, form)


def run_calls(chk):
    ids = [p["id"] for p in G.call_programs()]
    batches = pool.chunks(ids, 12)
    for rb in pool.run(call_task, batches, timeout=600):
        if isinstance(rb, (pool.HANG, pool.CRASH)):
            raise engine.HarnessError("C08 call batch %r" % rb)
        for pid, d, exp, got in rb:
            if d == "unmodelled":
                raise engine.HarnessError("C08 call program %s is not modelled: %r" % (pid, exp))
            kind, form, t = pid.split("|")
            chk.count()
            chk.classify("call kind " + kind)
            chk.classify("call form " + form)
            if form not in ("plain",):
                chk.nontrivial("call|" + pid)
            if d is None:
                chk.sample({"sub": "call", "id": pid, "log": exp["log"][:8]}, cls="call " + form, per_class=1, total=30)
                continue
            sig = _call_signature(pid, d)
            key = "call|" + pid
            actual = _call_actual(d)
            chk.cell(key, _call_expected(d), actual, {"kind": "call", "id": pid, "js": progs.to_js(G.call_program_by_id(pid))}, sub="call", signature=sig)


def _call_expected(d):
    det = d[1]
    return [d[0], det.get("at"), det.get("expected")] if isinstance(det, dict) else [d[0], None, None]


def _call_actual(d):
    det = d[1]
    return [d[0], det.get("at"), det.get("actual")] if isinstance(det, dict) else [d[0], None, None]


# ===================================================================== main
def active_guards(chk):
    act = set()
    for name, e in sorted(chk.guards.items()):
        rp = e.get("repro")
        fails = True
        if rp:
            try:
                rec = core.load_json(os.path.join(core.ROOT, rp))
                fails = bool(replay(rec)["fails"])
            except FileNotFoundError:
                fails = True
        if fails:
            act.add(name)
            GUARD_FINDING[name] = e["id"]
            chk.known_hit(e["id"], 1)
    return act


def main(chk):
    chk.rule = (
        "(a) a history is non-trivial when it holds at least one prototype re-link or accessor definition and at least one "
        "delete before the final observation; (b) a call case is non-trivial when its `this` differs from the plain-call default"
    )
    chk.assumptions = [
        "oracles/objmodel.py: ECMAScript strict mode under spec.md's restrictions (all script-created properties writable/"
        "enumerable/configurable - descriptors are always spelled out; for-in visits own keys only; no array holes)",
        "enumerability of built-in properties that ES makes non-enumerable (constructor of a function's prototype object, "
        "prototype/name/length of functions) is left open: such keys may or may not appear in key lists",
        "functions are never used as prototypes, arrays never get their prototype changed, no prototype cycles are attempted",
        "error identity of failing steps is not compared (throw vs. no throw only); C07 owns error classes",
        "(b) expected logs come from oracles/refjs.py (validated against node, oracle_validation/c08.json)",
    ]
    known_repros = {os.path.basename(e.get("repro") or "") for e in chk.findings if e.get("status") == "known"}
    for path, rec in core.saved_replays(ID):
        if os.path.basename(path) in known_repros:
            continue
        r = replay(rec)
        chk.count()
        if r["fails"]:
            chk.violation("saved-replay|" + os.path.basename(path), rec.get("case"), r["expected"], r["actual"], sub="replay")
    guards = active_guards(chk)
    chk.extra["active_guards"] = sorted(guards)
    import time

    t0 = time.time()
    run_calls(chk)
    chk.extra["call_cases"] = chk.evaluations
    t1 = time.time()
    run_hist(chk, guards)
    sample_histories(chk, guards)
    t2 = time.time()
    c08_builtin.run(chk)  # campaign "builtin receivers" (checks/c08_builtin.py)
    chk.extra["history_steps"] = chk.evaluations - chk.extra["call_cases"]
    chk.extra["wall_parts_s"] = {"call": round(t1 - t0, 1), "hist": round(t2 - t1, 1)}
    chk.exhaustive = False


def replay(rec):
    case = rec["case"]
    if case.get("sub") == "builtin":
        return c08_builtin.replay_case(case)
    kind = case.get("kind")
    if kind == "hist":
        want = case.get("want")
        f, _ = run_history(case["steps"], guards=case.get("guards") or (), final_only=bool(case.get("final_only", True)), want=want)
        if f:
            return {"fails": True, "expected": f["expected"], "actual": f["actual"], "signature": f["signature"]}
        return {"fails": False, "expected": None, "actual": None}
    if kind == "call":
        (pid, d, exp, got), = call_task([case["id"]])
        if d is None:
            return {"fails": False, "expected": None, "actual": None}
        return {"fails": True, "expected": _call_expected(d), "actual": _call_actual(d)}
    raise engine.HarnessError("unknown replay kind %r" % kind)
