"""C03 - scripts can reach only JavaScript values, never host internals.

(a) Name probing (metamorphic): for every receiver kind x every name taken
    reflectively from the implementation classes, the Python dunder vocabulary
    and fresh identifiers x every access form, the observation made with the
    name must equal the observation made with a certainly-unknown control
    name (after renaming) - unless ECMAScript defines that name on that kind
    of receiver (golden/es_receiver_names.json, frozen from node) or the
    engine documents it (lineNumber/columnNumber/stack on errors, log on console).
(b) Value typing: every value a script can hold is passed to an exposed host
    function `inspect`: results of every discovered built-in call on
    adversarial arguments, everything reachable (depth 3, own keys, indices
    and a list of special property names) from the globals of corpus programs,
    and what eval/get return.  Allowed: JS primitives, JSObject family,
    JSFunction, callables exposed by the test or defined in microjs.*.
(c) Host functions run only when called: exposed functions in every
    non-calling position are never invoked; in calling positions they are
    invoked exactly as often, in order, with the written arguments.
"""
import json
import os
import random
import re

from oracles.prims import js_string_literal
from vf import core, engine, pool
from checks import c04

GOLD = os.path.join(core.ROOT, "golden", "es_receiver_names.json")
CONTROL = "qzxjvwkypfgh"
ARRAY_METHODS = ["push", "pop", "shift", "unshift", "join", "map", "filter", "reduce", "reduceRight", "forEach", "indexOf", "lastIndexOf", "find",
                 "findIndex", "some", "every", "concat", "slice", "splice", "reverse", "includes", "sort", "keys", "values", "entries", "fill", "flat", "flatMap", "at"]
DOCUMENTED = {
    # the engine's `arguments` object is a real array (array-like in ES): its array methods are JavaScript
    # behaviour (judged by C08), not host internals
    "arguments": ARRAY_METHODS,
    "error": ["lineNumber", "columnNumber", "stack"], "typeerror": ["lineNumber", "columnNumber", "stack"],
    "console": ["log"], "match-result": ["index", "input"],
}
DUNDERS = ["__class__", "__dict__", "__globals__", "__init__", "__subclasses__", "__mro__", "__getattribute__", "__builtins__", "__code__",
           "__self__", "__func__", "__module__", "__closure__", "__doc__", "__call__", "__name__", "__qualname__", "__bases__", "__base__",
           "__new__", "__reduce__", "__reduce_ex__", "__getattr__", "__setattr__", "__delattr__", "__import__", "__loader__", "__spec__",
           "__wrapped__", "__annotations__", "__defaults__", "__kwdefaults__", "__weakref__", "__slots__", "__hash__", "__eq__", "__repr__",
           "__str__", "__len__", "__iter__", "__next__", "__getitem__", "__setitem__", "__contains__", "__enter__", "__exit__", "__del__",
           "func_globals", "gi_frame", "f_back", "f_globals", "f_locals", "f_builtins", "tb_frame", "cr_frame", "__traceback__", "__cause__", "__context__"]


def receivers():
    g = json.load(open(GOLD, encoding="utf-8"))
    rec = dict(g["receivers"])
    rec["host-function"] = "hostfn"
    rec["host-call"] = "hostfn.call"
    return rec, {k: set(v) for k, v in g["names"].items()}


def implementation_names():
    """Attribute names of the implementation classes, collected reflectively."""
    m = engine.load()
    import importlib

    names = set()
    for modname in ("microjs.values", "microjs.vm", "microjs.context", "microjs.compiler", "microjs.regex.regex", "microjs.regex.vm", "microjs.errors"):
        try:
            mod = importlib.import_module(modname)
        except Exception:
            continue
        for cname, cls in vars(mod).items():
            if isinstance(cls, type) and (cls.__module__ or "").startswith("microjs"):
                names.update(dir(cls))
                names.update(getattr(cls, "__annotations__", {}).keys())
                names.update(getattr(cls, "__dataclass_fields__", {}).keys())
    # instance attributes: instantiate what can be instantiated cheaply
    try:
        ctx = m.Context()
        names.update(vars(ctx).keys())
        from microjs import values

        for obj in (values.JSObject(), values.JSArray(), values.JSFunction("f", [], b""), values.JSRegExp("a", ""), values.JSArrayBuffer(1)):
            names.update(vars(obj).keys())
        from microjs.vm import VM

        names.update(vars(VM()).keys())
    except Exception:
        pass
    return sorted(n for n in names if isinstance(n, str) and n)


PROBE_JS = r"""
var N = %(N)s; var R = %(R)s; var out = [];
var enc = function(v){ var t = typeof v; if (v === null) return 'null'; if (t === 'undefined' || t === 'boolean' || t === 'number' || t === 'string') return t + ':' + v; if (t === 'function') return 'function'; return 'object'; };
var tryf = function(f){ try { return enc(f()); } catch (e) { return 'throw:' + (e && e.name); } };
out.push(tryf(function(){ return R[N]; }));
out.push(tryf(function(){ return typeof R[N]; }));
out.push(tryf(function(){ return N in R; }));
out.push(tryf(function(){ return R.hasOwnProperty(N); }));
out.push(tryf(function(){ return Object.keys(R).indexOf(N); }));
out.push(tryf(function(){ var f = false; for (var k in R) { if (k === N) f = true; } return f; }));
out.push(tryf(function(){ return R[N](); }));
out.push(tryf(function(){ return R[N](1, 'a'); }));
out.push(tryf(function(){ return new (R[N])(); }));
out.push(tryf(function(){ return R[N].x; }));
out.push(tryf(function(){ return R[N] instanceof Object; }));
out.push(tryf(function(){ return ({}) instanceof R[N]; }));
out.push(tryf(function(){ return JSON.stringify(R[N]); }));
out.push(tryf(function(){ var c = Object.create(R); return c[N]; }));
out.push(tryf(function(){ var c = {__proto__: R}; return N in c; }));
out.push(tryf(function(){ return delete R[N]; }));
out.push(tryf(function(){ return R[N]; }));
out.push(tryf(function(){ R[N] = 7; return R[N]; }));
out.push(tryf(function(){ return typeof R[N]; }));
out.push(tryf(function(){ return Object.keys(R).indexOf(N) >= 0; }));
out.push(tryf(function(){ delete R[N]; return R[N]; }));
out.push(tryf(function(){ return '' + R[N]; }));
%(DOT)s
out
"""
DOT_JS = r"""
out.push(tryf(function(){ return R.%(n)s; }));
out.push(tryf(function(){ return typeof R.%(n)s; }));
out.push(tryf(function(){ return R.%(n)s(); }));
out.push(tryf(function(){ R.%(n)s = 8; return R.%(n)s; }));
out.push(tryf(function(){ return delete R.%(n)s; }));
"""
IDENT = re.compile(r"^[A-Za-z_$][A-Za-z0-9_$]*$")
RESERVED = set(c04.KEYWORDS_FALLBACK)


def probe_script(rexpr, name):
    dot = DOT_JS % {"n": name} if IDENT.match(name) and name not in RESERVED else ""
    return PROBE_JS % {"N": js_string_literal(name), "R": rexpr, "DOT": dot}


def probe_task(task):
    """task = (receiver kind, receiver expr, [names]); returns {name: observation}."""
    kind, rexpr, names = task
    m = engine.load()
    out = {}
    for n in names:
        ctx = m.Context(time_limit=10)
        ctx.set("hostfn", lambda *a: 1)
        ctx.set("console", {"log": lambda *a: None})
        try:
            with pool.cpu_alarm(20):
                try:
                    r = ctx.eval(probe_script(rexpr, n))
                    out[n] = ["ok", r]
                except pool.HarnessTimeout:
                    out[n] = ["hang"]
                except RecursionError as e:
                    out[n] = ["exc", "RecursionError", ""]
                except Exception as e:
                    info = engine.exc_info(e)
                    out[n] = ["exc", info["cls"], (info.get("message") or "")[:100]]
        except pool.HarnessTimeout:
            out[n] = ["hang"]
    return out


def rename(obs, frm, to):
    return json.loads(json.dumps(obs).replace(frm, to))


# ------------------------------------------------------------------ (b) typing
SCAN_JS = r"""
var SPECIAL = ['length','name','message','stack','lineNumber','columnNumber','source','flags','lastIndex','index','input','buffer','byteLength','byteOffset','BYTES_PER_ELEMENT','prototype','constructor','callee','global','sticky'];
var scan = function(v, d){
  inspect(v);
  if (d <= 0 || v === null || (typeof v !== 'object' && typeof v !== 'function')) return;
  var ks = [];
  try { ks = Object.keys(v); } catch (e) {}
  for (var i = 0; i < ks.length && i < 12; i++) { try { scan(v[ks[i]], d - 1); } catch (e) {} }
  if (typeof v.length === 'number') { for (var j = 0; j < v.length && j < 6; j++) { try { scan(v[j], d - 1); } catch (e) {} } }
  for (var s = 0; s < SPECIAL.length; s++) { try { inspect(v[SPECIAL[s]]); } catch (e) {} }
  try { for (var k in v) { inspect(k); } } catch (e) {}
};
"""


def allowed_value(v, exposed):
    """Python-side type rule for a value held by a script."""
    m = engine.load()
    from microjs import values

    if v is m.UNDEFINED or v is m.NULL or isinstance(v, (bool, int, float, str)):
        return True
    if isinstance(v, (values.JSObject, values.JSFunction)):
        return True
    if any(v is e for e in exposed):
        return True
    if isinstance(v, getattr(values, "JSBoundMethod", ())):
        return True
    if callable(v) and not isinstance(v, type):
        mod = getattr(v, "__module__", None) or getattr(getattr(v, "__func__", None), "__module__", None) or ""
        if isinstance(mod, str) and mod.startswith("microjs"):
            return True
    return False


def allowed_result(v, depth=0):
    """Python-side type rule for what eval/get hand back."""
    if v is None or isinstance(v, (bool, int, float, str)):
        return None
    if depth > 8:
        return None
    if isinstance(v, list):
        for x in v:
            r = allowed_result(x, depth + 1)
            if r:
                return r
        return None
    if isinstance(v, dict):
        for k, x in v.items():
            if not isinstance(k, str):
                return "dict key %r" % (k,)
            r = allowed_result(x, depth + 1)
            if r:
                return r
        return None
    if callable(v) and not isinstance(v, type):
        return None
    m = engine.load()
    from microjs import values

    if isinstance(v, (values.JSObject, values.JSFunction)):
        return None  # documented pass-through of non-plain objects
    return "%s.%s" % (type(v).__module__, type(v).__name__)


def typing_task(task):
    """task = ('exprs', [expr...]) or ('programs', [(src, [global names])...]).  Returns list of findings."""
    kind, items = task
    m = engine.load()
    findings = []
    counts = [0, 0]  # inspected values, distinct python types
    types = set()
    mon = _monitor()
    checked0 = mon.checked

    def make_ctx():
        ctx = m.Context(time_limit=10, memory_limit=50000000)
        seen = []

        def inspect(*a):
            for v in a:
                counts[0] += 1
                types.add(type(v).__name__)
                if not allowed_value(v, (inspect, hostfn, clog)):
                    seen.append("%s.%s" % (type(v).__module__, type(v).__name__))
            return None

        def hostfn(*a):
            return 1

        def clog(*a):
            return None

        ctx.set("inspect", inspect)
        ctx.set("hostfn", hostfn)
        ctx.set("log", inspect)  # generated programs (gens/) report through log(tag, value)
        ctx.set("console", {"log": clog, "error": clog})
        mon.exposed = [inspect, hostfn, clog]
        return ctx, seen

    def run(ctx, src, seen=None):
        try:
            try:
                with pool.cpu_alarm(40):
                    try:
                        return ("ok", ctx.eval(src))
                    except pool.HarnessTimeout:
                        return ("hang", None)
                    except Exception as e:
                        return ("exc", engine.exc_info(e))
            except pool.HarnessTimeout:
                return ("hang", None)
        finally:
            # values that were on the VM's operand stack during this evaluation
            for t, op in mon.take():
                if seen is not None:
                    seen.append("stack:%s" % t)

    if kind == "exprs":
        # many expressions per script; bisect when something non-JS is seen
        def rec(es):
            ctx, seen = make_ctx()
            body = SCAN_JS + "".join("(function(){ try { scan(%s, 2); } catch (e) { inspect(e); } })();\n" % e for e in es)
            st, r = run(ctx, body + "0", seen)
            if not seen and st != "exc":
                return
            if st == "exc" and not seen and len(es) == 1:
                return  # host exceptions are C04's business
            if len(es) == 1:
                findings.append({"expr": es[0], "python_types": sorted(set(seen))})
                return
            mid = len(es) // 2
            rec(es[:mid])
            rec(es[mid:])

        rec(list(items))
    else:
        for src, names in items:
            ctx, seen = make_ctx()
            st, r = run(ctx, src, seen)
            if st == "ok":
                bad = allowed_result(r)
                if bad:
                    findings.append({"program": src[:600], "eval_result_contains": bad})
            tail = SCAN_JS + "".join("try { if (typeof %s !== 'undefined') scan(%s, 3); } catch (e%d) { inspect(e%d); }\n" % (n, n, i, i) for i, n in enumerate(names))
            st2, r2 = run(ctx, tail + "0", seen)
            for n in names[:20]:
                try:
                    with pool.cpu_alarm(10):
                        g = ctx.get(n)
                    bad = allowed_result(g)
                    if bad:
                        findings.append({"program": src[:600], "get": n, "get_result_contains": bad})
                        break
                except BaseException:
                    pass
            if seen:
                findings.append({"program": src[:600], "python_types": sorted(set(seen))})
    return (findings, counts[0], sorted(types), (mon.checked - checked0) if mon.available else -1)


_MON = []


def _monitor():
    """One operand-stack monitor per worker process (vf/typemon.py)."""
    if not _MON:
        from vf import typemon

        mon = typemon.Monitor()
        mon.install()
        _MON.append(mon)
    return _MON[0]


def operator_exprs():
    """Every operator over the whole primitive grid of C06 (results go through inspect())."""
    from gens import values as V
    from oracles import prims as P

    srcs = [s for _, s, _ in V.grid()]
    G = "[%s]" % ", ".join(srcs)
    out = []
    for op in P.BINOPS:
        for a in srcs:
            out.append("(function(){ var G = %s; var a = %s; for (var i = 0; i < G.length; i++) { inspect(a %s G[i]); } })()" % (G, a, op))
    for op in P.UNOPS:
        sp = " " if op.isalpha() else ""
        out.append("(function(){ var G = %s; for (var i = 0; i < G.length; i++) { inspect(%s%s G[i]); } })()" % (G, op, sp))
    for op in P.COMPOUND:
        out.append("(function(){ var G = %s; for (var i = 0; i < G.length; i++) for (var j = 0; j < G.length; j += 3) { var x = G[i]; x %s G[j]; inspect(x); } })()" % (G, op))
    out.append("(function(){ var G = %s; for (var i = 0; i < G.length; i++) { var x = G[i]; inspect(x++); inspect(x); x = G[i]; inspect(--x); } })()" % G)
    for fn in ("Math.pow", "Math.atan2", "Math.max", "Math.min", "Math.hypot", "Math.imul"):
        out.append("(function(){ var G = %s; for (var i = 0; i < G.length; i++) for (var j = 0; j < G.length; j++) { try { inspect(%s(G[i], G[j])); } catch (e) { inspect(e); } } })()" % (G, fn))
    return out


ARRAY_LIKES = ["({length: 3, 0: 'a'})", "({length: 1})", "({length: 2, 1: 'b'})", "[1,,3]", "new Array(3)", "[,]", "new Uint8Array(2)", "'ab'",
               "(function(){ return arguments; })(1, 2)", "({length: '2'})", "({length: 2.5, 0: 1})", "({length: -1})", "({})", "null", "undefined", "5", "[]",
               "[undefined, null]", "({length: 2, 0: undefined})"]
CALLEES = [
    "inspect",
    "(function(a, b, c){ inspect(a); inspect(b); inspect(c); for (var i = 0; i < arguments.length; i++) inspect(arguments[i]); return [a, b, c, arguments.length]; })",
    "((a, b, c) => [a, b, c])",
    "(function(a, b, c){ return [a, b, c]; }).bind(null)",
    "(function(a, b, c){ return [a, b, c]; }).bind(null, 1)",
    "inspect.bind(null)",
    "Math.max", "String.fromCharCode", "[].concat", "Array", "Object", "Array.of",
]


def argflow_exprs():
    """How argument lists reach a callee: apply / call / bind / spread / new with array-likes that have
    holes, and calls with fewer arguments than parameters."""
    out = []
    for f in CALLEES:
        for x in ARRAY_LIKES:
            out.append("%s.apply(null, %s)" % (f, x))
            out.append("Function.prototype.apply.call(%s, null, %s)" % (f, x))
            out.append("%s.bind.apply(%s, %s)" % (f, f, x))
        out.append("%s()" % f)
        out.append("%s.call()" % f)
        out.append("%s.call(null, 1)" % f)
        out.append("%s(...[1,,3])" % f)
        out.append("new %s(...[,1])" % f)
    for x in ARRAY_LIKES:
        out.append("(function(){ var t = []; [].push.apply(t, %s); return t; })()" % x)
        out.append("(function(){ var t = [0]; [].splice.apply(t, %s); return t; })()" % x)
        out.append("Array.from(%s)" % x)
        out.append("Array.prototype.slice.call(%s)" % x)
        out.append("Array.prototype.map.call(%s, function(v){ inspect(v); return v; })" % x)
        out.append("Array.prototype.concat.call([], %s)" % x)
        out.append("[].concat(%s)" % x)
        out.append("(function(){ var r = []; for (var v of %s) { r.push(v); } return r; })()" % x)
        out.append("(function(){ var [p, q, r] = %s; return [p, q, r]; })()" % x)
        out.append("JSON.stringify(%s)" % x)
        out.append("Object.values(%s)" % x)
        out.append("Object.entries(%s)" % x)
    out += ["[1,,3][1]", "new Array(3)[0]", "[,].pop()", "[].pop()", "[].shift()", "({}).x", "(function(a){ return a; })()", "(function(){ return arguments[5]; })(1)",
            "'a'.match(/(b)?a/)", "/(b)?a/.exec('a')", "'xay'.split(/(b)?a/)", "'a'.replace(/(b)?a/, function(m, g){ inspect(g); return g; })",
            "JSON.parse('[null, {\"a\": null}]')", "(function(){ try { null.x; } catch (e) { return e; } })()",
            "(function(){ try { undefinedName; } catch (e) { return e; } })()", "(function(){ try { new Array(-1); } catch (e) { return e; } })()",
            "(function(){ try { JSON.parse('{'); } catch (e) { return e; } })()", "(function(){ try { (1).toFixed(1000); } catch (e) { return e; } })()",
            "(function(){ try { new RegExp('('); } catch (e) { return e; } })()", "(function(){ var o = {get g(){ }}; return o.g; })()",
            "(function(){ var o = {}; Object.defineProperty(o, 'g', {get: console.log}); return o.g; })()",
            "(function(){ var o = {}; Object.defineProperty(o, 'g', {get: inspect, set: inspect}); o.g = 1; return o.g; })()",
            "(function(){ var o = {valueOf: console.log}; try { return o + 1; } catch (e) { return e; } })()",
            "(function(){ var o = {toString: console.log}; try { return '' + o; } catch (e) { return e; } })()",
            "[3, 1, 2].sort(console.log)", "[1, 2].map(console.log)", "[1, 2].reduce(console.log)", "[1, 2].find(console.log)", "[1, 2].filter(console.log)",
            "'abc'.replace(/b/, console.log)", "JSON.stringify({a: 1}, console.log)", "JSON.parse('{\"a\": 1}', console.log)",
            "JSON.stringify({set x(v){}, a: 1}, function(k, v){ inspect(k); inspect(v); return v; })",
            "JSON.stringify({set x(v){}, get y(){ return 2; }}, inspect)", "JSON.stringify([function(){}, undefined], function(k, v){ inspect(v); return v; })",
            "(function(){ var o = {}; Object.defineProperty(o, 'w', {set: function(v){}, enumerable: true}); var seen = []; for (var k in o) seen.push(o[k]); return [o.w, seen, Object.values ? Object.values(o) : 0, Object.entries ? Object.entries(o) : 0]; })()",
            "Object.assign({}, {set x(v){}})", "JSON.parse(JSON.stringify({a: undefined, b: function(){}, c: [undefined]}))",
            "new console.log()", "console.log.call(null)", "console.log.apply(null, [])", "console.log.bind(null)()", "void console.log()"]
    return out


def generated_programs(chk):
    """Sources of the other checks' program generators (control flow, exceptions): every value they
    hold passes the operand stack under the monitor and every logged value goes through inspect()."""
    out = []
    quick = chk.tier == "quick"
    try:
        from gens import c05gen, progs

        for k in range(250 if quick else 6000):
            p = c05gen.random_program(core.shard_seed(chk.seed, "C03", "c05", k) & 0xFFFFFFFFFFFF)
            out.append((progs.to_js(p, progs.Layout()), []))
    except Exception as e:  # a generator of another check changed shape: say so, do not fail C03
        chk.extra["c05gen_unavailable"] = repr(e)[:200]
    try:
        from gens import c07gen

        descs = list(c07gen.sites_product())
        step = 4 if quick else 1
        for d in descs[chk.seed % step :: step]:
            try:
                out.append((c07gen.to_source(c07gen.from_desc(d)), []))
            except Exception:
                continue
    except Exception as e:
        chk.extra["c07gen_unavailable"] = repr(e)[:200]
    return out


# ---------------------------------------------------------------- (c) host calls
NONCALLING = [
    "var s = h1; var t = [h1, h2]; var o = {f: h1}; o.f === h1",
    "typeof h1 + typeof h2",
    "String(h1) + ('' + h2)",
    "h1 == h2; h1 === h1; h1 != null; !h1",
    "JSON.stringify({a: h1, b: [h2]})",
    "var k = {}; k[h1] = 1; Object.keys(k).length",
    "[h2, h1].sort().length",
    "Object.keys(h1).length; for (var p in h1) {} 0",
    "h1.x; h1.x = 5; delete h1.x; h1['y']",
    "try { 'x' in h1 } catch (e) {} try { ({}) instanceof h1 } catch (e2) {} 0",
    "try { throw h1 } catch (e) { e === h1 }",
    "[h1].indexOf(h1) + [h1].lastIndexOf(h2) + ([h1].includes(h1) ? 1 : 0)",
    "var f = function(g){ return g; }; f(h1) === h1",
    "[1, 2].map(function(x){ return h1; }).length",
    "h1 ? 1 : 2; h1 && 3; h1 || 4",
    "var c = h1.call; var b = h1.bind; var a = h1.apply; typeof c + typeof b + typeof a",
    "var bound = h1.bind(null, 1); typeof bound",
    "[h1, h2].concat([h1]).slice(1).reverse().length",
    "Object.assign({}, {m: h1}).m === h1",
    "var o2 = {valueOf: h1}; typeof o2",
    "var o3 = {get g(){ return h1; }}; o3.g === h1",
    "isNaN(h1); Number(h1); parseInt(h1); parseFloat(h2); 0",
    "h1 + 1; h1 - 1; h1 * 2; -h1; +h2; h1 < h2; h1 | 0; 0",
    "new Array(h1).length; [h1].join('-').length; String.fromCharCode(h1); 0",
    "var r = /a/; r.test(h1); 'abc'.indexOf(h1); 'abc'.replace('b', h1 + ''); 0",
]
CALLING = [
    ("h1(1, 'a')", [["h1", [1, "a"]]]),
    ("h1(); h2(2); h1(3)", [["h1", []], ["h2", [2]], ["h1", [3]]]),
    ("h1.call(null, 4)", [["h1", [4]]]),
    ("h1.apply(null, [5, 6])", [["h1", [5, 6]]]),
    ("h1.bind(null, 7)(8)", [["h1", [7, 8]]]),
    ("[1, 2].forEach(h2)", [["h2", [1, 0, "<obj>"]], ["h2", [2, 1, "<obj>"]]]),
    ("var o = {m: h1}; o.m(9)", [["h1", [9]]]),
    ("(function(){ return h2(10); })()", [["h2", [10]]]),
    ("var o4 = {valueOf: h1}; o4 + 1", [["h1", []]]),
]


REBIND_NAMES = ["Object", "Array", "String", "Number", "Boolean", "Function", "RegExp", "Error", "TypeError", "ReferenceError", "RangeError", "SyntaxError",
                "EvalError", "URIError", "Symbol", "Date", "Math", "JSON", "console", "parseInt", "parseFloat", "isNaN", "isFinite", "eval", "Uint8Array",
                "ArrayBuffer", "Float64Array", "Map", "Set", "Promise", "globalThis", "undefined", "NaN", "Infinity", "arguments", "toString", "valueOf",
                "hasOwnProperty", "constructor", "prototype", "length"]
# what the engine does on its own account (errors it raises, conversions, literals, built-ins): none of it names a global
TRIGGERS = [
    "null.x", "undefinedName", "(void 0)()", "new (function(){ return [].constructor; }())(-1)", "[].constructor(-1)", "(1).toFixed(1000)", "'a'.repeat(-1)",
    "[].reduce(function(){})", "({}) instanceof 5", "'x' in 5", "[1, 2, 3].map(function(x){ return x; })", "'abc'.split('')",
    "[1, 2].concat([3])", "({a: 1}).toString()", "'' + {}", "[] + 1", "/a(b)?/.exec('a')", "'a'.match(/a/g)", "'a'.replace(/a/, 'b')", "[3, 1].sort()",
    "`t${1}`", "for (var k in {a: 1}) {}", "for (var v of [1]) {}", "(function(){ return arguments.length; })(1)", "(255).toString(16)", "1 / 0", "typeof zz",
    "({}).hasOwnProperty('a')", "[1, [2]].toString()", "var o = {get g(){ return 1; }}; o.g", "'abc'.length", "[1, 2].length", "(function(a, b){}).length",
    "+'12'", "'5' * '2'", "[1, 2].indexOf(2)", "[1, 2, 3].slice(1)", "'x'.charCodeAt(0)", "(12.5).toFixed(1)", "1 < 'a'", "null == undefined", "-{}",
    "throw 1", "throw {a: 1}", "(function(){ 'use strict'; return this; })()", "new (function C(){ this.a = 1; })()", "[...[1, 2]]", "var {a} = {a: 1}; a",
    "/(/", "'a'.match('(')", "'a'.search('[')", "(function(){ try { null.x; } finally { } })()",
]
# the same with the helpers that do name a global (skipped for that global)
NAMED_TRIGGERS = [
    ("JSON", "JSON.parse('{')"), ("JSON", "JSON.stringify({a: [1]})"), ("JSON", "JSON.parse('[1]')"), ("RegExp", "new RegExp('(')"), ("Array", "new Array(-1)"),
    ("Object", "Object.keys({a: 1})"), ("Object", "Object.create(null)"), ("Error", "new Error('x').message"), ("eval", "eval('1 +')"), ("eval", "eval('1 + 1')"),
    ("Function", "new Function('return 1')()"), ("Function", "new Function('(')"), ("Uint8Array", "new Uint8Array(2)"), ("Number", "Number('x')"),
    ("String", "String(5)"), ("Math", "Math.max(1, 2)"), ("parseInt", "parseInt('12')"),
]


def rebind_cases():
    """A global name bound to an exposed function (by the script or by the embedder) is a value like any
    other: whatever the engine then does on its own account must not call it.  A case is a list of
    sources evaluated one after the other in one context (a trigger that does not parse costs only itself)."""
    out = []
    for n in REBIND_NAMES:
        trig = [t for t in TRIGGERS] + [t for g, t in NAMED_TRIGGERS if g != n]
        trig = [t for t in trig if not re.search(r"\b%s\b" % re.escape(n), t)]
        out.append((["try { %s = h1; } catch (e) { }" % n] + trig, []))
        out.append((["var %s = h1;" % n] + trig, []))
        out.append((["//set:%s" % n] + trig, []))
        # the error / value the engine produces must still be a JavaScript value for the script
        out.append((["try { %s = h1; } catch (e) { }" % n] + ["try { %s; } catch (e) { inspect(e); }" % t for t in trig if not t.startswith("throw")], []))
    return out


def hostcall_task(task):
    m = engine.load()
    out = []
    for src, expect in task:
        log = []

        def mk(name):
            def fn(*a):
                log.append([name, [x if isinstance(x, (int, float, str, bool)) else "<obj>" for x in a]])
                return 1
            return fn

        bad = []

        def inspect(*a):
            for v in a:
                if not allowed_value(v, ()):
                    bad.append("%s.%s" % (type(v).__module__, type(v).__name__))

        ctx = m.Context(time_limit=2)
        ctx.set("h1", mk("h1"))
        ctx.set("h2", mk("h2"))
        ctx.set("inspect", inspect)
        srcs = [src] if isinstance(src, str) else list(src)
        if srcs[0].startswith("//set:"):  # the embedder binds the global name
            ctx.set(srcs[0][6:], mk("h1"))
        st = "ok"
        ran = 0
        for one in srcs:
            try:
                with pool.cpu_alarm(20):
                    ctx.eval(one)
                ran += 1
            except pool.HarnessTimeout:
                st = "hang"
                break
            except Exception as e:
                if len(srcs) == 1:
                    st = "exc:" + type(e).__name__
                elif not isinstance(e, m.JSError):
                    st = "host-exc:" + type(e).__name__
                elif "SyntaxError" not in str(e)[:40]:
                    ran += 1
        if bad:
            log.append(["non-JS value reached the script", sorted(set(bad))])
        out.append((src if isinstance(src, str) else list(srcs), expect, log, st if len(srcs) == 1 else "%s no-syntax-error=%d/%d" % (st, ran, len(srcs))))
    return out


# ------------------------------------------------------------------- the check
def main(chk):
    chk.rule = (
        "(a) receiver kinds x names (reflective attribute names of every implementation class, Python dunders, fresh identifiers) x "
        "27 access forms vs. a control name; non-trivial = the name is an attribute of an implementation class or a dunder and is not "
        "an ES-defined name of that receiver kind. (b) every discovered built-in call on adversarial arguments and everything reachable "
        "from the globals of corpus programs goes through inspect(); non-trivial = case that produced >= 1 inspected value. (c) exposed "
        "functions in non-calling / calling positions. Distinct by (receiver, name) / expression / program."
    )
    chk.assumptions = ["the ES-visible names per receiver kind are frozen from node 20 at development time (golden/es_receiver_names.json)",
                       "callables defined in microjs.* modules are the engine's built-in functions and count as JavaScript functions"]
    for path, rec in core.saved_replays("C03"):
        r = replay(rec)
        chk.count()
        if r["fails"]:
            chk.violation("saved-replay|" + path, rec.get("case"), r["expected"], r["actual"], sub="replay")
    quick = chk.tier == "quick"
    import time as _time
    _t0 = _time.time()
    rec, es_names = receivers()
    impl = implementation_names()
    chk.extra["implementation_names"] = len(impl)
    rnd = random.Random(core.shard_seed(chk.seed, "C03", "names"))
    fresh = ["".join(rnd.choice("abcdefghijklmnopqrstuvwxyz") for _ in range(rnd.randint(3, 10))) for _ in range(40)]
    names = sorted(set(impl) | set(DUNDERS) | set(fresh))
    if quick:
        # all dunders + every implementation name that starts with '_' + a seeded half of the rest
        rest = [n for n in names if not n.startswith("_") and n not in DUNDERS]
        rnd.shuffle(rest)
        names = sorted(set([n for n in names if n.startswith("_")] + DUNDERS + rest[: len(rest) // 2]))
    tasks = []
    for kind, rexpr in sorted(rec.items()):
        wl = es_names.get(kind, set()) | set(DOCUMENTED.get(kind, []))
        ns = [n for n in names if n not in wl and n != CONTROL]
        for part in pool.chunks(ns + [CONTROL], 60):
            if CONTROL not in part:
                part = part + [CONTROL]
            tasks.append((kind, rexpr, part))
    res = pool.run(probe_task, tasks, timeout=900)
    implset = set(impl) | set(DUNDERS)
    for (kind, rexpr, ns), r in zip(tasks, res):
        if isinstance(r, (pool.HANG, pool.CRASH)):
            chk.violation("probe|%s|%r" % (kind, r), {"sub": "probe", "receiver": kind}, None, repr(r), sub="probe")
            continue
        ctrl = r.get(CONTROL)
        for n in ns:
            if n == CONTROL:
                continue
            chk.count()
            if n in implset:
                chk.nontrivial("%s|%s" % (kind, n))
            obs = r[n]
            want = rename(ctrl, CONTROL, n)
            if obs[0] == "ok" and want[0] == "ok" and len(obs[1]) < len(want[1]):
                # a reserved word has no dot-access forms: compare the forms both have
                want = [want[0], want[1][: len(obs[1])]]
            if obs != want:
                diff = [i for i, (a, b) in enumerate(zip(obs[1] if obs[0] == "ok" else [], want[1] if want[0] == "ok" else [])) if a != b][:4]
                chk.violation("probe|%s|form%s|%s" % (kind, diff[:1], n if n in DUNDERS else ("_private" if n.startswith("_") else "public")),
                              {"sub": "probe", "receiver": kind, "receiver_expr": rexpr, "name": n, "differing_forms": diff}, want, obs, sub="probe")
            elif len(chk.samples) < 8 and n in implset:
                chk.sample({"sub": "probe", "receiver": kind, "name": n, "observation": obs[1][:6] if obs[0] == "ok" else obs})
    _t1 = _time.time()
    # (b) typing: built-in surface
    found, gl = c04.discover_surface()
    exprs = [e for e, _, _ in c04.surface_cases(chk, found, gl)]
    if quick:
        exprs = exprs[:: 3]
    tasks = [("exprs", b) for b in pool.chunks(exprs, 80)]
    ops = operator_exprs()
    if quick:
        ops = ops[chk.seed % 2 :: 2]  # every second left operand (all operators, all right operands), rotated by seed
    tasks += [("exprs", b) for b in pool.chunks(ops, 40)]
    tasks += [("exprs", b) for b in pool.chunks(argflow_exprs(), 60)]
    chk.extra["operator_grid_exprs"] = len(ops)
    corpus = [c["src"] for c in json.load(open(c04.CORPUS, encoding="utf-8"))]
    progs = []
    for src in corpus:
        gn = sorted(set(re.findall(r"\bvar\s+([A-Za-z_$][\w$]*)", src)) | set(re.findall(r"\bfunction\s+([A-Za-z_$][\w$]*)", src)))[:25]
        progs.append((src, gn))
    gen = generated_programs(chk)
    chk.extra["generated_programs"] = len(gen)
    progs = progs + gen
    tasks += [("programs", b) for b in pool.chunks(progs, 12)]
    # Workers get 2 GiB of address space: a built-in asked for a huge result (repeat / padStart / Array(n) ...)
    # then fails inside the worker with MemoryError (a host exception: C04's business, not a typing question)
    # instead of taking the machine's memory.  A batch whose worker is killed or hangs all the same is re-run
    # item by item; an item that still kills its worker is counted as a resource exclusion, never as a violation
    # (the kill comes from outside the engine: C01 / C02 / C04 judge time and memory).
    TYPING_MEM = 2 << 30
    res = pool.run(typing_task, tasks, timeout=1200, mem_bytes=TYPING_MEM)
    redo = [(kind, [it]) for (kind, items), r in zip(tasks, res) if isinstance(r, (pool.HANG, pool.CRASH)) for it in items]
    if redo:
        tasks = [t for t, r in zip(tasks, res) if not isinstance(r, (pool.HANG, pool.CRASH))] + redo
        res = [r for r in res if not isinstance(r, (pool.HANG, pool.CRASH))] + pool.run(typing_task, redo, timeout=300, nproc=6, mem_bytes=TYPING_MEM)
        chk.extra["typing_items_rerun_singly"] = len(redo)
    inspected = 0
    stack_checked = 0
    monitor_ok = True
    pytypes = set()
    for (kind, items), r in zip(tasks, res):
        if isinstance(r, (pool.HANG, pool.CRASH)):
            chk.count()
            chk.excluded["resource: the worker evaluating this item was killed or did not return (%s)" % ("hang" if isinstance(r, pool.HANG) else "crash")] += 1
            if len(chk.extra.setdefault("typing_resource_items", [])) < 10:
                it = items[0]
                chk.extra["typing_resource_items"].append((it if isinstance(it, str) else it[0])[:200])
            continue
        findings, n, types, stackn = r
        stack_checked += max(stackn, 0)
        monitor_ok = monitor_ok and stackn >= 0
        inspected += n
        pytypes.update(types)
        for it in items:
            chk.count()
            chk.nontrivial(core.h16(it if isinstance(it, str) else it[0]))
        for f in findings:
            t = f.get("python_types") or [f.get("eval_result_contains") or f.get("get_result_contains")]
            chk.violation("typing|%s|%s" % ("builtin-call" if "expr" in f else "program", ",".join(t)[:80]), dict(f, sub="typing"),
                          "only JavaScript values", t, sub="typing")
    chk.extra["values_inspected"] = inspected
    chk.extra["operand_stack_values_checked"] = stack_checked if monitor_ok else "monitor unavailable (VM._execute_opcode / VM.stack not found)"
    chk.extra["python_types_seen"] = sorted(pytypes)
    chk.sample({"sub": "typing", "values_inspected": inspected, "python_types_seen": sorted(pytypes)})
    _t2 = _time.time()
    # (c)
    cases = [(s, []) for s in NONCALLING] + CALLING + rebind_cases()
    res = pool.run(hostcall_task, pool.chunks(cases, 5), timeout=300)
    for rb in res:
        if isinstance(rb, (pool.HANG, pool.CRASH)):
            chk.violation("hostcall|%r" % rb, {"sub": "hostcall"}, None, repr(rb), sub="hostcall")
            continue
        for src, expect, log, st in rb:
            chk.count()
            chk.nontrivial("hc" + (src if isinstance(src, str) else "\n".join(src)))
            if log != expect:
                chk.violation("hostcall|%s" % ("called-without-call" if not expect else "wrong-calls"), {"sub": "hostcall", "src": src}, expect, [log, st], sub="hostcall")
            elif len(expect) == 0 and len(chk.samples) < 14:
                chk.sample({"sub": "hostcall", "src": src, "calls": log})
    chk.extra["phase_wall_s"] = {"probe": round(_t1 - _t0, 1), "typing": round(_t2 - _t1, 1), "hostcall": round(_time.time() - _t2, 1)}
    chk.exhaustive = False


def replay(rec):
    case = rec["case"]
    if case.get("sub") == "probe":
        r = probe_task((case["receiver"], case["receiver_expr"], [case["name"], CONTROL]))
        want = rename(r[CONTROL], CONTROL, case["name"])
        return {"fails": r[case["name"]] != want, "expected": want, "actual": r[case["name"]]}
    if case.get("sub") == "typing":
        if "expr" in case:
            f, n, t, _ = typing_task(("exprs", [case["expr"]]))
        else:
            f, n, t, _ = typing_task(("programs", [(case["program"], [])]))
        return {"fails": bool(f), "expected": "only JavaScript values", "actual": f}
    if case.get("sub") == "hostcall":
        exp = rec.get("expected") or []
        (src, e, log, st), = hostcall_task([(case["src"], exp)])
        return {"fails": log != exp, "expected": exp, "actual": log}
    return {"fails": False, "expected": None, "actual": "not replayable"}
