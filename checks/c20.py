"""C20 - regex state and regex-driven string methods follow the lastIndex protocol.

Campaigns
  pre   every pattern of campaign (a) x the i/m parts of the flag sets x the subjects: the engine's plain
        single match (microjs.regex.RegExp(p, f).exec(s), no g/y) must agree with oracles/reref.py; a pattern
        that does not is dropped from (a) and counted (that is C09's business, not C20's).
  a     state machine: histories over {exec(s), test(s), lastIndex = k (k in 0, 1, 2, len, len+1, -1, 1.5,
        "1", NaN, undefined), read lastIndex, s.match(r), s.replace(r,"x"), s.search(r), s.split(r)} on one
        fresh `new RegExp(p, f)` per history, p from PATTERNS_A, f from {"", g, y, gy, gi, gm}, s from
        SUBJECTS_A.  One engine script per history; after every step the script records [result, r.lastIndex].
        quick: every history of length 3, VERIF_SEED-rotated 1/20 sample per (p, f, s); thorough: all of
        length 3, a 1/100 sample of length 4 and 400 + 400 histories of length 5 and 6 over a reduced alphabet
        (exec, test, lastIndex = 1 | len | "1", match, search) per (p, f, s).
  ar    random histories of length 4..10 (part Hypothesis, part seeded) with two subjects, replacement
        templates, split limits and replaceAll mixed in.
  b     generated (method, pattern AST, flags, subject, extra): match / replace / replaceAll / search / split
        with replacement templates from the GetSubstitution grammar, function replacers (arguments logged,
        generated return values) and limits; subjects built from several matching strings (adjacent or
        separated) so that global iteration, empty matches and adjacent matches are the normal case; an
        initial lastIndex is assigned in a third of the cases.

Oracle: oracles/reapi.py (RegExpBuiltinExec, @@match, @@replace + GetSubstitution, @@search, @@split,
replaceAll) over oracles/reref.py; typed comparison of every result and of lastIndex after every step.
"""
import collections
import json
import multiprocessing
import os
import random

from gens import patterns as PT
from oracles import prims as P
from oracles import reapi, reref
from vf import core, engine, pool

ID = "C20"

# Values are recorded as (typeof v, v) pairs: undefined and null both arrive in Python as None and a boolean
# must not pass for a number.  Arrays (exec / match / split results) are flattened by A(): the elements as
# pairs, then index and input.
PRELUDE = (
    "function A(v){var o=[];for(var i=0;i<v.length;i++){o.push(typeof v[i]);o.push(v[i]);}"
    "return [o,typeof v.index,v.index,typeof v.input,v.input];}\n"
    # S(v): record one step of a history - the result, then r.lastIndex (out and r are the script's globals)
    "function S(v){var t=typeof v;out.push(t);out.push(t==='object'&&v!==null?A(v):v);"
    "var l=r.lastIndex;out.push(typeof l);out.push(l);}\n"
)

PATTERNS_A = ["a", "a*", "(a)|b", "(?:)", "^a", "a$", "\\b", "(a)(b)?", ".", "(?=a)"]
FLAGSETS_A = ["", "g", "y", "gy", "gi", "gm"]
SUBJECTS_A = ["", "a", "aa", "ba", "aba", "b", "aab\na", "aA"]

U = ["U"]
NAN = ["n", "NaN"]


def tnum(x):
    return ["n", P.numkey(float(x))]


THROW = object()  # a function replacer that throws a TypeError instead of returning


def dec(t):
    """tagged value (reapi.enc shape) -> model value"""
    k = t[0]
    if k == "U":
        return P.UNDEF
    if k == "N":
        return None
    if k == "b":
        return bool(t[1])
    if k == "n":
        return float(t[1])
    if k == "s":
        return t[1]
    if k == "raw":
        return reapi.RawValue(t[1], t[2])
    if k == "throw":
        return THROW
    raise ValueError(t)


def js_val(t):
    if t[0] == "raw":
        return t[1]
    if t[0] == "throw":
        return "TH"
    return P.js_literal(dec(t))


def js_str(s):
    return P.js_string_literal(s)


def norm(t, v):
    """(typeof v, v) as recorded by a script and returned by eval -> the shape of reapi.enc"""
    if t == "undefined" and v is None:
        return ["U"]
    if t == "string" and isinstance(v, str):
        return ["s", v]
    if t == "number" and isinstance(v, (int, float)) and not isinstance(v, bool):
        return engine.tv(v)
    if t == "boolean" and isinstance(v, bool):
        return ["b", 1 if v else 0]
    if t == "object":
        if v is None:
            return ["N"]
        if isinstance(v, list) and len(v) == 5 and isinstance(v[0], list) and len(v[0]) % 2 == 0:
            o = v[0]
            return ["A", [norm(o[i], o[i + 1]) for i in range(0, len(o), 2)], norm(v[1], v[2]), norm(v[3], v[4])]
    if t == "T":
        return ["T", v]
    return ["bad", repr((t, v))[:80]]


def norm_pairs(flat):
    if not isinstance(flat, list) or len(flat) % 2:
        return [["bad", repr(flat)[:80]]]
    return [norm(flat[i], flat[i + 1]) for i in range(0, len(flat), 2)]


# ------------------------------------------------------------------------- scripts
def op_expr(op):
    k = op[0]
    if k in ("exec", "test"):
        if op[1] is None:
            return "r.%s()" % k  # no argument: the string "undefined"
        return "r.%s(s%d)" % (k, op[1])
    if k == "set":
        return "(r.lastIndex = %s)" % js_val(op[1])
    if k == "read":
        return "r.lastIndex"
    if k in ("match", "search"):
        return "s%d.%s(r)" % (op[1], k)
    if k in ("replace", "replaceAll"):
        return "s%d.%s(r, %s)" % (op[1], k, js_str(op[2]))
    if k == "split":
        if len(op) > 2:
            return "s%d.split(r, %s)" % (op[1], js_val(op[2]))
        return "s%d.split(r)" % op[1]
    raise KeyError(k)


def history_script(case, prelude=True):
    lines = [PRELUDE if prelude else "", "var out = []; var r = new RegExp(%s, %s);" % (js_str(case["pattern"]), js_str(case["flags"]))]
    for i, s in enumerate(case["subjects"]):
        lines.append("var s%d = %s;" % (i, js_str(s)))
    lines.append("try {")
    for op in case["ops"]:
        lines.append("S(%s);" % op_expr(op))
    lines.append("} catch (e) { out.push('T'); out.push(e && e.name); }")
    lines.append("out")
    return "\n".join(lines)


def method_script(case, prelude=True):
    lines = [PRELUDE if prelude else "", "var LOG = []; var K = 0;"]
    arg = case.get("arg")
    m = case["method"]
    if arg is None:
        call = "s.%s(r)" % m
    elif arg["t"] == "tmpl":
        call = "s.%s(r, %s)" % (m, js_str(arg["v"]))
    elif arg["t"] == "val":
        call = "s.%s(r, %s)" % (m, js_val(arg["v"]))
    elif arg["t"] == "fn":
        lines.append("var TH = {}; var RET = [%s];" % ", ".join(js_val(t) for t in arg["rets"]))
        # the replacer logs its arguments and what r.lastIndex is while it runs, then returns (or throws)
        lines.append(
            "function F(){var a=[];for(var i=0;i<arguments.length;i++){a.push(typeof arguments[i]);a.push(arguments[i]);}"
            "a.push(typeof r.lastIndex);a.push(r.lastIndex);"
            "LOG.push(a);var x=RET[K%RET.length];K++;if(x===TH)throw new TypeError('replacer');return x;}"
        )
        call = "s.%s(r, F)" % m
    else:
        raise KeyError(arg["t"])
    lines.append("var r = new RegExp(%s, %s); var s = %s; var out;" % (js_str(case["pattern"]), js_str(case["flags"]), js_str(case["subject"])))
    if case.get("init") is not None:
        lines.append("r.lastIndex = %s;" % js_val(case["init"]))
    lines.append("var v, t, l; try { v = %s; t = typeof v; l = r.lastIndex; "
                 "out = ['ok', t, t === 'object' && v !== null ? A(v) : v, typeof l, l, LOG]; } "
                 "catch (e) { l = r.lastIndex; out = ['T', 'T', e && e.name, typeof l, l, LOG]; }" % call)
    lines.append("out")
    return "\n".join(lines)


_shared = {"ctx": None, "uses": 0}


def shared_context():
    """A context that already holds E(): the campaigns evaluate one script per case in it (saves parsing the
    prelude 10^5 times).  Every script declares all its variables afresh; any mismatch seen in the shared
    context is re-judged in a fresh context before it is reported, and the context is renewed after it."""
    if _shared["ctx"] is None or _shared["uses"] >= 500:
        m = engine.load()
        ctx = m.Context(time_limit=TIME_LIMIT)
        ctx.eval(PRELUDE)
        _shared["ctx"] = ctx
        _shared["uses"] = 0
    _shared["uses"] += 1
    return _shared["ctx"]


def drop_shared_context():
    _shared["ctx"] = None


# Circuit breaker for engines whose built-ins no longer terminate (normal cases take ~1 ms): scripts that run into
# the time limit / CPU alarm are counted per task and, through a counter shared by the forked workers, per run;
# beyond the bounds the remaining cases are skipped and the run is marked truncated (the timeouts themselves are
# reported as violations).
_slow = {"n": 0}
MAX_SLOW_PER_TASK = 3
MAX_SLOW_PER_RUN = 24
_slow_run = multiprocessing.Value("i", 0)
TIME_LIMIT = 3  # seconds per script (Context time_limit, wall clock)
CPU_ALARM = 6  # seconds of CPU per script


def _note_slow():
    _slow["n"] += 1
    with _slow_run.get_lock():
        _slow_run.value += 1


def _give_up():
    return _slow["n"] > MAX_SLOW_PER_TASK or _slow_run.value > MAX_SLOW_PER_RUN


def run_script(src, ctx=None):
    """-> ("ok", value) | ("err", exc_info); in a fresh context unless one is given"""
    m = engine.load()
    try:
        with pool.cpu_alarm(CPU_ALARM):
            return ("ok", (ctx or m.Context(time_limit=TIME_LIMIT)).eval(src))
    except pool.HarnessTimeout:
        _note_slow()
        return ("err", {"cls": "HANG", "family": False, "message": "cpu alarm"})
    except Exception as e:
        if type(e).__name__ == "TimeLimitError":
            _note_slow()
        return ("err", engine.exc_info(e))


def _exc(info):
    return ["exception", info.get("cls"), (info.get("message") or "")[:80]]


# ------------------------------------------------------------------------- model side
def model_history(case):
    """-> (flat list [result, lastIndex] per step, nontrivial?)"""
    rx = reapi.Regex(case["pattern"], case["flags"])
    subs = case["subjects"]
    out = []
    nonzero = False
    nontrivial = False
    for op in case["ops"]:
        k = op[0]
        try:
            if k == "exec":
                nontrivial = nontrivial or nonzero
                v = rx.exec("undefined" if op[1] is None else subs[op[1]])
            elif k == "test":
                nontrivial = nontrivial or nonzero
                v = rx.test("undefined" if op[1] is None else subs[op[1]])
            elif k == "set":
                v = dec(op[1])
                rx.last_index = v
            elif k == "read":
                v = rx.last_index
            elif k in ("match", "search"):
                v = reapi.string_method(k, subs[op[1]], rx)
            elif k in ("replace", "replaceAll"):
                v = reapi.string_method(k, subs[op[1]], rx, op[2])
            elif k == "split":
                v = reapi.string_method(k, subs[op[1]], rx, dec(op[2]) if len(op) > 2 else P.UNDEF)
            else:
                raise KeyError(k)
        except reapi.JSThrow as e:
            out.append(["T", e.name])
            break
        out.append(reapi.enc(v))
        out.append(reapi.enc(rx.last_index))
        li = rx.last_index
        if not (isinstance(li, float) and li == 0):
            nonzero = True
    return out, nontrivial


def model_method(case):
    """-> expected script output, info dict (matches, empties)"""
    rx = reapi.Regex(case["pattern"], case["flags"])
    if case.get("init") is not None:
        rx.last_index = dec(case["init"])
    log = []
    arg = case.get("arg")
    args = []
    if arg is not None:
        if arg["t"] == "tmpl":
            args = [arg["v"]]
        elif arg["t"] == "val":
            args = [dec(arg["v"])]
        else:
            rets = [dec(t) for t in arg["rets"]]

            def fn(a):
                log.append([reapi.enc(x) for x in a] + [reapi.enc(rx.last_index)])
                ret = rets[(len(log) - 1) % len(rets)]
                if ret is THROW:
                    raise reapi.JSThrow("TypeError", "replacer")
                return ret

            args = [fn]
    try:
        v = reapi.string_method(case["method"], case["subject"], rx, *args)
    except reapi.JSThrow as e:
        return ["T", e.name, reapi.enc(rx.last_index), log]
    return ["ok", reapi.enc(v), reapi.enc(rx.last_index), log]


def all_matches(pattern, flags, subject):
    """(number of matches of a global iteration, number of empty ones)"""
    rx = reapi.Regex(pattern, "g" + "".join(c for c in flags if c in "imsy"))
    n = e = 0
    while n < 64:
        r = rx.exec(subject)
        if r is None:
            break
        n += 1
        if r[0] == "":
            e += 1
            rx.last_index = rx.last_index + 1.0
    return n, e


# ------------------------------------------------------------------------- judging
def _flagclass(flags):
    return "".join(c for c in "gy" if c in flags) or "-"


def _ktype(t):
    if t[0] == "n":
        v = float(t[1])
        if v != v:
            return "nan"
        if abs(v) == float("inf") or v != int(v):
            return "frac"
        return "neg" if v < 0 else "int"
    return {"s": "str", "U": "undef", "N": "null", "b": "bool"}.get(t[0], t[0])


def _diffkind(exp, act):
    if act and act[0] in ("bad", "?"):
        return "shape"
    if exp[0] != act[0]:
        return "%s->%s" % (exp[0], act[0])
    if exp[0] == "A":
        if len(exp[1]) != len(act[1]):
            return "array length"
        if exp[1] != act[1]:
            if any(e[0] != a[0] for e, a in zip(exp[1], act[1])):
                return "element type"
            return "elements"
        if exp[2] != act[2]:
            return "index"
        return "input"
    return "value"


def _leak(case, exp):
    return {"case": case, "expected": exp, "actual": "agrees in a fresh context, differed in a context used for earlier cases",
            "signature": "shared-context|result depends on earlier evaluations in the same context"}


def judge_history(case, fast=False):
    """-> (mismatch | None, nontrivial, out_of_scope); fast = try the shared context first"""
    try:
        exp, nontriv = model_history(case)
    except reref.OutOfScope:
        return None, False, True
    if fast:
        try:
            st, val = run_script(history_script(case, False), shared_context())
        except Exception:
            st, val = "err", None
        if st == "ok" and norm_pairs(val) == exp:
            return None, nontriv, False
        drop_shared_context()
    st, val = run_script(history_script(case))
    if st == "ok":
        act = norm_pairs(val)
        if act == exp:
            if fast:
                return _leak(case, exp), nontriv, False
            return None, nontriv, False
        i = 0
        while i < len(exp) and i < len(act) and exp[i] == act[i]:
            i += 1
        step = i // 2
        e = exp[i] if i < len(exp) else ["missing"]
        a = act[i] if i < len(act) else ["missing"]
        if a[0] == "T":
            part = "throw:%s" % a[1]
        elif e[0] == "T":
            part = "no-throw"
        else:
            part = ("result|" if i % 2 == 0 else "lastIndex|") + _diffkind(e, a)
    else:
        # a host exception (or JSError) escaped eval: find the step by re-running prefixes
        step = len(case["ops"]) - 1
        slow = val.get("cls") in ("HANG", "TimeLimitError")  # do not repeat seconds-long runs to locate the step
        for j in range(1, 1 if slow else len(case["ops"]) + 1):
            c2 = dict(case, ops=case["ops"][:j])
            st2, val2 = run_script(history_script(c2))
            if st2 != "ok":
                step = j - 1
                val = val2
                break
        e = exp[2 * step] if 2 * step < len(exp) else ["missing"]
        a = _exc(val)
        part = "exception:%s" % val.get("cls")
    step = min(step, len(case["ops"]) - 1)
    op = case["ops"][step]
    opname = op[0] + (":" + _ktype(op[1]) if op[0] == "set" else "()" if op[0] in ("exec", "test") and op[1] is None else "")
    prev_set = ""
    if part.startswith("exception") or op[0] in ("exec", "test"):
        # the kind of value lastIndex held when the step ran
        for q in range(step - 1, -1, -1):
            if case["ops"][q][0] == "set":
                prev_set = "after set:" + _ktype(case["ops"][q][1])
                break
            if case["ops"][q][0] != "read":
                break
    sig = "a|%s|%s|%s|%s" % (opname, _flagclass(case["flags"]), part, prev_set)
    mm = {"case": dict(case, ops=case["ops"][: step + 1]), "step": step, "expected": e, "actual": a, "signature": sig}
    return mm, nontriv, False


def _norm_method(val):
    if isinstance(val, list) and len(val) == 6 and val[0] in ("ok", "T") and isinstance(val[5], list):
        log = [norm_pairs(row) for row in val[5]]
        if val[0] == "ok":
            return ["ok", norm(val[1], val[2]), norm(val[3], val[4]), log]
        return ["T", val[2], norm(val[3], val[4]), log]
    return ["bad", repr(val)[:80]]


def judge_method(case, fast=False):
    """-> (mismatch | None, out_of_scope)"""
    try:
        exp = model_method(case)
    except reref.OutOfScope:
        return None, True
    if fast:
        try:
            st, val = run_script(method_script(case, False), shared_context())
        except Exception:
            st, val = "err", None
        if st == "ok" and _norm_method(val) == exp:
            return None, False
        drop_shared_context()
    st, val = run_script(method_script(case))
    fc = _flagclass(case["flags"])
    argk = (case.get("arg") or {}).get("t", "none")
    if st != "ok":
        sig = "b|%s|%s|%s|exception:%s" % (case["method"], fc, argk, val.get("cls"))
        return {"case": case, "expected": exp, "actual": _exc(val), "signature": sig}, False
    act = _norm_method(val)
    if act == exp:
        if fast:
            return _leak(case, exp), False
        return None, False
    if act[0] != exp[0]:
        part = "%s->%s%s" % (exp[0], act[0], ":" + str(act[1]) if act[0] == "T" else "")
    elif act[0] == "T":
        part = "throw name" if act[1] != exp[1] else ("lastIndex" if act[2] != exp[2] else "log")
    elif act[1] != exp[1]:
        part = "result|" + _diffkind(exp[1], act[1])
    elif act[3] != exp[3]:
        part = "replacer calls"
    else:
        part = "lastIndex|" + _diffkind(exp[2], act[2]) + ("|init" if case.get("init") is not None else "")
    sig = "b|%s|%s|%s|%s" % (case["method"], fc, argk, part)
    return {"case": case, "expected": exp, "actual": act, "signature": sig}, False


def matcher_agrees(pattern, flags, subject):
    """Engine's plain sticky attempt at every index against reref (diagnosis of (b) mismatches:
    a wrong *matcher* is C09's finding and is reported under its own signature)."""
    engine.load()
    from microjs.regex import RegExp

    f = "".join(c for c in flags if c in "ims")
    try:
        prog = reref.compile(pattern, f)
        for i in range(len(subject) + 1):
            R = RegExp(pattern, f + "y")
            R.lastIndex = i
            with pool.cpu_alarm(5):
                m = R.exec(subject)
            e = prog.match_at(subject, i)
            if (m is None) != (e is None):
                return False
            if m is not None:
                got = (m.index, m[0], [m[k] for k in range(1, len(m))])
                if got != (e[0], subject[e[0] : e[1]], e[2]):
                    return False
    except pool.HarnessTimeout:
        return False
    except Exception:
        return False
    return True


# ------------------------------------------------------------------------- shrinking
def _same_failure(judge, case, sig):
    r = judge(case)
    mm = r[0]
    return mm if (mm is not None and mm["signature"] == sig) else None


def shrink_history(mm):
    case = mm["case"]
    sig = mm["signature"]
    ops = list(case["ops"])
    i = len(ops) - 2
    budget = 12
    while i >= 0 and budget > 0:
        cand = dict(case, ops=ops[:i] + ops[i + 1 :])
        budget -= 1
        r = _same_failure(judge_history, cand, sig)
        if r is not None and len(r["case"]["ops"]) == len(cand["ops"]):
            ops = cand["ops"]
            mm = r
            case = r["case"]
        i -= 1
    return mm


def shrink_method(mm):
    sig = mm["signature"]
    case = mm["case"]
    budget = [40]

    def attempt(cand):
        if budget[0] <= 0:
            return None
        budget[0] -= 1
        try:
            return _same_failure(judge_method, cand, sig)
        except Exception:
            return None

    if case.get("init") is not None:
        r = attempt(dict(case, init=None))
        if r:
            mm, case = r, r["case"]
    # smaller pattern
    try:
        ast = PT.parse(case["pattern"])
        progress = True
        while progress and budget[0] > 0:
            progress = False
            for cand_ast in PT.shrink_candidates(ast)[:8]:
                r = attempt(dict(case, pattern=PT.to_source(cand_ast)))
                if r:
                    mm, case, ast = r, r["case"], cand_ast
                    progress = True
                    break
    except Exception:
        pass
    # shorter subject
    s = case["subject"]
    i = 0
    while i < len(s) and budget[0] > 0:
        r = attempt(dict(case, subject=s[:i] + s[i + 1 :]))
        if r:
            mm, case = r, r["case"]
            s = case["subject"]
        else:
            i += 1
    arg = case.get("arg")
    if arg and arg["t"] == "tmpl":
        t = arg["v"]
        i = 0
        while i < len(t) and budget[0] > 0:
            r = attempt(dict(case, arg={"t": "tmpl", "v": t[:i] + t[i + 1 :]}))
            if r:
                mm, case = r, r["case"]
                t = case["arg"]["v"]
            else:
                i += 1
    return mm


# ------------------------------------------------------------------------- generators
def k_values(length):
    ks = [tnum(0), tnum(1), tnum(2), tnum(length), tnum(length + 1), tnum(-1), tnum(1.5), ["s", "1"], NAN, U]
    out = []
    for k in ks:
        if k not in out:
            out.append(k)
    return out


def ops_for(length):
    return (
        [["exec", 0], ["test", 0]]
        + [["set", k] for k in k_values(length)]
        + [["read"], ["match", 0], ["replace", 0, "x"], ["search", 0], ["split", 0]]
    )


def history_from_index(ops, n, h):
    b = len(ops)
    out = []
    for _ in range(n):
        out.append(ops[h % b])
        h //= b
    return out[::-1]


TEMPLATES_SMALL = ["x", "", "[$&]", "$1", "$$", "$`|$'", "$2$1", "$0", "$10", "$01", "$"]
LIMITS = [U, tnum(0), tnum(1), tnum(2), tnum(3), tnum(-1), tnum(2 ** 32), tnum(2 ** 32 + 1), NAN, ["s", "2"], tnum(1.5), ["N"]]
K_EXTRA = [tnum(3), tnum(-0.0), ["s", ""], ["s", "x"], ["N"], ["b", 1], tnum(2 ** 53), tnum(float("inf")), tnum(0.5), ["s", " 2 "]]

SPECIAL_B = [
    "(?:)", "a*", "a?", "\\b", "^", "$", "(a)|", "(a*)(b)?", "a*?", "(?=a)", "(?!a)", "(a)|(b)", "[ab]", "(.)",
    "(.)(.)(.)(.)(.)(.)(.)(.)(.)(.)", "(.)(.)(.)(.)(.)(.)(.)(.)(.)(.)(.)?", "(a)(b)?(c)(d)?(e)(f)(g)(h)(i)(j)(k)(l)",
    "((a)|(b))+", "x*", "(?<=a)", "\\B", "(a)?b", "a|ab", "(?:a|b)+?", ".", "\\s*", "\\w+", "\\d", "a", "b+", "(a)(b)?",
    "^a", "a$", "(^)|(b)", "\\n", "(?:a(b)?)+", "[^x]", "(a)\\1",
]
FLAGS_B = ["", "g", "g", "g", "y", "gy", "gi", "gm", "i", "m", "s", "gs", "giy", "gim", "my", "iy", "g", "gy"]
TMPL_PIECES = (
    ["x", "-", "ab", "0", "1", " ", "<", ">", "$$", "$&", "$`", "$'", "$", "$<", "$<a>", "$x", "$ ", "$$$", "$&$&"]
    + ["$%d" % i for i in range(0, 10)]
    + ["$%02d" % i for i in (0, 1, 2, 3, 9, 10, 11, 12, 13, 20, 99)]
    + ["$10", "$11", "$12", "$100", "$011", "$1$", "$$1", "$$&"]
)
FN_RETS = [
    ["s", "x"], ["s", ""], ["s", "$&"], ["s", "$1"], ["s", "[r]"], tnum(1), tnum(1.5), tnum(-0.0), NAN, U, ["N"], ["b", 1], ["b", 0],
    tnum(1e21), ["raw", "[1,2]", "1,2"], ["raw", "({})", "[object Object]"], ["raw", "[]", ""], ["s", "$$"], tnum(-7), ["throw"],
]
METHODS_B = ["replace"] * 7 + ["split"] * 4 + ["match"] * 4 + ["replaceAll"] * 2 + ["search"] * 3


def gen_pattern(rnd):
    if rnd.random() < 0.3:
        return rnd.choice(SPECIAL_B)
    ast = PT.random_ast(rnd, rnd.choice([1, 2, 2, 3]))
    return PT.to_source(ast)


def gen_subject(rnd, pattern, flags, maxlen=14):
    ast = PT.parse(pattern)
    r = rnd.random()
    if r < 0.08:
        return "".join(rnd.choice(PT.RANDOM_ALPHABET) for _ in range(rnd.randint(0, 6)))
    parts = []
    k = rnd.choice([1, 2, 2, 3, 3, 4])
    adjacent = rnd.random() < 0.5
    for i in range(k):
        m = PT.matching_string(ast, flags, rnd)
        if i and not adjacent:
            parts.append("".join(rnd.choice(PT.RANDOM_ALPHABET) for _ in range(rnd.randint(1, 2))))
        parts.append(m)
    s = "".join(parts)
    r2 = rnd.random()
    if r2 < 0.2:
        s = rnd.choice(PT.RANDOM_ALPHABET) + s
    elif r2 < 0.4:
        s = s + rnd.choice(PT.RANDOM_ALPHABET)
    if rnd.random() < 0.3:
        s = PT.edit(s, rnd, n_edits=1)
    return s[:maxlen]


def gen_template(rnd):
    n = rnd.choice([1, 1, 2, 2, 3, 4, 5])
    t = "".join(rnd.choice(TMPL_PIECES) for _ in range(n))
    if rnd.random() < 0.1:
        t += "$"
    return t


def count_dollar_forms(t):
    n = 0
    i = 0
    while i < len(t):
        if t[i] == "$" and i + 1 < len(t) and t[i + 1] in "$&`'0123456789<":
            n += 1
            i += 2
        else:
            i += 1
    return n


def gen_init(rnd, subject):
    if rnd.random() < 0.67:
        return None
    L = len(subject)
    return rnd.choice([tnum(1), tnum(2), tnum(L), tnum(L + 1), ["s", "1"], tnum(1.5), tnum(-1), NAN, U, tnum(L - 1 if L else 3)])


def gen_method_case(rnd):
    method = rnd.choice(METHODS_B)
    pattern = gen_pattern(rnd)
    flags = rnd.choice(FLAGS_B)
    if method == "replaceAll" and rnd.random() < 0.8 and "g" not in flags:
        flags = "g" + flags
    subject = gen_subject(rnd, pattern, flags)
    case = {"kind": "method", "method": method, "pattern": pattern, "flags": flags, "subject": subject, "init": gen_init(rnd, subject)}
    if method in ("replace", "replaceAll"):
        r = rnd.random()
        if r < 0.6:
            case["arg"] = {"t": "tmpl", "v": gen_template(rnd)}
        elif r < 0.9:
            case["arg"] = {"t": "fn", "rets": [rnd.choice(FN_RETS) for _ in range(rnd.randint(1, 3))]}
        elif r < 0.97:
            case["arg"] = {"t": "val", "v": rnd.choice([U, ["N"], tnum(1), tnum(1.5), ["b", 1], NAN])}
        else:
            case["arg"] = None
    elif method == "split":
        case["arg"] = None if rnd.random() < 0.4 else {"t": "val", "v": rnd.choice(LIMITS)}
    else:
        case["arg"] = None
    return case


def gen_history_case(rnd):
    pattern = rnd.choice(PATTERNS_A) if rnd.random() < 0.6 else rnd.choice(SPECIAL_B)
    flags = rnd.choice(FLAGSETS_A + ["giy", "gs", "my"])
    if rnd.random() < 0.7:
        subs = [rnd.choice(SUBJECTS_A), rnd.choice(SUBJECTS_A)]
    else:
        subs = [gen_subject(rnd, pattern, flags, 8), rnd.choice(SUBJECTS_A)]
    n = rnd.randint(4, 10)
    ops = []
    for _ in range(n):
        si = rnd.randint(0, 1)
        r = rnd.random()
        if r < 0.28:
            ops.append(["exec", si if rnd.random() < 0.97 else None])
        elif r < 0.45:
            ops.append(["test", si if rnd.random() < 0.97 else None])
        elif r < 0.70:
            ks = k_values(len(subs[si])) + (K_EXTRA if rnd.random() < 0.3 else [])
            ops.append(["set", rnd.choice(ks)])
        elif r < 0.74:
            ops.append(["read"])
        elif r < 0.80:
            ops.append(["match", si])
        elif r < 0.87:
            ops.append(["replace", si, rnd.choice(TEMPLATES_SMALL)])
        elif r < 0.90:
            ops.append(["replaceAll", si, rnd.choice(TEMPLATES_SMALL)])
        elif r < 0.95:
            ops.append(["search", si])
        else:
            ops.append(["split", si] if rnd.random() < 0.6 else ["split", si, rnd.choice(LIMITS)])
    return {"kind": "hist", "pattern": pattern, "flags": flags, "subjects": subs, "ops": ops}


# ------------------------------------------------------------------------- workers
MAX_SHRINKS_PER_TASK = 4
MAX_MISMATCHES_PER_TASK = 60


def _new_result():
    _slow["n"] = 0
    return {"n": 0, "steps": 0, "nontrivial": 0, "keys": [], "classes": collections.Counter(), "mismatches": [],
            "samples": [], "oos": 0, "dropped": 0}


def _hist_classes(res, case):
    fc = _flagclass(case["flags"])
    for op in case["ops"]:
        res["classes"]["a:%s %s" % (op[0], fc)] += 1


def _record_history(res, case, keyed):
    if _give_up():
        res["aborted"] = res.get("aborted", 0) + 1
        return
    mm, nontriv, oos = judge_history(case, True)
    if oos:
        res["oos"] += 1
        return
    res["n"] += 1
    res["steps"] += len(case["ops"])
    _hist_classes(res, case)
    if nontriv:
        if keyed:
            res["keys"].append(core.h16(case))
        else:
            res["nontrivial"] += 1
    if mm is not None:
        if len(res["mismatches"]) < MAX_MISMATCHES_PER_TASK:
            if sum(1 for x in res["mismatches"] if x.get("shrunk")) < MAX_SHRINKS_PER_TASK and not any(
                x["signature"] == mm["signature"] for x in res["mismatches"]
            ):
                if "HANG" not in mm["signature"] and "TimeLimitError" not in mm["signature"]:
                    mm = shrink_history(mm)
                mm["shrunk"] = True
            res["mismatches"].append(mm)
        else:
            res["dropped"] += 1
    elif nontriv and len(res["samples"]) < 2:
        exp, _ = model_history(case)
        res["samples"].append({"case": case, "expected": exp, "actual": exp})


def ops_reduced(length):
    """the alphabet of the long (length 5-6) histories: exec, test, three assignments, two string methods"""
    return [["exec", 0], ["test", 0], ["set", tnum(1)], ["set", tnum(length)], ["set", ["s", "1"]], ["match", 0], ["search", 0]]


def task_exhaustive(task):
    """(pattern, flags, subject, n, count or None (= all), selection seed)"""
    pattern, flags, subject, n, count, sel = task
    ops = ops_for(len(subject)) if n <= 4 else ops_reduced(len(subject))
    total = len(ops) ** n
    if count is None or count >= total:
        idxs = range(total)
    else:
        idxs = sorted(random.Random(sel).sample(range(total), count))
    res = _new_result()
    for h in idxs:
        case = {"kind": "hist", "pattern": pattern, "flags": flags, "subjects": [subject], "ops": history_from_index(ops, n, h)}
        _record_history(res, case, False)
    return res


def task_hist_cases(cases):
    res = _new_result()
    for case in cases:
        _record_history(res, case, True)
    return res


def task_hist_seeded(task):
    seed, n = task
    rnd = random.Random(seed)
    return task_hist_cases([gen_history_case(rnd) for _ in range(n)])


def _record_method(res, case):
    if _give_up():
        res["aborted"] = res.get("aborted", 0) + 1
        return
    mm, oos = judge_method(case, True)
    if oos:
        res["oos"] += 1
        return
    res["n"] += 1
    fc = _flagclass(case["flags"])
    argk = (case.get("arg") or {}).get("t", "none")
    res["classes"]["b:%s %s %s" % (case["method"], fc, argk)] += 1
    try:
        nm, ne = all_matches(case["pattern"], case["flags"], case["subject"])
    except reref.OutOfScope:
        nm = ne = 0
    forms = count_dollar_forms(case["arg"]["v"]) if argk == "tmpl" else 0
    res["classes"]["b:matches %s" % ("0" if nm == 0 else "1" if nm == 1 else "2+")] += 1
    if ne:
        res["classes"]["b:has empty match"] += 1
    if case.get("init") is not None:
        res["classes"]["b:initial lastIndex"] += 1
    nontriv = nm >= 2 or ne >= 1 or forms >= 2
    if nontriv:
        res["keys"].append(core.h16(case))
    if mm is not None:
        if not matcher_agrees(case["pattern"], case["flags"], case["subject"]):
            mm["signature"] = "b|matcher-disagrees-with-reref"
        if len(res["mismatches"]) < MAX_MISMATCHES_PER_TASK:
            if sum(1 for x in res["mismatches"] if x.get("shrunk")) < MAX_SHRINKS_PER_TASK and not any(
                x["signature"] == mm["signature"] for x in res["mismatches"]
            ) and not mm["signature"].startswith("b|matcher"):
                if "HANG" not in mm["signature"] and "TimeLimitError" not in mm["signature"]:
                    mm = shrink_method(mm)
                mm["shrunk"] = True
            res["mismatches"].append(mm)
        else:
            res["dropped"] += 1
    elif nontriv and len(res["samples"]) < 2:
        exp = model_method(case)
        res["samples"].append({"case": case, "expected": exp, "actual": exp})


def task_method_cases(cases):
    res = _new_result()
    for case in cases:
        _record_method(res, case)
    return res


def task_method_seeded(task):
    seed, n = task
    rnd = random.Random(seed)
    return task_method_cases([gen_method_case(rnd) for _ in range(n)])


def task_precheck(pattern):
    """-> list of (flags, subject, expected, actual) where the plain single match differs"""
    engine.load()
    from microjs.regex import RegExp

    bad = []
    n = 0
    for f in ["", "i", "m"]:
        for s in SUBJECTS_A:
            n += 1
            e = reref.search(pattern, f, s, 0)
            exp = None if e is None else [e[0], s[e[0] : e[1]], e[2]]
            try:
                with pool.cpu_alarm(5):
                    m = RegExp(pattern, f).exec(s)
                act = None if m is None else [m.index, m[0], [m[k] for k in range(1, len(m))]]
            except pool.HarnessTimeout:
                act = ["exception", "HANG", ""]
            except Exception as ex:
                act = ["exception", type(ex).__name__, str(ex)[:80]]
            if act != exp:
                bad.append([f, s, exp, act])
    return n, bad


# ------------------------------------------------------------------------- the check
class _CountingSet(set):
    """distinct_nontrivial of the enumerated campaign is a count: its histories are distinct by construction
    (distinct (pattern, flags, subject, op sequence)); the random campaigns use real keys."""

    extra = 0

    def __len__(self):
        return set.__len__(self) + self.extra


def _merge(chk, results, tasks, sub, counts_steps):
    for task, r in zip(tasks, results):
        if isinstance(r, (pool.HANG, pool.CRASH)) or r is None:
            chk.violation("%s|worker %r" % (sub, r), {"task": repr(task)[:300]}, None, repr(r), sub=sub)
            continue
        chk.count(r["steps"] if counts_steps else r["n"])
        chk.extra[sub + "_cases"] = chk.extra.get(sub + "_cases", 0) + r["n"]
        chk._nontrivial.extra += r["nontrivial"]
        chk.nontrivial_many(r["keys"])
        for k, v in r["classes"].items():
            chk.classify(k, v)
        chk.extra["reference_out_of_scope"] = chk.extra.get("reference_out_of_scope", 0) + r["oos"]
        if r.get("aborted"):
            chk.truncated = True
            chk.extra["cases_skipped_after_timeouts"] = chk.extra.get("cases_skipped_after_timeouts", 0) + r["aborted"]
        for s in r["samples"]:
            chk.sample(s, cls=sub, per_class=4)
        for mm in r["mismatches"]:
            chk.violation(mm["signature"], mm["case"], mm["expected"], mm["actual"], sub=sub)
        if r["dropped"]:
            chk.violation_count += r["dropped"]


def _hypothesis_cases(chk, part, gen, n):
    import hypothesis
    from hypothesis import HealthCheck, settings
    from hypothesis import strategies as st

    cases = []
    if n <= 0:
        return cases

    @hypothesis.seed(core.shard_seed(chk.seed, ID, part))
    @settings(max_examples=n, database=None, deadline=None, derandomize=False,
              suppress_health_check=[HealthCheck.too_slow, HealthCheck.data_too_large],
              phases=[hypothesis.Phase.generate])
    @hypothesis.given(st.randoms(use_true_random=False))
    def collect(rnd):
        cases.append(gen(rnd))

    collect()
    return cases


def main(chk):
    chk.rule = (
        "(a) a history is non-trivial when lastIndex holds something other than +0 after some step and a later "
        "exec/test runs (it must be honoured by g/y regexes and ignored and preserved by the others); distinct by "
        "(pattern, flags, subjects, op sequence). (b) a method case is non-trivial when a global iteration over the "
        "subject finds >= 2 matches or >= 1 empty match, or the replacement template has >= 2 $-forms; distinct by case"
    )
    chk.assumptions = [
        "oracles/reapi.py transcribes RegExpBuiltinExec, @@match, @@replace + GetSubstitution, @@search, @@split and replaceAll "
        "(validated against node 20 on the same generators: oracle_validation/reapi.json)",
        "oracles/reref.py is the matcher (validated for C09); patterns of campaign (a) are re-verified against it at the start of every run",
        "no subclassed RegExp, no Symbol.* overrides, no named groups, no unicode mode (not in the engine)",
        "evaluations = steps of campaign (a)/(ar) (each step compares a result and lastIndex) + cases of (b)",
    ]
    chk._nontrivial = _CountingSet()
    thorough = chk.tier == "thorough"
    for path, rec in core.saved_replays(ID):
        r = replay(rec)
        chk.count()
        if r["fails"]:
            chk.violation("saved-replay|" + os.path.basename(path), rec.get("case"), r["expected"], r["actual"], sub="replay")

    # ---- pre: the patterns of (a) must match like reref without any state involved
    pre = pool.run(task_precheck, PATTERNS_A, timeout=120)
    patterns = []
    dropped = {}
    for p, r in zip(PATTERNS_A, pre):
        if isinstance(r, (pool.HANG, pool.CRASH)) or r is None:
            dropped[p] = repr(r)
            continue
        chk.count(r[0])
        if r[1]:
            dropped[p] = r[1][:3]
        else:
            patterns.append(p)
    chk.extra["patterns_a"] = patterns
    chk.extra["patterns_dropped"] = dropped
    for p in dropped:
        chk.excluded["pattern of (a) whose plain single match differs from reref (C09)"] += 1
    if len(patterns) * 2 < len(PATTERNS_A):
        chk.violation("pre|most patterns of campaign (a) do not match like the reference", {"dropped": dropped}, None, None, sub="pre")

    parts = (os.environ.get("VERIF_C20_PARTS") or "a,ar,b").split(",")  # development aid
    chk.extra["parts"] = parts

    # ---- a: exhaustive histories
    tasks = []
    for p in patterns if "a" in parts else []:
        for f in FLAGSETS_A:
            for s in SUBJECTS_A:
                total3 = len(ops_for(len(s))) ** 3
                sel = core.shard_seed(chk.seed, ID, "a3", p, f, s)
                tasks.append((p, f, s, 3, None if thorough else total3 // 20, sel))
                if thorough:
                    total4 = len(ops_for(len(s))) ** 4
                    tasks.append((p, f, s, 4, total4 // 100, core.shard_seed(chk.seed, ID, "a4", p, f, s)))
                    for n in (5, 6):  # reduced alphabet
                        tasks.append((p, f, s, n, 400, core.shard_seed(chk.seed, ID, "a%d" % n, p, f, s)))
    res = pool.run(task_exhaustive, tasks, timeout=1800)
    _merge(chk, res, tasks, "a", True)

    # ---- ar: random histories
    n_h = 1500 if not thorough else 15000
    n_s = 16000 if not thorough else 200000
    if "ar" not in parts:
        n_h = n_s = 0
    cases = _hypothesis_cases(chk, "ar", gen_history_case, n_h)
    batches = pool.chunks(cases, 100)
    res = pool.run(task_hist_cases, batches, timeout=600)
    _merge(chk, res, batches, "ar", True)
    stasks = [(core.shard_seed(chk.seed, ID, "ar-seeded", i), 250) for i in range(n_s // 250)]
    res = pool.run(task_hist_seeded, stasks, timeout=600)
    _merge(chk, res, stasks, "ar", True)

    # ---- b: generated method cases
    n_h = 2000 if not thorough else 20000
    n_s = 28000 if not thorough else 580000
    if "b" not in parts:
        n_h = n_s = 0
    cases = _hypothesis_cases(chk, "b", gen_method_case, n_h)
    batches = pool.chunks(cases, 100)
    res = pool.run(task_method_cases, batches, timeout=600)
    _merge(chk, res, batches, "b", False)
    stasks = [(core.shard_seed(chk.seed, ID, "b-seeded", i), 250) for i in range(n_s // 250)]
    res = pool.run(task_method_seeded, stasks, timeout=600)
    _merge(chk, res, stasks, "b", False)
    chk.exhaustive = False


def replay(rec):
    case = rec["case"]
    if case.get("kind") == "method":
        mm, oos = judge_method(case)
    else:
        mm, _, oos = judge_history(case)
    if oos:
        return {"fails": False, "expected": "reference out of scope", "actual": None}
    if mm is None:
        if case.get("kind") == "method":
            exp = model_method(case)
        else:
            exp = model_history(case)[0]
        return {"fails": False, "expected": exp, "actual": exp}
    return {"fails": True, "expected": mm["expected"], "actual": mm["actual"], "signature": mm["signature"]}
