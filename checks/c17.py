"""C17 - Array and typed-array methods compute, mutate and alias as specified.

Three campaigns (DESIGN.md, section C17):
 (a) grid      exhaustive method grid: every implemented Array.prototype method
               (discovered with `typeof [][name] === 'function'`) x small dense
               receivers x adversarial argument grid x callback pool; observed:
               typed result incl. identities, receiver afterwards, callback log
               (value, index, array-is-receiver, this), thrown error class.
 (b) hist      Hypothesis RuleBasedStateMachine histories of mutating calls,
               index / length assignment (documented stricter-mode rules of
               /repo/spec.md) and sort on aliased arrays; every variable is
               compared with the reference list after every step.
 (c) typed     nine typed-array kinds x numeric boundary values x access forms,
               constructor / subarray / set geometry, and random write/read
               sequences through several views over one ArrayBuffer.

Oracles: oracles/arrref.py, oracles/typedref.py (validated against node at
development time: oracle_validation/arrref.json, typedref.json).
"""
import collections
import hashlib
import itertools
import json
import math
import os
import random

from gens import arrays as G
from gens import values as V
from oracles import arrref as R
from oracles import prims as P
from oracles import typedref as T
from vf import core, engine, pool

UNDEF = P.UNDEF
ID = "C17"


def num(x):
    return ["n", P.numkey(float(x))]


def sstr(x):
    return ["s", x]


U, L, TRUE = ["u"], ["l"], ["b", 1]
NAN, PINF, NINF = num(math.nan), num(math.inf), num(-math.inf)

# --------------------------------------------------------------------- guards
# A guard is switched on only while the repro of its known finding still fails
# (DESIGN 2.7).  cb.throws: a throw inside a callback run by a built-in is not
# propagated through the native loop (owned by C07).  conv.object.str/.num:
# ToString / ToNumber of plain objects and arrays ignores toString or raises a
# host TypeError (owned by C04/C06/C08).
GUARD_FINDING = {}


def active_guards(chk):
    act = set()
    for name, e in sorted(chk.guards.items()):
        rp = e.get("repro")
        fails = True
        if rp:
            try:
                rec = core.load_json(os.path.join(core.ROOT, rp))
                fails = bool(replay(rec)["fails"])
            except FileNotFoundError:
                fails = True
        if fails:
            act.add(name)
            GUARD_FINDING[name] = e["id"]
            chk.known_hit(e["id"], 1)
    return act


def run_eval(src, time_limit=10, alarm=30, ctx=None):
    """-> ('ok', python value) | ('exc', [class, message])."""
    m = engine.load()
    try:
        with pool.cpu_alarm(alarm):
            if ctx is None:
                ctx = m.Context(time_limit=time_limit)
            return ("ok", ctx.eval(src))
    except pool.HarnessTimeout:
        return ("exc", ["HANG", ""])
    except Exception as e:
        info = engine.exc_info(e)
        if info["family"]:
            return ("exc", ["JSError", "%s: %s" % (info["name"], (info["message"] or "")[:80])])
        return ("exc", [info["cls"], (info["message"] or "")[:80]])


def h64(s):
    return int.from_bytes(hashlib.sha256(s.encode()).digest()[:8], "big")


# ====================================================================== (a)
E8 = [num(1), num(2), sstr("a"), U, L, NAN, num(-0.0), ["n9"]]
ADV_IDX = [
    U, L, NAN, PINF, NINF, num(-1), num(0), num(-0.0), num(1), num(2), num(0.5), num(1.9), num(-1.9),
    num(2 ** 31), num(2 ** 32), num(2 ** 53), num(1e21), sstr("1"), sstr("x"), sstr(""), TRUE, ["obj"],
    ["arr", []], ["arr", [num(1)]], ["arr", [num(1), num(2)]], ["fn"], ["vo", num(1)], ["ts", sstr("2")],
]
ITER_METHODS = ["find", "findIndex", "findLast", "findLastIndex", "forEach", "map", "filter", "some", "every", "flatMap"]
ITER_CBS = [n for n, c in G.CALLBACKS.items() if c[0] == "iter"]
RED_CBS = [n for n, c in G.CALLBACKS.items() if c[0] == "red"]
CMP_CBS = [n for n, c in G.CALLBACKS.items() if c[0] == "cmp"]
NUM_CONV_GUARDED = ("obj", "arr", "ts", "n9", "self", "T")
STR_CONV_GUARDED = ("obj", "arr", "ts", "vo", "n9", "self", "T")


def _dedupe(vectors):
    seen, out = set(), []
    for v in vectors:
        k = ",".join(G.spec_key(x) for x in v)
        if k not in seen:
            seen.add(k)
            out.append(v)
    return out


def idx_full(n):
    return ADV_IDX + [num(n - 1), num(n), num(n + 1), num(-n), num(-n - 1)]


def idx_small(n):
    return [U, num(-1), num(0), num(1), num(n), num(-n - 1), NAN, PINF, NINF, num(1.9), ["vo", num(1)]]


def arg_vectors(m, recv):
    """Argument vectors of method m for this receiver; each vector is a list
    of specs, tagged with the positions that undergo a number / string
    conversion: [(vector, numpos, strpos)]."""
    n = len(recv)
    out = []

    def add(vs, numpos=(), strpos=()):
        for v in vs:
            out.append((v, numpos, strpos))

    elems = E8 + [sstr("1"), TRUE, ["arr", [num(9)]], ["obj"]]
    if m in ("push", "unshift"):
        add([[]] + [[e] for e in elems] + [[num(1), sstr("b")], [["n9"], ["n9"]], [["arr", [num(7)]], U, L]])
    elif m in ("pop", "shift", "reverse", "toString", "toReversed"):
        add([[], [num(1)]])
    elif m == "join":
        add([[]] + [[s] for s in [U, L, sstr(""), sstr("-"), num(1), NAN, num(-0.0), TRUE, ["ts", sstr("2")], ["arr", [num(1), num(2)]], ["obj"], ["vo", num(1)]]], strpos=(0,))
    elif m == "concat":
        add([[]] + [[e] for e in E8] + [
            [["arr", [num(1), num(2)]]], [["arr", []]], [["self"]], [["self"], ["self"]], [["arr", [["arr", [num(1)]]]]],
            [["arr", [num(1)]], num(2), ["arr", [num(3), ["arr", [num(4)]]]]], [["obj"]], [["fn"]], [["arr", [U, L]], U],
        ])
    elif m in ("slice",):
        add([[]] + [[s] for s in idx_full(n)] + [[s, e] for s in idx_small(n) for e in idx_small(n)], numpos=(0, 1))
    elif m in ("splice", "toSpliced"):
        cnt = [U, num(-1), num(0), num(1), num(n), num(n + 1), NAN, PINF, num(1.9), sstr("1")]
        add([[]] + [[s] for s in idx_full(n)] + [[s, d] for s in idx_small(n) for d in cnt], numpos=(0, 1))
        add([[s, d] + items for s in [num(0), num(1), num(-1), num(n), PINF] for d in [num(0), num(1), num(n + 1)]
             for items in ([sstr("i")], [["n9"], U])], numpos=(0, 1))
    elif m in ("indexOf", "lastIndexOf", "includes"):
        search = E8 + [sstr("1"), TRUE, ["arr", [num(9)]], num(0), sstr("2")]
        frm = [U, num(-1), num(0), num(1), num(n - 1), num(n), num(-n), num(-n - 1), NAN, PINF, NINF, num(1.9), num(-0.5), sstr("1"), ["vo", num(1)]]
        add([[]] + [[x] for x in search] + [[x, f] for x in search for f in frm], numpos=(1,))
    elif m in ITER_METHODS:
        vs = []
        for cb in ITER_CBS:
            vs.append([["cb", cb]])
            vs.append([["cb", cb], ["T"]])
        vs += [[["cb", "ident"], U], [["cb", "ident"], num(5)], [["cb", "ident"], L], [["cb", "gt1"], sstr("s")]]
        vs += [[], [U], [L], [num(3)], [sstr("x")], [["obj"]], [["arr", []], ["T"]]]
        add(vs)
    elif m in ("reduce", "reduceRight"):
        vs = []
        for cb in RED_CBS:
            vs += [[["cb", cb]], [["cb", cb], U], [["cb", cb], num(0)], [["cb", cb], sstr("s")]]
        vs += [[], [U], [num(3), num(0)], [["obj"]], [L, num(1)]]
        add(vs)
    elif m in ("sort", "toSorted"):
        prim_only = all(G.is_pspec(s) for s in recv)
        vs = [[], [U]] + [[["cb", cb]] for cb in CMP_CBS if cb != "csub" or prim_only]
        vs += [[L], [num(3)], [sstr("x")], [["obj"]]]
        add(vs)
    elif m == "at":
        add([[]] + [[s] for s in idx_full(n)], numpos=(0,))
    elif m == "fill":
        add([[], [num(7)], [["n9"]]] + [[sstr("f"), s] for s in idx_full(n)] + [[sstr("f"), s, e] for s in idx_small(n) for e in idx_small(n)], numpos=(1, 2))
    elif m == "copyWithin":
        sm = [U, num(-1), num(0), num(1), num(n), NAN, PINF]
        add([[]] + [[s] for s in idx_full(n)] + [[t, s, e] for t in sm for s in sm for e in sm], numpos=(0, 1, 2))
    elif m == "flat":
        add([[], [U], [num(0)], [num(1)], [num(2)], [PINF], [num(-1)], [NAN], [sstr("1")]], numpos=(0,))
    elif m == "with":
        add([[]] + [[s, sstr("w")] for s in idx_full(n)], numpos=(0,))
    else:
        return None
    return out


def receivers(seed, nlong=60):
    recs = []
    for n in range(0, 4):
        for t in itertools.product(E8, repeat=n):
            recs.append(list(t))
    rnd = random.Random(core.shard_seed(seed, ID, "recv"))
    for _ in range(nlong):
        n = rnd.randint(4, 6)
        recs.append([rnd.choice(E8) for _ in range(n)])
    return recs


def sort_receivers(seed):
    """Receivers of identity-tagged records with equal keys (stability)."""
    rnd = random.Random(core.shard_seed(seed, ID, "sortrecv"))
    out = []
    for j in range(40):
        n = rnd.randint(2, 14)
        items = []
        for i in range(n):
            r = rnd.random()
            if r < 0.75:
                items.append(["rec", rnd.randint(0, 3), i])
            elif r < 0.85:
                items.append(U)
            else:
                items.append(rnd.choice([num(1), num(2), sstr("a"), L, NAN]))
        out.append(items)
    return out


def vector_guard(v, numpos, strpos, guards):
    if "cb.throws" in guards:
        for s in v:
            if s[0] == "cb" and G.CALLBACKS[s[1]][3]:
                return "cb.throws"
    if "conv.object.num" in guards:
        for p in numpos:
            if p < len(v) and v[p][0] in NUM_CONV_GUARDED:
                return "conv.object.num"
    if "conv.object.str" in guards:
        for p in strpos:
            if p < len(v) and v[p][0] in STR_CONV_GUARDED:
                return "conv.object.str"
    return None


def case_guard(case, guards):
    """Guards that depend on the receiver as well (ToString of object
    elements in join / toString / default sort)."""
    if "conv.object.str" in guards and case["m"] in ("join", "toString", "sort", "toSorted"):
        if case["m"] in ("sort", "toSorted") and case["args"] and case["args"][0] != U:
            return None
        if any(not G.is_pspec(s) for s in case["recv"]):
            return "conv.object.str"
    return None


def nontrivial_grid(case):
    n = len(case["recv"])
    for s in case["args"]:
        if s[0] == "cb":
            if G.CALLBACKS[s[1]][2] or G.CALLBACKS[s[1]][3]:
                return True
        elif s[0] == "n":
            x = G.numkey_to_float(s[1])
            if x != x or abs(x) == math.inf or x != math.trunc(x) or x < 0 or x >= n or (x == 0 and math.copysign(1, x) < 0):
                return True
        elif s[0] in ("u", "l", "s", "b", "obj", "arr", "vo", "ts", "fn"):
            if case["m"] not in ("push", "unshift", "concat"):
                return True
    return False


def grid_cases(chk, methods, guards):
    """All cases of the tier (quick: a seeded 1/16 sample), in a fixed order."""
    rnd = random.Random(core.shard_seed(chk.seed, ID, "gridsample"))
    keep = 1.0 if chk.tier == "thorough" else 1.0 / 16
    recvs = receivers(chk.seed, 60 if chk.tier == "quick" else 200)
    srecvs = sort_receivers(chk.seed)
    unmodelled = []
    total = 0
    for m in methods:
        if m not in R.METHODS or arg_vectors(m, []) is None:
            unmodelled.append(m)
            continue
        rs = recvs + (srecvs if m in ("sort", "toSorted", "reverse", "filter", "slice") else [])
        for recv in rs:
            seen = set()
            for v, numpos, strpos in arg_vectors(m, recv):
                k = ",".join(G.spec_key(x) for x in v)
                if k in seen:
                    continue
                seen.add(k)
                total += 1
                if keep < 1.0 and rnd.random() >= keep:
                    continue
                case = {"m": m, "recv": recv, "args": v}
                g = vector_guard(v, numpos, strpos, guards) or case_guard(case, guards)
                if g:
                    chk.excluded[GUARD_FINDING.get(g, g)] += 1
                    continue
                yield case
    chk.extra["grid_total_cells"] = total
    chk.extra["unmodelled_array_methods"] = unmodelled


def diff_kind(exp, act):
    if not isinstance(act, list) or len(act) != 3 or act[0] == "?":
        return "shape"
    if act[0][0] == "exception":
        return "exc:%s" % act[0][1]
    if exp[0][0] != act[0][0]:
        return "%s-instead-of-%s" % (act[0][0], exp[0][0])
    if exp[0] != act[0]:
        if exp[0][0] == "throw":
            return "thrown-value"
        e, a = exp[0][1], act[0][1]
        if e[0] == "arr" and a[0] == "arr" and e[2] == a[2]:
            return "result-identity"
        return "result"
    if exp[1] != act[1]:
        return "receiver"
    return "log"


def judge_sort(case, exp, ctx, before, act):
    """Sort is judged by the validity predicate; returns the value to use as
    `actual` (== exp when the engine's answer is valid)."""
    cmp_spec = case["args"][0] if case["args"] else U
    if exp[0][0] == "throw" and cmp_spec[0] == "cb" and isinstance(act, list) and len(act) == 3 and isinstance(act[2], list):
        # the comparator threw: which pair is compared first is the implementation's business
        log = act[2]
        if len(log) == 1 and len(log[0]) == 4 and log[0][3] == ["u"] and log[0][0] != ["u"] and log[0][1] != ["u"]:
            return [act[0], act[1], exp[2]], None
        return act, None
    if exp[0][0] == "throw" or not isinstance(act, list) or len(act) != 3 or act[0][0] != "ok":
        return act, None
    res, recv, log = act
    if case["m"] == "sort":
        if res[1][0] != "arr" or res[1][1] != 0 or recv[0] != "arr" or res[1][2] != recv[2]:
            return act, "result is not the receiver"
        after_cv = recv[2]
    else:
        if res[1][0] != "arr" or res[1][1] != -1 or recv != exp[1]:
            return act, "result not fresh / receiver changed"
        after_cv = res[1][2]
    if cmp_spec[0] == "cb" and G.CALLBACKS[cmp_spec[1]][2]:
        # a comparator that modifies the receiver (it is consistent): the result is unique, only the
        # number and order of comparator calls is the implementation's business
        if all(len(e) == 4 and e[3] == ["u"] and e[0] != ["u"] and e[1] != ["u"] for e in log) and (len(log) > 0) == (len(exp[2]) > 0):
            return [res, recv, exp[2]], None
        return act, "comparator call"
    recs = [o for o in before if isinstance(o, R.Obj)]
    after = [G.model_from_cv(c, ctx.reg, recs) for c in after_cv]
    ctx2 = G.CaseCtx()
    cmp_fn = UNDEF if cmp_spec == U else G.callback_model(cmp_spec[1], ctx2, logging=False)
    c = R.compare_with(R.Env(), cmp_fn)
    try:
        why = R.sort_verdict(before, after, c)
    except R.Throw:  # throwing comparator that was never needed: exact comparison
        return act, None
    if why:
        return act, why
    for e in log:
        if len(e) != 4 or e[3] != ["u"] or e[0] == ["u"] or e[1] == ["u"]:
            return act, "comparator call"
    return exp, None


def eval_grid_batch(cases):
    """Worker: run cases (one script, case by case on a host exception) and
    judge them; returns counters and the mismatches."""
    srcs = [G.build_case(c)[0] for c in cases]
    st, val = run_eval(G.PRELUDE + "\n".join(srcs) + "\nOUT", time_limit=20, alarm=60)
    raws = None
    if st == "ok" and isinstance(val, list) and len(val) == len(cases):
        raws = [("ok", e) for e in val]
    else:
        raws = []
        for s in srcs:
            st1, v1 = run_eval(G.PRELUDE + s + "\nOUT", time_limit=5, alarm=15)
            if st1 == "ok" and isinstance(v1, list) and len(v1) == 1:
                raws.append(("ok", v1[0]))
            elif st1 == "ok":
                raws.append(("exc", ["BADSHAPE", repr(v1)[:80]]))
            else:
                raws.append(("exc", v1))
    res = {"n": 0, "nontrivial": [], "classes": collections.Counter(), "bad": [], "samples": []}
    for case, (st, raw) in zip(cases, raws):
        res["n"] += 1
        key = "a|" + G.case_key(case)
        nt = nontrivial_grid(case)
        if nt:
            res["nontrivial"].append(h64(key))
        res["classes"]["grid " + case["m"]] += 1
        try:
            exp, ctx, before = G.expected_case(case)
        except R.Unmodelled as e:
            raise engine.HarnessError("generator produced an unmodelled case %s: %s" % (key, e))
        if st == "ok":
            act = G.actual_from_raw(raw)
        else:
            act = [["exception", raw[0], raw[1]], None, None]
        why = None
        if case["m"] in ("sort", "toSorted"):
            act, why = judge_sort(case, exp, ctx, before, act)
        if act != exp:
            kind = ("sort:" + why) if why else diff_kind(exp, act)
            res["bad"].append((case, key, exp, act, kind))
        elif nt and len(res["samples"]) < 1:
            res["samples"].append({"cell": key, "expected": exp, "actual": act})
    return res


def discover(vocab, receiver_src):
    st, val = run_eval(
        "var names = %s; var out = []; for (var i = 0; i < names.length; i++) { if (typeof (%s)[names[i]] === 'function') out.push(names[i]); } out"
        % (json.dumps(vocab), receiver_src)
    )
    if st != "ok" or not isinstance(val, list):
        raise engine.HarnessError("method discovery failed: %r" % (val,))
    return [str(x) for x in val]


def run_grid(chk, guards):
    methods = discover(R.VOCABULARY, "[]")
    chk.extra["array_methods"] = methods
    cases = list(grid_cases(chk, methods, guards))
    batches = pool.chunks(cases, 40)
    results = pool.run(eval_grid_batch, batches, timeout=300)
    for batch, r in zip(batches, results):
        if isinstance(r, (pool.HANG, pool.CRASH)):
            raise engine.HarnessError("C17 grid batch %r" % r)
        chk.count(r["n"])
        chk.nontrivial_many(r["nontrivial"])
        for k, n in r["classes"].items():
            chk.classify(k, n)
        for s in r["samples"]:
            chk.sample(s, cls="grid " + s["cell"].split("|")[1], per_class=1, total=14)
        for case, key, exp, act, kind in r["bad"]:
            chk.cell(key, exp, act, {"kind": "grid", "case": case}, sub="grid", signature="grid|%s|%s" % (case["m"], kind))
    return methods


# ====================================================================== (b)
NV = 4
HIST_CMPS = ["cnum", "cdesc", "cfrac", "cstr", "czero", "cneg", "ctable", "cbool", "cinf", "cnan", "cthrow"]


def hist_prelude():
    cbs = ", ".join("%s: function(x, y) { %s }" % (n, G.CALLBACKS[n][1]) for n in HIST_CMPS)
    return G.PRELUDE + (
        "var V = [[], [], [], []]; var CB = {%s};\n"
        "function encR(v) { if (typeof v === 'object' && v !== null && Array.isArray(v)) { var i = idof(V, v); if (i >= 0) return ['arr', i]; } return enc(V, v, 0); }\n"
        "function ids() { var r = []; for (var i = 0; i < V.length; i++) r.push([idof(V, V[i]), V[i].length]); return r; }\n"
        "function snapv(a) { var u = []; for (var i = 0; i < a.length; i++) { if (a[i] === undefined) u.push(i); } return [a, u]; }\n"
        "function step(f, v, wantKeys) { var R = null; if (f !== null) { try { R = ['ok', encR(f())]; } catch (e) { R = ['throw', encErr(V, e)]; } }\n"
        "  return [R, ids(), snapv(V[v]), wantKeys ? keysOf(V[v]) : null]; }\n"
        % cbs
    )


def raw_elems(items, undef_idx):
    """Elements as eval() returned them (+ the indices holding undefined) ->
    canonical values."""
    und = set(int(i) for i in undef_idx)
    out = []
    for i, x in enumerate(items):
        if x is None:
            out.append(["u"] if i in und else ["l"])
        elif isinstance(x, bool):
            out.append(["b", 1 if x else 0])
        elif isinstance(x, (int, float)):
            out.append(G._num_cv(x))
        elif isinstance(x, str):
            out.append(["s", x])
        elif isinstance(x, dict) and set(x) == {"k", "id"}:
            out.append(["rec", G._num_cv(x["k"]), G._num_cv(x["id"])])
        else:
            out.append(["?", repr(x)[:60]])
    return out


class Mismatch(AssertionError):
    pass


_HCTX = [None, 0]


def hist_context():
    """One engine context serves up to 50 consecutive histories of a worker
    (compiling the prelude costs more than a whole history); every history
    starts by rebinding V to four fresh arrays."""
    if _HCTX[0] is None or _HCTX[1] >= 50:
        m = engine.load()
        ctx = m.Context(time_limit=10)
        st, v = run_eval(hist_prelude(), ctx=ctx)
        if st != "ok":
            raise engine.HarnessError("history prelude failed: %r" % (v,))
        _HCTX[0], _HCTX[1] = ctx, 0
    _HCTX[1] += 1
    return _HCTX[0]


class History:
    """One engine context + the reference state; step() executes a step on
    both and returns None or a failure record."""

    def __init__(self):
        self.ctx = hist_context()
        st, v = run_eval("V = [[], [], [], []]; 0", ctx=self.ctx)
        if st != "ok":
            raise engine.HarnessError("history reset failed: %r" % (v,))
        self.vars = [R.Arr() for _ in range(NV)]
        self.recs = {}
        self.next_id = 0
        self.steps = []
        self.mutations = 0
        self.aliased = False

    # ---- spec resolution -------------------------------------------------
    def resolve(self, s, n):
        """Fill in history-dependent parts of a spec: ["len",k] -> number,
        ["rec",k,None] -> fresh id."""
        if s[0] == "len":
            return num(n + s[1])
        if s[0] == "rec" and s[2] is None:
            self.next_id += 1
            return ["rec", s[1], self.next_id]
        return s

    def value(self, s):
        if G.is_pspec(s):
            return G.pvalue(s), P.js_literal(G.pvalue(s))
        if s[0] == "rec":
            o = self.recs.get(s[2])
            if o is None:
                o = self.recs[s[2]] = R.Obj(rec=(s[1], s[2]))
                self.next_id = max(self.next_id, s[2])
            return o, "{k: %d, id: %d}" % (s[1], s[2])
        if s[0] == "vo":
            return R.Obj(value_of=G.pvalue(s[1])), "{valueOf: function() { return %s; }}" % P.js_literal(G.pvalue(s[1]))
        raise KeyError(s[0])

    def cv(self, v):
        if isinstance(v, R.Arr):
            rid = -1
            for i, o in enumerate(self.vars):
                if o is v:
                    rid = i
                    break
            return ["arr", rid, [self.cv(e) for e in v.items]]
        return G.cv_from_model(v, [])

    def snapshot(self):
        return [[self.cv(a), [str(i) for i in range(len(a.items))] + list(a.props)] for a in self.vars]

    # ---- one step ----------------------------------------------------------
    def step(self, step):
        op = step["op"]
        a = self.vars[step["v"]]
        n = len(a.items)
        step = dict(step)
        for f in ("args", "items"):
            if f in step:
                step[f] = [self.resolve(x, n) for x in step[f]]
        for f in ("key", "val", "extra"):
            if f in step:
                step[f] = self.resolve(step[f], n)
        self.steps.append(step)
        tgt = "V[%d]" % step["v"]
        alts = []  # acceptable (result cv, apply-to-model function) alternatives
        sortinfo = None

        def ok(v):
            return ["ok", self.cvR(v)]

        if op == "call":
            vals = [self.value(x) for x in step["args"]]
            expr = "%s.%s(%s)" % (tgt, step["m"], ", ".join(j for _, j in vals))
            margs = [m for m, _ in vals]
            self.mutations += 1 if step["m"] in R.MUTATING else 0

            def run_call():
                try:
                    return ok(R.call_method(R.Env(), step["m"], a, margs))
                except R.Throw as t:
                    return ["throw", self.cv(t.value)]

            alts.append(run_call)
        elif op == "sort":
            cmp = step.get("cmp")
            expr = "%s.sort(%s)" % (tgt, "" if cmp is None else ("CB." + cmp if cmp in HIST_CMPS else P.js_literal(G.pvalue(cmp))))
            self.mutations += 1
            if cmp is not None and cmp not in HIST_CMPS:
                alts.append(lambda: ["throw", ["err", "TypeError"]])
            else:
                fn = UNDEF if cmp is None else G.callback_model(cmp, G.CaseCtx(), logging=False)
                sortinfo = (list(a.items), R.compare_with(R.Env(), fn), fn)
        elif op == "setidx":
            key, kjs = self.value(step["key"])
            val, vjs = self.value(step["val"])
            expr = "(%s[%s] = %s)" % (tgt, kjs, vjs)
            cls, idx = R.classify_index_write(a, key)
            self.last_cls = cls
            self.mutations += 1 if cls in (R.STORE, R.APPEND) else 0
            if cls == R.STORE:
                alts.append(lambda: (a.items.__setitem__(idx, val), ok(val))[1])
            elif cls == R.APPEND:
                alts.append(lambda: (a.items.append(val), ok(val))[1])
            elif cls == R.ERROR:
                alts.append(lambda: ["throw", ["err", "*"]])
            else:
                alts.append(lambda: ["throw", ["err", "*"]])
                alts.append(lambda: (a.props.__setitem__(idx, val), ok(val))[1])
        elif op == "setlen":
            val, vjs = self.value(step["val"])
            expr = "(%s.length = %s)" % (tgt, vjs)
            self.mutations += 1

            def run_len():
                try:
                    R.length_write(a, val)
                    return ok(val)
                except R.Throw as t:
                    return ["throw", self.cv(t.value)]

            alts.append(run_len)
        elif op == "alias":
            expr = "(%s = V[%d])" % (tgt, step["w"])
            self.aliased = self.aliased or step["v"] != step["w"]

            def run_alias():
                self.vars[step["v"]] = self.vars[step["w"]]
                return ok(self.vars[step["v"]])

            alts.append(run_alias)
        elif op == "fresh":
            vals = [self.value(x) for x in step["items"]]
            expr = "(%s = [%s])" % (tgt, ", ".join(j for _, j in vals))

            def run_fresh():
                self.vars[step["v"]] = R.Arr([m for m, _ in vals])
                return ok(self.vars[step["v"]])

            alts.append(run_fresh)
        elif op == "concat":
            ev, ejs = self.value(step["extra"])
            expr = "(%s = V[%d].concat(V[%d], %s, V[%d]))" % (tgt, step["w"], step["x"], ejs, step["w"])

            def run_concat():
                w, x = self.vars[step["w"]], self.vars[step["x"]]
                self.vars[step["v"]] = R.call_method(R.Env(), "concat", w, [x, ev, w])
                return ok(self.vars[step["v"]])

            alts.append(run_concat)
        elif op == "newarr":
            vals = [self.value(x) for x in step["args"]]
            expr = "(%s = %sArray(%s))" % (tgt, "new " if step.get("new") else "", ", ".join(j for _, j in vals))

            def run_newarr():
                ms = [m for m, _ in vals]
                if len(ms) == 1 and isinstance(ms[0], float):
                    if float(P.to_uint32(ms[0])) != ms[0]:
                        return ["throw", ["err", "RangeError"]]
                    ms = [UNDEF] * int(ms[0])  # no holes: undefined elements (spec.md)
                self.vars[step["v"]] = R.Arr(ms)
                return ok(self.vars[step["v"]])

            alts.append(run_newarr)
        elif op == "slice":
            vals = [self.value(x) for x in step["args"]]
            expr = "(%s = V[%d].slice(%s))" % (tgt, step["w"], ", ".join(j for _, j in vals))

            def run_slice():
                self.vars[step["v"]] = R.call_method(R.Env(), "slice", self.vars[step["w"]], [m for m, _ in vals])
                return ok(self.vars[step["v"]])

            alts.append(run_slice)
        else:
            raise KeyError(op)
        want_keys = op == "setidx"
        act = self.observe("step(function() { return %s; }, %d, %s)" % (expr, step["v"], "true" if want_keys else "false"))
        if act[0] == "exception":
            return self.fail(step, "exc:%s" % act[1], None, act)
        if act[0] == "?":
            return self.fail(step, "shape", None, act)
        res = act[0]
        if sortinfo is not None:
            before, c, fn = sortinfo
            after = [G.model_from_cv(x, [], list(self.recs.values())) for x in act[2]]
            vals = [x for x in before if x is not UNDEF]
            exp_res = None
            if len(vals) < 2:
                c = lambda x, y: 0.0  # noqa: E731  (the comparator is never called)
            try:
                why = R.sort_verdict(before, after, c)
                R.consistent(vals, c)  # does the comparator throw on these elements?
            except R.Throw as t:
                # aborted sort (ES2023: SortIndexedProperties completes abruptly before
                # anything is written back): the receiver is unchanged
                exp_res = ["throw", self.cv(t.value)]
                same = len(after) == len(before) and all(R.same_value(x, y) for x, y in zip(after, before))
                why = None if same else "changed by an aborted sort"
            if why:
                try:
                    if R.consistent([x for x in before if x is not UNDEF], c):
                        R.m_sort(R.Env(), a, [fn])
                except R.Throw:
                    pass
                return self.fail(step, "sort:" + why, [self.cvR(a), self.state(step["v"], want_keys)], act)
            a.items[:] = after  # a valid order: adopt it (unique when the comparator is consistent)
            exp = [exp_res or ["ok", self.cvR(a)]] + self.state(step["v"], want_keys)
            if act != exp:
                return self.fail(step, "sort:" + diff_hist(exp, act), exp, act)
            return None
        # ordinary step: one of the alternatives must match exactly
        saved = ([list(v.items) for v in self.vars], [dict(v.props) for v in self.vars], list(self.vars))
        first = None
        for alt in alts:
            for v, it, pr in zip(saved[2], saved[0], saved[1]):
                v.items[:] = it
                v.props = dict(pr)
            self.vars = list(saved[2])
            r = alt()
            exp = [r] + self.state(step["v"], want_keys)
            if first is None:
                first = exp
            if r == ["throw", ["err", "*"]] and res[0] == "throw" and res[1][0] == "err":
                exp[0] = res
            if act == exp:
                return None
        return self.fail(step, diff_hist(first, act), first, act)

    def observe(self, src):
        """Run a step()/full() call; -> [res, ids, contents, keys] in canonical
        form, or ["exception", class, message] / ["?", text]."""
        st, raw = run_eval(src, ctx=self.ctx)
        if st != "ok":
            return ["exception"] + raw
        try:
            res = None if raw[0] is None else [raw[0][0], G.cv_from_raw(raw[0][1])]
            ids = [[int(i), int(n)] for i, n in raw[1]]
            conts = raw_elems(raw[2][0], raw[2][1]) if raw[2] is not None else None
            keys = None if raw[3] is None else [str(k) for k in raw[3]]
            return [res, ids, conts, keys]
        except Exception:
            return ["?", repr(raw)[:200]]

    def state(self, v, want_keys):
        ids = []
        for a in self.vars:
            ids.append([[i for i, o in enumerate(self.vars) if o is a][0], len(a.items)])
        a = self.vars[v]
        keys = ([str(i) for i in range(len(a.items))] + list(a.props)) if want_keys else None
        return [ids, [self.cv(e) for e in a.items], keys]

    def cvR(self, v):
        """Result of a step: arrays held by a variable are named, not spelled."""
        if isinstance(v, R.Arr):
            for i, o in enumerate(self.vars):
                if o is v:
                    return ["arr", i]
        return self.cv(v)

    def finish(self):
        """Final full comparison of every variable (contents and own keys)."""
        for v in range(NV):
            act = self.observe("step(null, %d, true)" % v)
            exp = [None] + self.state(v, True)
            if act != exp:
                return {"steps": list(self.steps), "signature": "hist|final|" + (diff_hist([["ok"]] + exp[1:], [["ok"]] + act[1:]) if act[0] is None else str(act[0])),
                        "expected": exp, "actual": act}
        return None

    def fail(self, step, kind, exp, act):
        name = step.get("m") or step["op"]
        if step["op"] == "setidx":
            name = "setidx:" + self.last_cls
        return {"steps": list(self.steps), "signature": "hist|%s|%s" % (name, kind), "expected": exp, "actual": act}


def diff_hist(exp, act):
    if exp is None:
        return "exception"
    if exp[0][0] != act[0][0]:
        return "%s-instead-of-%s" % (act[0][0], exp[0][0])
    if exp[0] != act[0]:
        return "thrown-value" if exp[0][0] == "throw" else "result"
    if [i for i, _ in exp[1]] != [i for i, _ in act[1]]:
        return "aliasing"
    if exp[1] != act[1]:
        return "length"
    if exp[2] != act[2]:
        return "contents"
    return "keys"


def run_history(steps):
    h = History()
    for s in steps:
        f = h.step(s)
        if f:
            return f, h
    return h.finish(), h


HIST_STATS = {"histories": 0, "steps": 0, "nontrivial": 0, "classes": collections.Counter()}
LAST_FAIL = [None]


def hist_task(task):
    """Worker: run a seeded state machine; returns stats and at most one
    (shrunk) failing history."""
    seed, n_examples, n_steps, guards, methods = task
    import hypothesis
    from hypothesis import strategies as st, settings, HealthCheck, Verbosity
    from hypothesis.stateful import RuleBasedStateMachine, rule, precondition, run_state_machine_as_test

    guards = set(guards)
    prim = st.sampled_from([num(0), num(1), num(2), num(3), num(10), sstr("a"), sstr("b"), U, L, NAN, num(-0.0), TRUE])
    rec = st.integers(0, 2).map(lambda k: ["rec", k, None])
    elem = st.one_of(prim, rec, rec)
    var = st.integers(0, NV - 1)
    weird = [NAN, PINF, NINF, U, num(1.5), num(-0.5), sstr("1"), L, ["vo", num(1)]]
    idx = st.one_of(st.integers(-8, 9).map(num), st.integers(-2, 2).map(lambda k: ["len", k]), st.sampled_from(weird))
    cmps = [c for c in HIST_CMPS if not (c == "cthrow" and "cb.throws" in guards)]
    for k in ("histories", "steps", "nontrivial"):
        HIST_STATS[k] = 0
    HIST_STATS["classes"] = collections.Counter()
    LAST_FAIL[0] = None

    class Machine(RuleBasedStateMachine):
        def __init__(self):
            super().__init__()
            self.h = History()

        def do(self, step):
            HIST_STATS["classes"]["hist " + (step.get("m") or step["op"])] += 1
            f = self.h.step(step)
            if f:
                LAST_FAIL[0] = f
                raise Mismatch(f["signature"])

        def teardown(self):
            if LAST_FAIL[0] is None or LAST_FAIL[0]["steps"] != self.h.steps:
                f = self.h.finish()
                if f:
                    LAST_FAIL[0] = f
                    raise Mismatch(f["signature"])
            HIST_STATS["histories"] += 1
            HIST_STATS["steps"] += len(self.h.steps)
            if self.h.aliased and self.h.mutations >= 3:
                HIST_STATS["nontrivial"] += 1

        @rule(v=var, items=st.lists(elem, max_size=6))
        def fresh(self, v, items):
            self.do({"op": "fresh", "v": v, "items": items})

        @rule(v=var, w=var)
        def alias(self, v, w):
            self.do({"op": "alias", "v": v, "w": w})

        @rule(v=var, args=st.lists(elem, max_size=3))
        def push(self, v, args):
            self.do({"op": "call", "v": v, "m": "push", "args": args})

        @rule(v=var, args=st.lists(elem, max_size=3))
        def unshift(self, v, args):
            self.do({"op": "call", "v": v, "m": "unshift", "args": args})

        @rule(v=var, m=st.sampled_from(["pop", "shift", "reverse"]))
        def simple(self, v, m):
            self.do({"op": "call", "v": v, "m": m, "args": []})

        @rule(v=var, start=idx, dc=st.one_of(st.none(), idx), items=st.lists(elem, max_size=2))
        def splice(self, v, start, dc, items):
            args = [start] if dc is None else [start, dc] + items
            self.do({"op": "call", "v": v, "m": "splice", "args": args})

        @rule(v=var, cmp=st.one_of(st.none(), st.sampled_from(cmps), st.sampled_from(cmps), st.sampled_from([L, num(3)])))
        def sort(self, v, cmp):
            if len(self.h.vars[v].items) > 40:
                return  # the consistency test of the verdict is cubic
            self.do({"op": "sort", "v": v, "cmp": cmp})

        @rule(v=var, key=st.one_of(st.integers(-2, 3).map(lambda k: ["len", k]), st.integers(-2, 3).map(lambda k: ["len", k]),
                                   st.integers(0, 6).map(num), st.sampled_from([num(1.5), sstr("x"), sstr("1"), sstr("01"), NAN, num(-1), num(2 ** 32 - 1)])),
              val=elem)
        def setidx(self, v, key, val):
            self.do({"op": "setidx", "v": v, "key": key, "val": val})

        @rule(v=var, val=st.one_of(st.integers(-3, 3).map(lambda k: ["len", k]), st.integers(0, 8).map(num),
                                   st.sampled_from([num(-1), num(1.5), NAN, PINF, sstr("2"), sstr("x"), U, L, TRUE, num(-0.0)])))
        def setlen(self, v, val):
            self.do({"op": "setlen", "v": v, "val": val})

        @rule(v=var, n=st.one_of(st.integers(0, 6).map(num), st.sampled_from([num(-1), num(1.5), NAN, sstr("2"), TRUE])), new=st.booleans())
        def newarr(self, v, n, new):
            self.do({"op": "newarr", "v": v, "args": [n], "new": new})

        @rule(v=var, w=var, x=var, extra=elem)
        def concat(self, v, w, x, extra):
            if 2 * len(self.h.vars[w].items) + len(self.h.vars[x].items) + 1 > 48:
                return  # keep arrays small (concat of aliases would grow exponentially)
            self.do({"op": "concat", "v": v, "w": w, "x": x, "extra": extra})

        @rule(v=var, w=var, args=st.lists(idx, max_size=2))
        def slice(self, v, w, args):
            self.do({"op": "slice", "v": v, "w": w, "args": args})

        @precondition(lambda self: "fill" in methods)
        @rule(v=var, val=elem, args=st.lists(idx, max_size=2))
        def fill(self, v, val, args):
            self.do({"op": "call", "v": v, "m": "fill", "args": [val] + args})

        @precondition(lambda self: "copyWithin" in methods)
        @rule(v=var, args=st.lists(idx, min_size=1, max_size=3))
        def copy_within(self, v, args):
            self.do({"op": "call", "v": v, "m": "copyWithin", "args": args})

    cfg = settings(max_examples=n_examples, stateful_step_count=n_steps, database=None, deadline=None, derandomize=False,
                   report_multiple_bugs=False, print_blob=False, verbosity=Verbosity.quiet,
                   phases=[hypothesis.Phase.generate, hypothesis.Phase.shrink],  # explain would trace every line
                   suppress_health_check=[HealthCheck.too_slow, HealthCheck.data_too_large])
    try:
        run_state_machine_as_test(hypothesis.seed(seed)(Machine), settings=cfg)
    except Mismatch:
        pass
    out = dict(HIST_STATS)
    out["fail"] = LAST_FAIL[0]
    return out


def assign_cells():
    """Deterministic grid of element / length assignments on arrays of
    length 0..3 (through an alias), each a two-step history."""
    cells = []
    vals = [num(7), U, ["rec", 1, None]]
    for n in range(4):
        base = [num(i + 1) for i in range(n)]
        keys = [num(k) for k in range(-2, n + 4)] + [num(1.5), num(-0.0), NAN, PINF, sstr("x"), sstr("0"), sstr("%d" % n), sstr("%d" % (n + 1)),
                                                     sstr("01"), sstr("-1"), sstr("1.0"), num(2 ** 32 - 2), num(2 ** 32 - 1), num(2 ** 32), TRUE, L, U]
        for k in keys:
            for v in vals:
                cells.append([{"op": "fresh", "v": 0, "items": base}, {"op": "alias", "v": 1, "w": 0}, {"op": "setidx", "v": 1, "key": k, "val": v}])
        lens = [num(k) for k in range(-2, n + 4)] + [num(1.5), num(-0.0), NAN, PINF, NINF, num(2 ** 32), num(2 ** 32 + 1), num(-(2 ** 32)), sstr("2"), sstr(""), sstr("x"),
                                                     sstr("1.5"), sstr("0x2"), U, L, TRUE, ["b", 0], ["vo", num(1)]]
        for k in lens:
            cells.append([{"op": "fresh", "v": 0, "items": base}, {"op": "alias", "v": 1, "w": 0}, {"op": "setlen", "v": 1, "val": k}])
    for args in [[], [num(0)], [num(3)], [num(-1)], [num(1.5)], [NAN], [num(2 ** 32)], [PINF], [num(-0.0)], [sstr("3")], [TRUE], [L], [U],
                 [num(2), num(3)], [num(-1), num(1.5)], [["rec", 1, None]]]:
        for new in (True, False):
            cells.append([{"op": "fresh", "v": 0, "items": [num(1)]}, {"op": "newarr", "v": 0, "args": args, "new": new}])
    return cells


def eval_assign_cells(cells):
    out = []
    for steps in cells:
        f, _ = run_history(steps)
        out.append(f)
    return out


def run_assign(chk, guards):
    cells = assign_cells()
    if "conv.object.num" in guards:
        pass  # {valueOf} objects convert through an own method: not guarded
    batches = pool.chunks(cells, 40)
    for batch, rb in zip(batches, pool.run(eval_assign_cells, batches, timeout=300)):
        if isinstance(rb, (pool.HANG, pool.CRASH)):
            raise engine.HarnessError("C17 assignment batch %r" % rb)
        for steps, f in zip(batch, rb):
            last = steps[-1]
            if last["op"] == "newarr":
                key = "b|newarr|%s|%s" % ("new" if last["new"] else "call", ",".join(G.spec_key(x) for x in last["args"]))
            else:
                key = "b|assign|%d|%s|%s|%s" % (len(steps[0]["items"]), last["op"], G.spec_key(last.get("key") or last["val"]), G.spec_key(last["val"]))
            chk.count()
            chk.nontrivial(key)
            chk.classify("assign " + last["op"])
            if f:
                chk.cell(key, f["expected"], f["actual"], {"kind": "hist", "steps": f["steps"]}, sub="assign", signature=f["signature"].replace("hist|", "assign|"))


def run_hist(chk, guards, methods):
    if chk.tier == "quick":
        ntask, nex, nstep = 30, 10, 40
    else:
        ntask, nex, nstep = 100, 50, 60
    tasks = [(core.shard_seed(chk.seed, ID, "hist", i), nex, nstep, sorted(guards), methods) for i in range(ntask)]
    results = pool.run(hist_task, tasks, timeout=1200)
    for t, r in zip(tasks, results):
        if isinstance(r, (pool.HANG, pool.CRASH)):
            raise engine.HarnessError("C17 history task %r" % r)
        chk.count(r["steps"])
        chk.extra["histories"] = chk.extra.get("histories", 0) + r["histories"]
        for i in range(r["nontrivial"]):
            chk.nontrivial("hist|%d|%d" % (t[0], i))
        for k, n in r["classes"].items():
            chk.classify(k, n)
        f = r["fail"]
        if f:
            chk.violation(f["signature"], {"kind": "hist", "steps": f["steps"]}, f["expected"], f["actual"], sub="hist")


# ====================================================================== (c)
TYPED_VOCAB = ["at", "copyWithin", "entries", "every", "fill", "filter", "find", "findIndex", "findLast", "findLastIndex",
               "forEach", "includes", "indexOf", "join", "keys", "lastIndexOf", "map", "reduce", "reduceRight", "reverse",
               "set", "slice", "some", "sort", "subarray", "toLocaleString", "toReversed", "toSorted", "toString", "values", "with"]
TYPED_MODELLED = {"set", "subarray", "fill", "join", "toString", "slice", "reverse"}
TYPED_PRELUDE = (
    "function dump(t) { var r = []; for (var i = 0; i < t.length && i < 64; i++) r.push(t[i]); return r; }\n"
    "function tv(v) { return [typeof v, v]; }\n"
    "function keysOf(o) { var r = []; for (var k in o) r.push(k); return r; }\n"
    "function errName(e) { return (typeof e === 'object' && e !== null && typeof e.name === 'string') ? e.name : 'non-error'; }\n"
)


def spec_js(s):
    t = s[0]
    if G.is_pspec(s):
        return P.js_literal(G.pvalue(s))
    if t == "obj":
        return "({})"
    if t == "arr":
        return "[" + ", ".join(spec_js(x) for x in s[1]) + "]"
    if t == "vo":
        return "({valueOf: function() { return %s; }})" % P.js_literal(G.pvalue(s[1]))
    if t == "ts":
        return "({toString: function() { return %s; }})" % P.js_literal(G.pvalue(s[1]))
    if t == "fn":
        return "(function() {})"
    raise KeyError(t)


def spec_model(s):
    t = s[0]
    if G.is_pspec(s):
        return G.pvalue(s)
    if t == "obj":
        return R.Obj()
    if t == "arr":
        return R.Arr([spec_model(x) for x in s[1]])
    if t == "vo":
        return R.Obj(value_of=G.pvalue(s[1]))
    if t == "ts":
        return R.Obj(to_str=G.pvalue(s[1]))
    if t == "fn":
        return R.Fn(None)
    raise KeyError(t)


def spec_number(s):
    """ToNumber of the value a spec denotes; None for undefined-as-missing is
    handled by the callers."""
    return R.to_number(spec_model(s))


def ncv(x):
    """canonical form of a number a typed array hands out (None = undefined)."""
    if x is None:
        return ["u"]
    return ["n", P.numkey(x)]


STORE_VALUES = [num(x) for x in V.NUMS] + [
    num(x) for x in (2.5, -129.0, 127.0, 128.0, -128.0, 129.0, 254.5, 255.5, 0.49999999999999994, 0.5000000000000001, 32767.0, 32768.0, -32769.0,
                     65535.5, 4294967301.0, 1e20, -1e20, 3.4028234663852886e38, 3.4028235677973366e38, 3.402823567797337e38, 1e39, -1e39, 1e-46,
                     # between the largest float32 and the point where rounding reaches 2^128 (still rounds down)
                     3.4028235e38, 3.402823567797336e38, -3.4028235e38, 3.4028234663852889e38, -3.4028235677973366e38,
                     # float32 subnormal halfway points
                     7.006492321624085e-46, 7.006492321624087e-46, 2.1019476964872256e-45, 1.1754942807573643e-38,
                     1.401298464324817e-45, 7e-46, 16777217.0, 0.1, 2147483648.5, -2147483648.5, 9007199254740993.0 * 1024)
] + [sstr("3"), sstr(" 12 "), sstr("0x10"), sstr("abc"), sstr(""), sstr("-1.5"), sstr("1e3"), TRUE, ["b", 0], L, U,
     ["obj"], ["arr", []], ["arr", [num(7)]], ["arr", [num(1), num(2)]], ["vo", num(300)], ["ts", sstr("9")], ["fn"]]
STORE_FORMS = {
    "assign": "var t = new K(2); t[0] = x; return [tv(t[0]), tv(t[1])];",
    "fromarray": "var t = new K([x, 1]); return [tv(t[0]), tv(t[1])];",
    "set": "var t = new K(2); t.set([1, x]); return [tv(t[1]), tv(t[0])];",
    "fill": "var t = new K(2); t[1] = 1; t.fill(x, 0, 1); return [tv(t[0]), tv(t[1])];",
    "viaf64": "var t = new K(new Float64Array([x, 1])); return [tv(t[0]), tv(t[1])];",
}


def _dedupe_specs(specs):
    seen, out = set(), []
    for s in specs:
        k = G.spec_key(s)
        if k not in seen:
            seen.add(k)
            out.append(s)
    return out


def typed_cells(tmethods):
    """Every cell of campaign (c) parts 1 and 2: dicts with a key."""
    cells = []
    vals = _dedupe_specs(STORE_VALUES)
    for kind in T.KIND_NAMES:
        for form in STORE_FORMS:
            if form in ("set", "fill") and form not in tmethods:
                continue
            for v in vals:
                if form == "viaf64" and not G.is_pspec(v):
                    continue
                cells.append({"t": "store", "kind": kind, "form": form, "v": v})
    lens = [None, U, L, num(0), num(1), num(3), num(1.5), num(-0.0), num(-1), num(-0.5), NAN, sstr("2"), sstr("x"), TRUE, num(2 ** 53), PINF, NINF, ["arr", []],
            ["arr", [num(1), num(2)]]]
    for kind in T.KIND_NAMES:
        for a in lens:
            cells.append({"t": "ctorlen", "kind": kind, "a": a})
    for a in lens:
        if a is None or a[0] != "arr":
            cells.append({"t": "buflen", "kind": "ArrayBuffer", "a": a})
    offs = [None, U, num(0), num(1), num(2), num(4), num(8), num(16), num(17), num(-1), num(1.5), NAN, sstr("4")]
    blens = [None, U, num(0), num(1), num(2), num(3), num(-1), NAN, num(1.5)]
    for kind in T.KIND_NAMES:
        for nbytes in (0, 7, 8, 16):
            for off in offs:
                for ln in blens:
                    if off is None and ln is not None:
                        continue
                    cells.append({"t": "ctorbuf", "kind": kind, "n": nbytes, "off": off, "len": ln})
    idx = [None, U, num(-1), num(0), num(1), num(2), num(5), num(6), num(-6), NAN, PINF, NINF, num(1.9)]
    if "subarray" in tmethods:
        for kind in T.KIND_NAMES:
            for base in ("own", "view"):
                for b in idx:
                    for e in idx:
                        if b is None and e is not None:
                            continue
                        cells.append({"t": "subarray", "kind": kind, "base": base, "b": b, "e": e})
    if "set" in tmethods:
        srcs = ["[5, 6]", "[5, 6, 7, 8, 9]", "[]", "new Float64Array([1.5, 300])", "t.subarray(0, 2)", "t.subarray(1, 4)", "new K([7])", "['8', true]", "new Int8Array([-1, -2])"]
        soffs = [None, U, num(0), num(1), num(2), num(3), num(4), num(5), num(-1), NAN, num(1.9), PINF, sstr("1")]
        for kind in T.KIND_NAMES:
            for src in srcs:
                if "subarray" in src and "subarray" not in tmethods:
                    continue
                for off in soffs:
                    cells.append({"t": "set", "kind": kind, "src": src, "off": off})
    keys = [num(-1), num(0), num(2), num(3), num(8), num(1.5), num(-0.0), sstr("-0"), sstr("1"), sstr("01"), sstr("x"), NAN, sstr("1.0"), sstr("1e0"), num(2 ** 32), PINF,
            TRUE, sstr("Infinity"), sstr("-1")]
    for kind in T.KIND_NAMES:
        for k in keys:
            cells.append({"t": "index", "kind": kind, "k": k})
        cells.append({"t": "props", "kind": kind})
        for sep in [None, U, sstr("-"), num(1)]:
            cells.append({"t": "join", "kind": kind, "sep": sep})
        cells.append({"t": "tostring", "kind": kind})
    for c in cells:
        c["key"] = "c|" + "|".join(
            str(c[f]) if not isinstance(c[f], list) else G.spec_key(c[f]) for f in ("t", "kind", "form", "base", "n", "src", "a", "off", "len", "b", "e", "k", "sep", "v") if f in c and c[f] is not None
        ) + ("|" + ",".join(f for f in ("a", "off", "len", "b", "e", "sep") if f in c and c[f] is None) if any(f in c and c[f] is None for f in ("a", "off", "len", "b", "e", "sep")) else "")
    return cells


def _args_js(*specs):
    """Trailing None (= argument not passed) dropped; an inner None cannot occur."""
    out = []
    for s in specs:
        if s is None:
            break
        out.append(spec_js(s))
    return ", ".join(out)


JOIN_VALUES = {"float": [0.1, -0.0, math.nan, 1e21, math.inf, -1.5, 1e-7, 16777217.0], "int": [0.0, 1.0, 255.0, -1.0, 300.0, 65537.0], "clamp": [0.0, 1.5, 300.0, -4.0]}


def typed_cell_js(c):
    """JS function body of a cell (uses K for the constructor)."""
    t = c["t"]
    if t == "store":
        return "var x = %s; %s" % (spec_js(c["v"]), STORE_FORMS[c["form"]])
    if t == "ctorlen":
        return "var t = new K(%s); return [t.length, t.byteLength, t.byteOffset, t.BYTES_PER_ELEMENT, dump(t)];" % _args_js(c["a"])
    if t == "buflen":
        return "var b = new ArrayBuffer(%s); return [b.byteLength];" % _args_js(c["a"])
    if t == "ctorbuf":
        return "var b = new ArrayBuffer(%d); var t = new K(b%s); return [t.length, t.byteOffset, t.byteLength, t.buffer === b];" % (
            c["n"], "".join(", " + spec_js(x) for x in (c["off"], c["len"]) if x is not None))
    if t == "subarray":
        mk = "var t = new K([1, 2, 3, 4, 5]);" if c["base"] == "own" else "var b = new ArrayBuffer(64); var t = new K(b, 8, 5); for (var i = 0; i < 5; i++) t[i] = i + 1;"
        return (mk + " var s = t.subarray(%s); var r = [s.length, s.byteOffset - t.byteOffset, dump(s), s.buffer === t.buffer];"
                " if (s.length > 0) { s[0] = 9; r.push(dump(t)); } return r;" % _args_js(c["b"], c["e"]))
    if t == "set":
        return "var t = new K([1, 2, 3, 4]); var r = t.set(%s%s); return [typeof r, dump(t)];" % (c["src"], "" if c["off"] is None else ", " + spec_js(c["off"]))
    if t == "index":
        k = spec_js(c["k"])
        return "var t = new K([1, 2, 3]); var before = tv(t[%s]); t[%s] = 7; return [before, tv(t[%s]), dump(t), t.length];" % (k, k, k)
    if t == "props":
        return ("var t = new K(3); var b = t.buffer; return [typeof b, b === t.buffer, (typeof b === 'object' && b !== null) ? b.byteLength : -1, t.byteLength, t.byteOffset,"
                " t.BYTES_PER_ELEMENT, K.BYTES_PER_ELEMENT, t.length];")
    if t in ("join", "tostring"):
        fam = T.KINDS[c["kind"]][1]
        vals = ", ".join(P.js_literal(x) for x in JOIN_VALUES[fam])
        if t == "join":
            return "var t = new K([%s]); return [t.join(%s)];" % (vals, _args_js(c["sep"]))
        return "var t = new K([%s]); return [t.toString(), String(t), '' + t];" % vals
    raise KeyError(t)


def _tonum_or_none(s):
    return None if (s is None or s == U) else spec_number(s)


def _list_cv(xs):
    return ["list", [x if isinstance(x, list) else (["b", int(x)] if isinstance(x, bool) else ncv(x)) for x in xs]]


def typed_cell_expected(c):
    """-> ["ok", canonical] | ["throw", "RangeError" | "TypeError"]."""
    kind, t = c["kind"], c["t"]
    size = T.size_of(kind) if kind in T.KINDS else 1
    try:
        if t == "store":
            x = spec_number(c["v"])
            if c["form"] == "viaf64":
                pass  # Float64Array holds x exactly
            conv = ncv(T.convert(kind, x))
            one = ncv(1.0)
            return ["ok", ["list", [conv, one if c["form"] in ("fromarray", "viaf64", "set", "fill") else ncv(0.0)]]]
        if t == "ctorlen":
            a = c["a"]
            if a is not None and a[0] == "arr":
                ta = T.new_ta_values(kind, [spec_number(x) for x in a[1]])
            else:
                ta = T.new_ta_length(kind, _tonum_or_none(a))
            return ["ok", _list_cv([float(ta.length), float(ta.byte_length), 0.0, float(size), _list_cv(ta.values())])]
        if t == "buflen":
            return ["ok", _list_cv([float(T.new_buffer(_tonum_or_none(c["a"])).byte_length)])]
        if t == "ctorbuf":
            buf = T.new_buffer(float(c["n"]))
            ta = T.new_ta_buffer(kind, buf, _tonum_or_none(c["off"]), _tonum_or_none(c["len"]))
            return ["ok", _list_cv([float(ta.length), float(ta.offset), float(ta.byte_length), True])]
        if t == "subarray":
            if c["base"] == "own":
                ta = T.new_ta_values(kind, [1.0, 2.0, 3.0, 4.0, 5.0])
            else:
                ta = T.new_ta_buffer(kind, T.new_buffer(64.0), 8.0, 5.0)
                for i in range(5):
                    ta.set(i, float(i + 1))
            s = ta.subarray(_tonum_or_none(c["b"]), _tonum_or_none(c["e"]))
            r = [float(s.length), float(s.offset - ta.offset), _list_cv(s.values()), True]
            if s.length > 0:
                s.set(0, 9.0)
                r.append(_list_cv(ta.values()))
            return ["ok", _list_cv(r)]
        if t == "set":
            ta = T.new_ta_values(kind, [1.0, 2.0, 3.0, 4.0])
            src = {
                "[5, 6]": [5.0, 6.0], "[5, 6, 7, 8, 9]": [5.0, 6.0, 7.0, 8.0, 9.0], "[]": [], "new Float64Array([1.5, 300])": [1.5, 300.0],
                "t.subarray(0, 2)": ta.values()[0:2], "t.subarray(1, 4)": ta.values()[1:4], "new K([7])": [T.convert(kind, 7.0)], "['8', true]": [8.0, 1.0],
                "new Int8Array([-1, -2])": [-1.0, -2.0],
            }[c["src"]]
            ta.set_from(src, _tonum_or_none(c["off"]))
            return ["ok", _list_cv([["s", "undefined"], _list_cv(ta.values())])]
        if t == "index":
            ta = T.new_ta_values(kind, [1.0, 2.0, 3.0])
            key = spec_model(c["k"])
            ks = key if isinstance(key, str) else P.to_string(key)
            numeric = ks == "-0" or P.to_string(P.to_number(ks)) == ks  # CanonicalNumericIndexString
            if numeric:
                i = T.canonical_index(-0.0 if ks == "-0" else P.to_number(ks))
                before = ta.get(i) if i is not None else None
                if i is not None:
                    ta.set(i, 7.0)
                after = ta.get(i) if i is not None else None
                b, a_ = ncv(before), ncv(after)
            else:  # an ordinary property
                b, a_ = ["u"], ncv(7.0)
            return ["ok", _list_cv([b, a_, _list_cv(ta.values()), 3.0])]
        if t == "props":
            return ["ok", _list_cv([["s", "object"], True, float(3 * size), float(3 * size), 0.0, float(size), float(size), 3.0])]
        if t in ("join", "tostring"):
            fam = T.KINDS[kind][1]
            vals = [P.num_to_str(T.convert(kind, x)) for x in JOIN_VALUES[fam]]
            if t == "join":
                sep = "," if (c["sep"] is None or c["sep"] == U) else R.to_string(spec_model(c["sep"]))
                return ["ok", _list_cv([["s", sep.join(vals)]])]
            return ["ok", _list_cv([["s", ",".join(vals)]] * 3)]
    except T.RangeErr:
        return ["throw", "RangeError"]
    except T.TypeErr:
        return ["throw", "TypeError"]
    raise KeyError(t)


def _raw_list_cv(x):
    if isinstance(x, list):
        if len(x) == 2 and isinstance(x[0], str) and x[0] in ("undefined", "object", "boolean", "number", "string", "function") and not isinstance(x[1], list):
            return G.cv_from_raw(x)
        return ["list", [_raw_list_cv(e) for e in x]]
    if isinstance(x, bool):
        return ["b", int(x)]
    if x is None:
        return ["u"]  # dump() of a typed array never holds null
    if isinstance(x, (int, float)):
        return G._num_cv(x)
    if isinstance(x, str):
        return ["s", x]
    return ["?", repr(x)[:60]]


def typed_script(cells):
    parts = [TYPED_PRELUDE, "var out = [];"]
    for c in cells:
        ctor = c["kind"]
        parts.append(
            "out.push((function(K) { try { return ['ok', (function() { %s })()]; } catch (e) { return ['throw', errName(e)]; } })(%s));"
            % (typed_cell_js(c), ctor if ctor != "ArrayBuffer" else "null")
        )
    parts.append("out")
    return "\n".join(parts)


def typed_nontrivial(c):
    if c["t"] == "store":
        x = spec_number(c["v"])
        return not (x == x and T.convert(c["kind"], x) == x and G.is_pspec(c["v"]) and c["v"][0] == "n")
    return c["t"] in ("subarray", "set", "ctorbuf", "index")


def eval_typed_batch(cells):
    st, val = run_eval(typed_script(cells), time_limit=20, alarm=60)
    if st == "ok" and isinstance(val, list) and len(val) == len(cells):
        raws = [("ok", v) for v in val]
    else:
        raws = []
        for c in cells:
            st1, v1 = run_eval(typed_script([c]), time_limit=5, alarm=15)
            raws.append(("ok", v1[0]) if (st1 == "ok" and isinstance(v1, list) and len(v1) == 1) else ("exc", v1 if st1 != "ok" else ["BADSHAPE", repr(v1)[:60]]))
    out = []
    for c, (st, raw) in zip(cells, raws):
        exp = typed_cell_expected(c)
        if st != "ok":
            act = ["exception", raw[0], raw[1]]
        elif raw[0] == "throw":
            act = ["throw", raw[1]]
        else:
            act = ["ok", _raw_list_cv(raw[1])]
        out.append((exp, act))
    return out


def typed_diff(exp, act):
    if act[0] == "exception":
        return "exc:%s" % act[1]
    if exp[0] != act[0]:
        return "%s-instead-of-%s" % (act[0], exp[0])
    if exp[0] == "throw":
        return "error-class"
    return "value"


def run_typed_cells(chk, guards, tmethods):
    cells = typed_cells(tmethods)
    if chk.tier == "quick":
        rnd = random.Random(core.shard_seed(chk.seed, ID, "typedsample"))
        cells = [c for c in cells if c["t"] not in ("ctorbuf", "subarray", "set") or rnd.random() < 0.25]
    batches = pool.chunks(cells, 60)
    for batch, rb in zip(batches, pool.run(eval_typed_batch, batches, timeout=300)):
        if isinstance(rb, (pool.HANG, pool.CRASH)):
            raise engine.HarnessError("C17 typed batch %r" % rb)
        for c, (exp, act) in zip(batch, rb):
            chk.count()
            chk.classify("typed " + c["t"])
            if typed_nontrivial(c):
                chk.nontrivial(c["key"])
            case = {"kind": "typed", "cell": {k: v for k, v in c.items() if k != "key"}}
            sub = c.get("form") or c.get("base") or ""
            ok = chk.cell(c["key"], exp, act, case, sub="typed", signature="typed|%s|%s|%s" % (c["t"], sub, typed_diff(exp, act)))
            if ok and typed_nontrivial(c):
                chk.sample({"cell": c["key"], "expected": exp, "actual": act}, cls="typed " + c["t"], per_class=1, total=24)


# ---- (c) part 3: write/read sequences through several views of one buffer
SEQ_BYTES = 24
SEQ_VALUES = [num(x) for x in (0, 1, -1, 2, 127, 128, 255, 256, 257, -128, -129, 65535, 65536, 1.5, 2.5, -1.5, 0.1, 1e10, 2 ** 31, 2 ** 32 + 5, -2 ** 31 - 1,
                               3e38, 1e39, -0.0, 5e-324, 16777217)] + [NAN, PINF, NINF, sstr("7"), TRUE, L, U]


def seq_js(seq):
    lines = [TYPED_PRELUDE, "var B = new ArrayBuffer(%d); var U8 = new Uint8Array(B); var out = [];" % SEQ_BYTES,
             "function op(f) { try { out.push(['ok', f()]); } catch (e) { out.push(['throw', errName(e)]); } }",
             "var v = [%s];" % ", ".join("new %s(B, %d, %d)" % (k, o, n) for k, o, n in seq["views"])]
    for o in seq["ops"]:
        t = o[0]
        if t == "w":
            body = "v[%d][%s] = %s; return 0;" % (o[1], spec_js(o[2]), spec_js(o[3]))
        elif t == "r":
            body = "return tv(v[%d][%s]);" % (o[1], spec_js(o[2]))
        elif t == "set":
            src = o[2]
            if src[0] == "arr":
                sj = "[" + ", ".join(spec_js(x) for x in src[1]) + "]"
            elif src[0] == "view":
                sj = "v[%d]" % src[1]
            else:
                sj = "v[%d].subarray(%s)" % (src[1], _args_js(src[2], src[3]))
            body = "v[%d].set(%s%s); return 0;" % (o[1], sj, "" if o[3] is None else ", " + spec_js(o[3]))
        elif t == "subw":
            body = "var s = v[%d].subarray(%s); s[%s] = %s; return [s.length, dump(s)];" % (o[1], _args_js(o[2], o[3]), spec_js(o[4]), spec_js(o[5]))
        elif t == "fill":
            body = "v[%d].fill(%s); return 0;" % (o[1], _args_js(o[2], o[3], o[4]))
        else:
            raise KeyError(t)
        lines.append("op(function() { %s });" % body)
    lines.append("op(function() { return [dump(v[0]), dump(v[1]), dump(v[2]), dump(U8)]; });")
    lines.append("out")
    return "\n".join(lines)


def _idx_of(spec):
    """integer index a numeric key spec denotes (None = not a valid index)."""
    key = spec_model(spec)
    ks = key if isinstance(key, str) else P.to_string(key)
    if ks == "-0" or P.to_string(P.to_number(ks)) != ks:
        return None
    return T.canonical_index(P.to_number(ks))


def _any_cv(x):
    return ["any"] if x is T.UNKNOWN else ncv(x)


def seq_expected(seq):
    buf = T.new_buffer(float(SEQ_BYTES))
    views = [T.new_ta_buffer(k, buf, float(o), float(n)) for k, o, n in seq["views"]]
    u8 = T.new_ta_buffer("Uint8Array", buf, 0.0, float(SEQ_BYTES))
    out = []
    for o in seq["ops"]:
        t = o[0]
        try:
            if t == "w":
                i = _idx_of(o[2])
                x = spec_number(o[3])
                if i is not None:
                    views[o[1]].set(i, x)
                out.append(["ok", ncv(0.0)])
            elif t == "r":
                i = _idx_of(o[2])
                out.append(["ok", _any_cv(views[o[1]].get(i) if i is not None else None)])
            elif t == "set":
                src = o[2]
                if src[0] == "arr":
                    vals = [spec_number(x) for x in src[1]]
                elif src[0] == "view":
                    vals = views[src[1]].values()
                else:
                    vals = views[src[1]].subarray(_tonum_or_none(src[2]), _tonum_or_none(src[3])).values()
                if any(x is T.UNKNOWN for x in vals):
                    vals = [math.nan if x is T.UNKNOWN else x for x in vals]  # bytes of a NaN read as another type: value unknown
                    views[o[1]].set_from(vals, _tonum_or_none(o[3]))
                    raise _Unjudged()
                views[o[1]].set_from(vals, _tonum_or_none(o[3]))
                out.append(["ok", ncv(0.0)])
            elif t == "subw":
                s_ = views[o[1]].subarray(_tonum_or_none(o[2]), _tonum_or_none(o[3]))
                i = _idx_of(o[4])
                if i is not None:
                    s_.set(i, spec_number(o[5]))
                out.append(["ok", ["list", [ncv(float(s_.length)), ["list", [_any_cv(x) for x in s_.values()]]]]])
            elif t == "fill":
                views[o[1]].fill(spec_number(o[2]), _tonum_or_none(o[3]), _tonum_or_none(o[4]))
                out.append(["ok", ncv(0.0)])
        except T.RangeErr:
            out.append(["throw", "RangeError"])
    out.append(["ok", ["list", [["list", [_any_cv(x) for x in v.values()]] for v in views + [u8]]]])
    return out


class _Unjudged(Exception):
    """The sequence copied bytes of a NaN through a view of another type: the
    outcome depends on the implementation-defined NaN payload."""


def cv_match(exp, act):
    """Equality where ["any"] in the expectation accepts any number."""
    if exp == ["any"]:
        return isinstance(act, list) and len(act) == 2 and act[0] == "n"
    if isinstance(exp, list) and isinstance(act, list) and len(exp) == len(act) and exp and exp[0] in ("list", "ok"):
        if exp[0] != act[0]:
            return False
        if exp[0] == "list":
            return len(exp[1]) == len(act[1]) and all(cv_match(e, a) for e, a in zip(exp[1], act[1]))
        return cv_match(exp[1], act[1])
    return exp == act


def seq_run(seq):
    """-> (expected, actual) in canonical form; expected None when unjudged."""
    try:
        exp = seq_expected(seq)
    except _Unjudged:
        return None, None
    st, val = run_eval(seq_js(seq), time_limit=10, alarm=30)
    if st != "ok":
        return exp, ["exception", val[0], val[1]]
    try:
        act = [["throw", r[1]] if r[0] == "throw" else ["ok", _raw_list_cv(r[1])] for r in val]
    except Exception:
        act = ["?", repr(val)[:200]]
    return exp, act


def seq_fails(seq):
    exp, act = seq_run(seq)
    if exp is None:
        return None
    if isinstance(act, list) and len(act) == len(exp) and all(cv_match(e, a) for e, a in zip(exp, act)):
        return None
    if act and act[0] == "exception":
        kind = "exc:%s" % act[1]
        i = len(seq["ops"])
    else:
        i = next((j for j, (e, a) in enumerate(zip(exp, act)) if not cv_match(e, a)), len(exp) - 1) if isinstance(act, list) and act and act[0] != "?" else 0
        kind = "final-dump" if i >= len(seq["ops"]) else seq["ops"][i][0]
        if i < len(exp) and isinstance(act, list) and i < len(act) and isinstance(act[i], list) and act[i] and exp[i][0] != act[i][0]:
            kind += ":%s-instead-of-%s" % (act[i][0], exp[i][0])
    return {"signature": "seq|%s" % kind, "expected": exp, "actual": act}


def seq_shrink(seq):
    """ddmin over the operations (drop one at a time while it still fails the same way)."""
    f = seq_fails(seq)
    changed = True
    while changed and f:
        changed = False
        for i in range(len(seq["ops"]) - 1, -1, -1):
            cand = {"views": seq["views"], "ops": seq["ops"][:i] + seq["ops"][i + 1:]}
            g = seq_fails(cand)
            if g and g["signature"] == f["signature"]:
                seq, f, changed = cand, g, True
    return seq, f


def seq_overlap(seq):
    spans = [(o, o + n * T.size_of(k)) for k, o, n in seq["views"]]
    return any(a[0] < b[1] and b[0] < a[1] for i, a in enumerate(spans) for b in spans[i + 1:])


def eval_seq_batch(seqs):
    out = []
    for seq in seqs:
        f = seq_fails(seq)
        if f:
            seq2, f2 = seq_shrink(seq)
            out.append({"seq": seq2, "fail": f2 or f})
        else:
            out.append(None)
    return out


def gen_seqs(seed, n, tmethods):
    import hypothesis
    from hypothesis import strategies as st, settings, HealthCheck

    kinds = st.sampled_from(T.KIND_NAMES)

    @st.composite
    def view(draw):
        k = draw(kinds)
        size = T.size_of(k)
        off = draw(st.integers(0, SEQ_BYTES // size - 1)) * size
        ln = draw(st.integers(1, (SEQ_BYTES - off) // size))
        return [k, off, ln]

    val = st.sampled_from(SEQ_VALUES)
    vi = st.integers(0, 2)
    idx = st.one_of(st.integers(0, 7).map(num), st.integers(0, 3).map(num), st.sampled_from([num(-1), num(24), num(1.5), sstr("1"), num(-0.0)]))
    rel = st.one_of(st.none(), st.integers(-3, 8).map(num), st.sampled_from([U, NAN, PINF, num(1.5)]))
    ops = [st.tuples(st.just("w"), vi, idx, val).map(list), st.tuples(st.just("r"), vi, idx).map(list)]
    if "set" in tmethods:
        src = st.one_of(st.lists(val, max_size=4).map(lambda xs: ["arr", xs]), vi.map(lambda j: ["view", j]))
        if "subarray" in tmethods:
            src = st.one_of(src, st.tuples(st.just("sub"), vi, st.integers(0, 3).map(num), st.integers(0, 6).map(num)).map(list))
        off = st.one_of(st.none(), st.integers(0, 6).map(num), st.sampled_from([num(-1), NAN, num(1.5), U]))
        ops.append(st.tuples(st.just("set"), vi, src, off).map(list))
    if "subarray" in tmethods:
        ops.append(st.tuples(st.just("subw"), vi, rel, rel, idx, val).map(list).filter(lambda o: not (o[2] is None and o[3] is not None)))
    if "fill" in tmethods:
        ops.append(st.tuples(st.just("fill"), vi, val, rel, rel).map(list).filter(lambda o: not (o[3] is None and o[4] is not None)))
    seq = st.fixed_dictionaries({"views": st.lists(view(), min_size=3, max_size=3), "ops": st.lists(st.one_of(ops), min_size=1, max_size=12)})
    got = []

    @hypothesis.seed(seed)
    @settings(max_examples=n, database=None, deadline=None, derandomize=False, phases=[hypothesis.Phase.generate],
              suppress_health_check=[HealthCheck.too_slow, HealthCheck.data_too_large])
    @hypothesis.given(seq)
    def collect(s_):
        got.append(s_)

    collect()
    return got


def overlap_seqs(tmethods):
    """Directed sequences: the buffer holds distinct bytes, then one view is copied into a view of every
    other kind over the same bytes (different element sizes, source before / at / behind the target)."""
    if "set" not in tmethods:
        return []
    out = []
    init = [["w", 2, num(i), num(i + 1)] for i in range(SEQ_BYTES)]
    for tk in T.KIND_NAMES:
        ts = T.size_of(tk)
        for sk in T.KIND_NAMES:
            ss = T.size_of(sk)
            for toff, soff in ((0, 0), (0, ss), (ts, 0), (8, 8 + ss), (8, 0)):
                if toff % ts or soff % ss:
                    continue
                tlen = min(4, (SEQ_BYTES - toff) // ts)
                for slen in (2, 3):
                    if soff + slen * ss > SEQ_BYTES or slen > tlen:
                        continue
                    for off in (None, num(1)):
                        if (1 if off else 0) + slen > tlen:
                            continue
                        out.append({"views": [[tk, toff, tlen], [sk, soff, slen], ["Uint8Array", 0, SEQ_BYTES]], "ops": init + [["set", 0, ["view", 1], off]], "directed": 1})
    return out


def run_typed_seqs(chk, guards, tmethods):
    n = 400 if chk.tier == "quick" else 2000
    seqs = gen_seqs(core.shard_seed(chk.seed, ID, "seqs"), n, tmethods)
    directed = overlap_seqs(tmethods)
    chk.extra["directed_overlap_sequences"] = len(directed)
    seqs = directed + seqs
    batches = pool.chunks(seqs, 25)
    for batch, rb in zip(batches, pool.run(eval_seq_batch, batches, timeout=600)):
        if isinstance(rb, (pool.HANG, pool.CRASH)):
            raise engine.HarnessError("C17 sequence batch %r" % rb)
        for seq, r in zip(batch, rb):
            chk.count()
            chk.classify("seq views %s" % ("overlap" if seq_overlap(seq) else "disjoint"))
            if seq_overlap(seq):
                chk.nontrivial("seq|" + core.jdump(seq))
            if r:
                chk.violation(r["fail"]["signature"], {"kind": "seq", "seq": r["seq"]}, r["fail"]["expected"], r["fail"]["actual"], sub="seq")
            elif seq_overlap(seq):
                chk.sample({"sequence": seq, "verdict": "agrees with the byte model"}, cls="seq", per_class=2, total=30)


def validate_seqs_with_node(node_run):
    seqs = gen_seqs(12345, 1500, sorted(TYPED_MODELLED))
    outs = node_run([seq_js(q) for q in seqs])
    dis, n, v8 = [], 0, 0
    for q, o in zip(seqs, outs):
        try:
            exp = seq_expected(q)
        except _Unjudged:
            continue
        n += 1
        if o[0] != "ok":
            act = ["exception", o[1], o[2]]
        else:
            act = [["throw", r[1]] if r[0] == "throw" else ["ok", _raw_list_cv(r[1])] for r in o[1]]
        if not (len(act) == len(exp) and all(cv_match(e, a) for e, a in zip(exp, act))):
            if any(o[0] == "fill" and o[3] == U and o[4] is not None for o in q["ops"]):
                v8 += 1  # V8 20 ignores `end` of %TypedArray%.prototype.fill(v, undefined, end); ES 23.2.3.9 honours it
                continue
            dis.append({"seq": q, "model": exp, "node": act})
    return {"cases": n, "disagreements": len(dis), "examples": dis[:10],
            "explained_v8_deviation_fill_undefined_start": v8}


def validate_typed_with_node(node_run):
    """Development-time only (tools/c17_validate.py): the typed-array cells
    and sequences in node versus oracles/typedref.py."""
    tm = sorted(TYPED_MODELLED)
    cells = typed_cells(tm)
    dis, n = [], 0
    for batch in pool.chunks(cells, 300):
        outs = node_run([typed_script([c]) for c in batch])
        for c, o in zip(batch, outs):
            n += 1
            exp = typed_cell_expected(c)
            if o[0] != "ok":
                act = ["exception", o[1], o[2]]
            else:
                raw = o[1][0]
                act = ["throw", raw[1]] if raw[0] == "throw" else ["ok", _raw_list_cv(raw[1])]
            if act != exp:
                dis.append({"cell": c["key"], "model": exp, "node": act})
    rep = {"cases": n, "disagreements": len(dis), "examples": dis[:40]}
    seqs = globals().get("validate_seqs_with_node")
    if seqs:
        rep["sequences"] = seqs(node_run)
        rep["disagreements"] += rep["sequences"]["disagreements"]
    return rep


# ====================================================================== main
def main(chk):
    chk.rule = (
        "(a) grid cell = (method, receiver, argument vector); non-trivial when an argument is out of range, not an "
        "integer, not a number, or the callback mutates the receiver / throws; (b) a history is non-trivial when it "
        "holds an alias and >= 3 mutating steps; (c) a typed-array cell is non-trivial when the stored value lies "
        "outside the element type's range (or is not an integer for integer kinds), a sequence when two views overlap"
    )
    chk.assumptions = [
        "oracles/arrref.py transcribes ES2023 Array.prototype on dense arrays; where ECMAScript would leave holes (map with a shrinking callback) the documented substitute `undefined` is expected",
        "oracles/typedref.py: little-endian buffers, canonical NaN not observed through other views",
        "stricter mode (spec.md): a[length]=v appends, a[length+k]=v must throw a catchable error and change nothing; a[-1], a[1.5], a['x'] may either throw or create an ordinary property, never touch elements",
        "sort is judged by a validity predicate (permutation, undefined last, ordered and stable for consistent comparators)",
    ]
    known_repros = {os.path.basename(e.get("repro") or "") for e in chk.findings if e.get("status") == "known"}
    for path, rec in core.saved_replays(ID):
        if os.path.basename(path) in known_repros:
            continue  # the repro of a known finding decides its guard (active_guards)
        r = replay(rec)
        chk.count()
        if r["fails"]:
            chk.violation("saved-replay|" + os.path.basename(path), rec.get("case"), r["expected"], r["actual"], sub="replay")
    guards = active_guards(chk)
    chk.extra["active_guards"] = sorted(guards)
    import time

    t0 = time.time()
    methods = run_grid(chk, guards)
    chk.extra["grid_cases"], n0 = chk.evaluations, chk.evaluations
    t1 = time.time()
    run_assign(chk, guards)
    chk.extra["assign_cells"], n0 = chk.evaluations - n0, chk.evaluations
    t2 = time.time()
    run_hist(chk, guards, methods)
    chk.extra["history_steps"], n0 = chk.evaluations - n0, chk.evaluations
    t3 = time.time()
    tmethods = discover(TYPED_VOCAB, "new Uint8Array(1)")
    chk.extra["typed_array_methods"] = tmethods
    chk.extra["unmodelled_typed_array_methods"] = [m for m in tmethods if m not in TYPED_MODELLED]
    run_typed_cells(chk, guards, tmethods)
    chk.extra["typed_cells"], n0 = chk.evaluations - n0, chk.evaluations
    run_typed_seqs(chk, guards, tmethods)
    chk.extra["typed_sequences"], n0 = chk.evaluations - n0, chk.evaluations
    t4 = time.time()
    chk.extra["wall_parts_s"] = {"grid": round(t1 - t0, 1), "assign": round(t2 - t1, 1), "hist": round(t3 - t2, 1), "typed": round(t4 - t3, 1)}
    chk.exhaustive = False


def replay(rec):
    case = rec["case"]
    kind = case.get("kind")
    if kind == "grid":
        r = eval_grid_batch([case["case"]])
        if r["bad"]:
            _, _, exp, act, _ = r["bad"][0]
            return {"fails": True, "expected": exp, "actual": act}
        return {"fails": False, "expected": None, "actual": None}
    if kind == "seq":
        f = seq_fails(case["seq"])
        if f:
            return {"fails": True, "expected": f["expected"], "actual": f["actual"]}
        return {"fails": False, "expected": None, "actual": None}
    if kind == "typed":
        exp, act = eval_typed_batch([case["cell"]])[0]
        return {"fails": exp != act, "expected": exp, "actual": act}
    if kind == "hist":
        f, _ = run_history(case["steps"])
        if f:
            return {"fails": True, "expected": f["expected"], "actual": f["actual"]}
        return {"fails": False, "expected": None, "actual": None}
    raise engine.HarnessError("unknown replay kind %r" % kind)
