"""Engine-side runner for IR programs and comparison with the reference
interpreter.  Shared by C05 / C07 / C08.

    src = progs.to_js(prog)
    got = run_engine(src)                 # {"log": [[tag, N]...], "result": [...]}
    exp = run_ref(prog)                   # same shape, or {"unmodelled": ...}
    diff = compare(exp, got)              # None when equal, else (kind, detail)

The engine is driven through its public API only: Context(time_limit=...),
eval(), and one exposed host function `log(tag, value)`.  Values handed to the
host function are normalised (N, see oracles/refjs.py) with what README.md
documents about them: primitives arrive as Python values, arrays as objects
with `._elements`, objects with `.keys()` / `.get()`.
"""
from oracles import refjs
from vf import engine, pool

MAX_LOG = 5000


def norm_host(v, depth=0):
    """N of a raw value received by an exposed host function."""
    if v is None:
        return ["py-none"]
    if v is True:
        return ["b", 1]
    if v is False:
        return ["b", 0]
    if isinstance(v, (int, float)):
        t = engine.tv(v)
        return ["n", t[1]] if t[0] == "n" else t
    if isinstance(v, str):
        return ["s", v]
    tn = type(v).__name__
    if tn == "JSUndefined":
        return ["u"]
    if tn == "JSNull":
        return ["null"]
    if depth > 4:
        return ["deep"]
    if hasattr(v, "_elements") and tn == "JSArray":
        return ["a", [norm_host(x, depth + 1) for x in v._elements]]
    if tn == "JSFunction" or (callable(v) and not hasattr(v, "_properties")):
        return ["fn"]
    if hasattr(v, "keys") and hasattr(v, "get") and tn in ("JSObject", "JSCallableObject"):
        if tn == "JSCallableObject":
            return ["fn"]
        out = []
        getters = getattr(v, "_getters", None) or {}
        setters = getattr(v, "_setters", None) or {}
        for k in v.keys():
            if k in getters or k in setters:
                continue
            out.append([str(k), norm_host(v.get(k), depth + 1)])
        return ["o", out]
    return ["py", type(v).__module__ + "." + tn]


def tv_to_n(t):
    """vf.engine.tv rendering of an eval() result -> N (undefined and null are
    one value at this boundary: ["nil"])."""
    k = t[0]
    if k == "a":
        return ["a", [tv_to_n(x) for x in t[1]]]
    if k == "o":
        return ["o", [[kk, tv_to_n(x)] for kk, x in t[1]]]
    return t


def n_for_result(n):
    """N of the reference's completion value as the eval() boundary shows it."""
    k = n[0]
    if k in ("u", "null"):
        return ["nil"]
    if k == "a":
        return ["a", [n_for_result(x) for x in n[1]]]
    if k == "o":
        return ["o", [[kk, n_for_result(x)] for kk, x in n[1]]]
    return n


def run_engine(src, time_limit=3.0, cpu_seconds=12, memory_limit=None):
    m = engine.load()
    log = []

    def host_log(*a):
        if len(log) < MAX_LOG:
            tag = a[0] if a else None
            log.append([tag if isinstance(tag, str) else repr(tag), norm_host(a[1]) if len(a) > 1 else ["u"]])

    ctx = m.Context(time_limit=time_limit, memory_limit=memory_limit)
    ctx.set("log", host_log)
    try:
        with pool.cpu_alarm(cpu_seconds):
            r = ctx.eval(src)
        result = ["value", tv_to_n(engine.tv(r))]
    except pool.HarnessTimeout:
        result = ["exception", "HANG", ""]
    except m.JSError as e:
        cls = type(e).__name__
        if cls in ("TimeLimitError", "MemoryLimitError", "JSSyntaxError"):
            result = ["exception", cls, str(getattr(e, "message", e))[:120]]
        else:
            result = ["throw", {"name": getattr(e, "name", None), "message": getattr(e, "message", None)}]
    except RecursionError as e:
        result = ["exception", "RecursionError", ""]
    except Exception as e:  # foreign exception: a finding of its own (C04), a mismatch here
        info = engine.exc_info(e)
        result = ["exception", info["cls"], (info["message"] or "")[:120], info["frame"]]
    return {"log": log, "result": result}


def run_ref(prog, step_limit=200000):
    try:
        out = refjs.run(prog, step_limit=step_limit)
    except refjs.Budget as e:
        return {"unmodelled": "budget: %s" % e}
    except refjs.Unmodelled as e:
        return {"unmodelled": str(e)}
    res = out.result
    if res[0] == "value":
        res = ["value", n_for_result(res[1])]
    else:
        res = ["throw", res[1]]
    return {"log": [[t, v] for t, v in out.log], "result": res, "steps": out.steps}


def expected_message(desc):
    """What the uncaught-error message at the Python boundary has to say, or
    None when the text is implementation-defined (runtime errors)."""
    k = desc.get("kind")
    if k == "prim":
        v = desc["value"]
        if v[0] == "s":
            return v[1]
        if v[0] == "n":
            from oracles import prims as P

            return P.num_to_str(float(v[1]))
        return {"u": "undefined", "null": "null"}.get(v[0]) or ("true" if v[1] else "false")
    if k == "error":
        if desc.get("internal"):
            return None
        m = desc.get("message")
        if m and m[0] == "s" and m[1] != "":
            return m[1]
        return None
    return None


def compare(exp, got, check_message=True):
    """None when the engine outcome equals the reference outcome; otherwise
    (kind, detail) with a coarse kind for bucketing."""
    elog, glog = exp["log"], got["log"]
    if elog != glog:
        n = min(len(elog), len(glog))
        i = 0
        while i < n and elog[i] == glog[i]:
            i += 1
        if i == n:
            kind = "log-short" if len(glog) < len(elog) else "log-long"
            detail = {"at": i, "expected": elog[i] if i < len(elog) else None, "actual": glog[i] if i < len(glog) else None}
        else:
            kind = "log-value" if elog[i][0] == glog[i][0] else "log-order"
            detail = {"at": i, "expected": elog[i], "actual": glog[i]}
        detail["result"] = got["result"]
        return kind, detail
    er, gr = exp["result"], got["result"]
    if gr[0] == "exception":
        return "exception:" + str(gr[1]), {"expected": er, "actual": gr}
    if er[0] != gr[0]:
        return "outcome %s->%s" % (er[0], gr[0]), {"expected": er, "actual": gr}
    if er[0] == "value":
        if er[1] != gr[1]:
            return "completion", {"expected": er, "actual": gr}
        return None
    if check_message:
        want = expected_message(er[1])
        if want is not None and want != gr[1].get("message"):
            return "uncaught-message", {"expected": want, "actual": gr[1]}
    return None
