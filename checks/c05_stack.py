"""Static stack-balance verifier over the compiler's output (DESIGN C05).

Invariant oracle, fail-soft: it reads engine internals (microjs.parser.Parser,
microjs.compiler.Compiler, microjs.opcodes.OpCode, CompiledFunction.bytecode /
.constants).  Abstract interpretation of every compiled function computes the
operand-stack depth and the number of installed exception handlers at every
instruction; it reports

  * a join point reached with two different (operand depth, handler depth),
  * an operand-stack underflow,
  * a jump target that is not an instruction boundary inside the function,
  * RETURN / RETURN_UNDEFINED / falling off the end with a handler still installed.

calibrate() runs ten fixed programs known to be balanced; if one of them cannot
be decoded (unknown opcode, changed operand widths) or is flagged, the verifier
reports itself off and C05 says so in its evidence.
"""
from vf import engine

_W2 = ("JUMP", "JUMP_IF_FALSE", "JUMP_IF_TRUE", "TRY_START")
_W1 = (
    "LOAD_CONST", "LOAD_NAME", "STORE_NAME", "LOAD_LOCAL", "STORE_LOCAL", "LOAD_CLOSURE", "STORE_CLOSURE", "LOAD_CELL",
    "STORE_CELL", "CALL", "CALL_METHOD", "NEW", "BUILD_ARRAY", "BUILD_OBJECT", "BUILD_REGEX", "MAKE_CLOSURE", "TYPEOF_NAME",
)
# net effect on the operand stack, and how many operands must be present
_FIXED = {
    "POP": (-1, 1), "DUP": (1, 1), "DUP2": (2, 2), "SWAP": (0, 2), "ROT3": (0, 3), "ROT4": (0, 4),
    "LOAD_CONST": (1, 0), "LOAD_UNDEFINED": (1, 0), "LOAD_NULL": (1, 0), "LOAD_TRUE": (1, 0), "LOAD_FALSE": (1, 0),
    "LOAD_NAME": (1, 0), "LOAD_LOCAL": (1, 0), "LOAD_CLOSURE": (1, 0), "LOAD_CELL": (1, 0), "THIS": (1, 0), "TYPEOF_NAME": (1, 0),
    "BUILD_REGEX": (1, 0),
    "STORE_NAME": (0, 1), "STORE_LOCAL": (0, 1), "STORE_CLOSURE": (0, 1), "STORE_CELL": (0, 1),
    "GET_PROP": (-1, 2), "SET_PROP": (-2, 3), "DELETE_PROP": (-1, 2),
    "NEG": (0, 1), "POS": (0, 1), "NOT": (0, 1), "BNOT": (0, 1), "TYPEOF": (0, 1), "INC": (0, 1), "DEC": (0, 1),
    "POST_INC": (0, 1), "POST_DEC": (0, 1), "MAKE_CLOSURE": (0, 1), "CATCH": (0, 1),
    "FOR_IN_INIT": (0, 1), "FOR_OF_INIT": (0, 1),
}
for _b in ("ADD SUB MUL DIV MOD POW BAND BOR BXOR SHL SHR USHR LT LE GT GE EQ NE SEQ SNE INSTANCEOF IN").split():
    _FIXED[_b] = (-1, 2)

CALIBRATION = [
    "1 + 2 * 3",
    "var a = 1; var b = a + 2; b",
    "var i = 0; while (i < 3) { i = i + 1; } i",
    "function f(a, b) { return a + b; } f(1, 2)",
    "var o = {a: 1, b: [1, 2, 3]}; o.b[1] + o.a",
    "var s = 0; for (var i = 0; i < 3; i++) { if (i === 1) continue; s += i; } s",
    "var r = []; for (var k in {x: 1, y: 2}) { r.push(k); } r.length",
    "try { throw 1; } catch (e) { e + 1; } finally { 2; }",
    "switch (2) { case 1: 1; break; case 2: 2; default: 3; }",
    "var f = function (n) { return n <= 0 ? 0 : 1 + f(n - 1); }; var g = (x) => x * 2; g(f(3))",
]


class Off(Exception):
    """The verifier cannot decode this compiler's output."""


def compile_source(src):
    m = engine.load()
    from microjs.parser import Parser  # noqa: internals, fail-soft by the caller
    from microjs.compiler import Compiler

    return Compiler().compile(Parser(src).parse())


def _decode(code):
    from microjs.opcodes import OpCode

    ins = {}
    i = 0
    n = len(code)
    while i < n:
        try:
            name = OpCode(code[i]).name
        except ValueError:
            raise Off("unknown opcode byte %d" % code[i])
        if name in _W2:
            if i + 2 >= n:
                raise Off("truncated operand")
            ins[i] = (name, code[i + 1] | (code[i + 2] << 8), i + 3)
            i += 3
        elif name in _W1:
            if i + 1 >= n:
                raise Off("truncated operand")
            ins[i] = (name, code[i + 1], i + 2)
            i += 2
        else:
            ins[i] = (name, None, i + 1)
            i += 1
    return ins


def verify_function(fn):
    """-> list of problems (strings) for one CompiledFunction."""
    code = fn.bytecode
    ins = _decode(code)
    n = len(code)
    problems = []
    state = {}
    work = [(0, 0, 0)]

    def go(pc, depth, handlers, frm):
        if pc == n:
            if handlers:
                problems.append("end of code reached with %d handler(s) installed (from %d)" % (handlers, frm))
            return
        if pc not in ins:
            problems.append("jump from %d to %d: not an instruction boundary" % (frm, pc))
            return
        old = state.get(pc)
        if old is None:
            state[pc] = (depth, handlers)
            work.append((pc, depth, handlers))
        elif old != (depth, handlers):
            problems.append("join at %d: (depth, handlers) %r vs %r (from %d)" % (pc, old, (depth, handlers), frm))

    state[0] = (0, 0)
    while work and len(problems) < 5:
        pc, d, h = work.pop()
        name, arg, nxt = ins[pc]
        if name in _FIXED:
            eff, need = _FIXED[name]
            if d < need:
                problems.append("%s at %d needs %d operand(s), has %d" % (name, pc, need, d))
                continue
            go(nxt, d + eff, h, pc)
        elif name == "BUILD_ARRAY":
            if d < arg:
                problems.append("BUILD_ARRAY underflow at %d" % pc)
                continue
            go(nxt, d - arg + 1, h, pc)
        elif name == "BUILD_OBJECT":
            if d < 3 * arg:
                problems.append("BUILD_OBJECT underflow at %d" % pc)
                continue
            go(nxt, d - 3 * arg + 1, h, pc)
        elif name in ("CALL", "NEW"):
            if d < arg + 1:
                problems.append("%s underflow at %d" % (name, pc))
                continue
            go(nxt, d - arg, h, pc)
        elif name == "CALL_METHOD":
            if d < arg + 2:
                problems.append("CALL_METHOD underflow at %d" % pc)
                continue
            go(nxt, d - arg - 1, h, pc)
        elif name == "JUMP":
            go(arg, d, h, pc)
        elif name in ("JUMP_IF_FALSE", "JUMP_IF_TRUE"):
            if d < 1:
                problems.append("%s underflow at %d" % (name, pc))
                continue
            go(arg, d - 1, h, pc)
            go(nxt, d - 1, h, pc)
        elif name in ("FOR_IN_NEXT", "FOR_OF_NEXT"):
            # pushes (True) when done, (value, False) otherwise; always followed by JUMP_IF_TRUE
            if d < 1:
                problems.append("%s without iterator at %d" % (name, pc))
                continue
            j = ins.get(nxt)
            if j is None or j[0] != "JUMP_IF_TRUE":
                raise Off("%s not followed by JUMP_IF_TRUE" % name)
            state.setdefault(nxt, (d + 1, h))
            go(j[1], d, h, nxt)
            go(j[2], d + 1, h, nxt)
        elif name == "TRY_START":
            go(arg, d + 1, h, pc)  # handler entry: operands cut back to here, exception pushed
            go(nxt, d, h + 1, pc)
        elif name == "TRY_END":
            if h < 1:
                problems.append("TRY_END at %d without handler" % pc)
                continue
            go(nxt, d, h - 1, pc)
        elif name == "RETURN":
            if d < 1:
                problems.append("RETURN at %d with empty stack" % pc)
            if h:
                problems.append("RETURN at %d with %d handler(s) installed" % (pc, h))
        elif name == "RETURN_UNDEFINED":
            if h:
                problems.append("RETURN_UNDEFINED at %d with %d handler(s) installed" % (pc, h))
        elif name == "THROW":
            if d < 1:
                problems.append("THROW at %d with empty stack" % pc)
        else:
            raise Off("no stack effect known for %s" % name)
    return problems


def verify_source(src):
    """All problems of a program and its nested functions: [(function name, problem)]."""
    top = compile_source(src)
    out = []
    seen = set()
    stack = [top]
    while stack:
        f = stack.pop()
        if id(f) in seen:
            continue
        seen.add(id(f))
        for p in verify_function(f):
            out.append((f.name or "<anonymous>", p))
        for c in f.constants:
            if hasattr(c, "bytecode") and hasattr(c, "constants"):
                stack.append(c)
    return out


def calibrate():
    """None when the verifier can be trusted on this tree, else the reason it is off."""
    try:
        for src in CALIBRATION:
            pr = verify_source(src)
            if pr:
                return "calibration program flagged: %r -> %r" % (src, pr[:1])
    except Off as e:
        return "cannot decode: %s" % e
    except Exception as e:  # internals moved
        return "internals unavailable: %s: %s" % (type(e).__name__, e)
    return None
