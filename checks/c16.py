"""C16 - String methods follow ECMAScript for every argument shape.

(a) grid: the full product (implemented method) x (receiver grid) x (argument
    grid per position, all arities incl. one surplus argument), plus `length`,
    `s[key]`, `String(x)`, `String.fromCharCode`; many cells per engine script.
(b) random: Hypothesis-generated longer receivers / needles / positions.

Oracle: oracles/strref.py (transcription of ECMA-262 22.1, strings as UTF-16
code units).  Compared: typeof + value (typed, sign of zero, NaN), `index` /
`input` of match results, the receiver read back after the calls, and for
abrupt completions `e instanceof RangeError`, `e instanceof TypeError`, `e.name`.
A host exception escaping eval is a mismatch of that cell.
Case mapping: for strings with non-ASCII letters the ES result and the
ASCII-only result (documented restriction of the repository) are both accepted.
"""
import collections
import math
import os

from oracles import prims as P
from oracles import strref as R
from oracles.prims import UNDEF
from vf import core, engine, pool

INF = math.inf
NAN = math.nan
# development aid: one signature per argument shape (VERIF_C16_FINE=1)
FINE_SIGNATURES = bool(os.environ.get("VERIF_C16_FINE"))


# ------------------------------------------------------------------ arguments
class Arg:
    __slots__ = ("src", "value", "tag")

    def __init__(self, src, value, tag):
        self.src, self.value, self.tag = src, value, tag


def js_str(u):
    """JavaScript source for a unit string: surrogate *pairs* are written as the
    raw character, lone surrogates and control characters as escapes."""
    out = ['"']
    for ch in R.from_units(u):
        o = ord(ch)
        if ch == '"':
            out.append('\\"')
        elif ch == "\\":
            out.append("\\\\")
        elif ch == "\n":
            out.append("\\n")
        elif ch == "\r":
            out.append("\\r")
        elif ch == "\t":
            out.append("\\t")
        elif o < 0x20 or 0x7F <= o < 0xA0 or o in (0x2028, 0x2029, 0xFEFF, 0x00A0, 0x3000, 0x180E) or 0xD800 <= o <= 0xDFFF:
            out.append("\\u%04x" % o)
        else:
            out.append(ch)
    out.append('"')
    return "".join(out)


def num_tag(x, ln):
    if x != x:
        return "nan"
    if x in (INF, -INF):
        return "inf"
    if x == 0:
        return "negzero" if math.copysign(1, x) < 0 else "zero"
    if x < 0:
        return "neg"
    if not float(x).is_integer():
        return "frac"
    if x > ln:
        return "big" if x >= 2 ** 31 else "pastend"
    return "int"


def A_num(x, ln=0, src=None):
    return Arg(src or P.js_literal(float(x)), float(x), num_tag(float(x), ln))


def A_str(s, tag="str"):
    return Arg(js_str(s), s, tag)


A_UNDEF = Arg("undefined", UNDEF, "undef")
A_NULL = Arg("null", None, "null")
A_TRUE = Arg("true", True, "bool")
O_EMPTY_ARR = Arg("[]", R.ObjArg("[]", "", ""), "obj")
O_ARR1 = Arg("[1]", R.ObjArg("[1]", "1", "1"), "obj")
O_ARR12 = Arg("[1,2]", R.ObjArg("[1,2]", "1,2", "1,2"), "obj")
O_EMPTY_OBJ = Arg("{}", R.ObjArg("{}", "[object Object]", "[object Object]"), "obj")
O_VALUEOF = Arg("{valueOf:function(){return 1}}", R.ObjArg("{valueOf}", "[object Object]", 1.0), "obj")
O_TOSTRING_B = Arg('{toString:function(){return "b"}}', R.ObjArg("{toString b}", "b", "b"), "obj")
O_TOSTRING_2 = Arg("{toString:function(){return 2}}", R.ObjArg("{toString 2}", 2.0, 2.0), "obj")


def _dedupe(args):
    seen, out = set(), []
    for a in args:
        if a.src not in seen:
            seen.add(a.src)
            out.append(a)
    return out


def idx_grid(ln, huge=True):
    g = [A_UNDEF, A_NULL, A_num(NAN), A_num(-INF), A_num(-5), A_num(-1), A_num(-0.5), A_num(-0.0), A_num(0, ln),
         A_num(0.9, ln), A_num(1, ln), A_num(1.5, ln), A_num(2, ln, src="(4/2)"), A_num(2, ln),
         A_num(ln - 1, ln) if ln else A_num(3, ln), A_num(ln, ln), A_num(ln + 1, ln)]
    if huge:
        g += [A_num(2 ** 31), A_num(2 ** 32 + 1), A_num(INF)]
    g += [A_str("1", "numstr"), A_str("x"), A_TRUE, O_EMPTY_ARR, O_EMPTY_OBJ, O_ARR1, O_VALUEOF]
    return _dedupe(g)


def str_grid():
    return _dedupe([A_UNDEF, A_NULL, A_str(""), A_str("a"), A_str("b"), A_str("abc"), A_str("bc"), A_str("X"),
                    A_str("$&"), A_num(1), A_num(NAN), A_str("x"), A_str(" "), O_EMPTY_ARR, O_TOSTRING_B, O_ARR1])


def pat_grid():
    # patterns read as regular expressions: literal characters, '.', '^', '$' only
    return _dedupe([A_UNDEF, A_NULL, A_str(""), A_str("a"), A_str("b"), A_str("abc"), A_str("bc"), A_str("X"),
                    A_str("$&"), A_num(1), A_num(NAN), A_str("x"), A_str(" "), A_str("."), A_str("^a"), A_str("c$"),
                    O_EMPTY_ARR, O_TOSTRING_B, O_ARR1])


def repl_grid():
    return _dedupe([A_UNDEF, A_NULL, A_str(""), A_str("Z"), A_str("$&"), A_str("$$"), A_str("$`"), A_str("$'"),
                    A_str("$1"), A_str("$0"), A_str("$<n>"), A_str("$"), A_str("a$&b$$c$"), A_num(1), O_EMPTY_ARR,
                    O_TOSTRING_B,
                    # an escaped dollar directly in front of a character that would otherwise start a reference
                    A_str("$$&"), A_str("$$'"), A_str("$$`"), A_str("$$1"), A_str("$$$&"), A_str("$&$$&$'"), A_str("$$$$`")])


def pad_grid(ln):
    return _dedupe([A_UNDEF, A_NULL, A_num(NAN), A_num(-INF), A_num(-1), A_num(-0.0), A_num(0, ln), A_num(1, ln),
                    A_num(ln, ln), A_num(ln + 1, ln), A_num(ln + 2.5, ln), A_num(ln + 7, ln), A_str("9", "numstr"),
                    A_str("x"), A_TRUE, O_EMPTY_ARR, O_EMPTY_OBJ])


def key_grid(ln):
    return idx_grid(ln) + [A_str("01", "numstr"), A_str("1.0", "numstr"), A_str(" 1", "numstr"), A_str("-0", "numstr"),
                           A_str("1e0", "numstr"), A_str("+1", "numstr"), A_str("0x1", "numstr"), A_str("length"),
                           A_str(""), O_TOSTRING_2,
                           # digit strings that are not canonical indices: leading zeros only, decimal digits of other scripts
                           A_str("00", "numstr"), A_str("000", "numstr"), A_str("\u0661"), A_str("\uff12"), A_str("\u00b2"),
                           A_str("1\u0660"), A_str("\u0967"), A_str("0" * 30, "numstr"), A_str("1" * 30, "numstr")]


def ctor_grid():
    return _dedupe(idx_grid(3) + str_grid() + [A_num(1e21), A_num(1e-7), A_num(-1.5), A_num(123456789),
                                                 Arg("false", False, "bool"), O_ARR12, O_TOSTRING_2])


def fcc_grid():
    return _dedupe([A_UNDEF, A_NULL, A_num(NAN), A_num(INF), A_num(-INF), A_num(-1), A_num(-0.0), A_num(0), A_num(65),
                    A_num(65.9), A_num(0xD83D), A_num(0xDE00), A_num(0xFFFF), A_num(0x10000), A_num(0x10000 + 65),
                    A_num(2 ** 31), A_num(2 ** 32 + 65), A_num(-65536 + 66), A_num(1e21), A_str("66", "numstr"),
                    # negative non-integers: ToUint16 truncates towards zero before the modulo
                    A_num(-0.5), A_num(-65470.5), A_num(-1.5), A_num(-65535.9), A_str("-0.5", "numstr"), A_num(65536.5), A_num(-4294967295.5),
                    A_str("x"), A_TRUE, O_EMPTY_ARR, O_EMPTY_OBJ, O_ARR1, O_VALUEOF])


def fcc_small():
    return _dedupe([A_num(65), A_num(0xD83D), A_num(0xDE00), A_num(NAN), A_str("66", "numstr"), A_num(-1), A_num(-65470.5)])


# ------------------------------------------------------------------ receivers
RECEIVERS = [
    ("", "empty"), ("a", "one"), ("aaa", "repeated"), ("abc", "ascii"), ("abcabc", "repeated"),
    ("Hello World", "mixedcase"), ("  x \t\n", "ws"), (" x ", "ws"), ("\ufeffx", "ws"),
    ("\u00a0\u2028x\u3000\u2029", "ws"), ("\u001cx\u0085", "ws-python-only"), ("\u180ex\u200b", "ws-none"),
    ("0123456789", "digits"), ("aXbXc", "ascii"), ("\u00c0\u00c9\u00df", "nonascii-case"), ("\u0130i", "nonascii-case"),
    ("\u65e5\u672c\u8a9e", "nonascii"), ("a\u0000b", "nul"), ("x" * 50, "long"), ("xundefinednullNaN1", "ascii"),
    ("a$&b", "ascii"), ("x$'y$`z$$w$&", "ascii"), ("a\ud83db", "lone-surrogate"), (R.units("a\U0001F600b"), "nonbmp"),
]

# method -> grids per position (functions of the receiver length)
SIG = {
    "at": ["idx"], "charAt": ["idx"], "charCodeAt": ["idx"], "codePointAt": ["idx"],
    "concat": ["str", "str"],
    "endsWith": ["str", "idx"], "includes": ["str", "idx"], "indexOf": ["str", "idx"], "lastIndexOf": ["str", "idx"],
    "startsWith": ["str", "idx"],
    "match": ["pat"], "search": ["pat"],
    "padStart": ["pad", "str"], "padEnd": ["pad", "str"],
    "repeat": ["cnt"],
    "replace": ["str", "repl"], "replaceAll": ["str", "repl"],
    "slice": ["idx", "idx"], "substring": ["idx", "idx"], "substr": ["idx", "idx"],
    "split": ["str", "idx"],
    "toLowerCase": [], "toUpperCase": [], "toLocaleLowerCase": [], "toLocaleUpperCase": [], "toString": [],
    "valueOf": [], "trim": [], "trimStart": [], "trimEnd": [], "trimLeft": [], "trimRight": [],
    "isWellFormed": [], "toWellFormed": [],
}


def grid_for(spec, ln):
    """spec = grid name, or (grid name, step) for every step-th element."""
    if isinstance(spec, tuple):
        return grid_for(spec[0], ln)[::spec[1]]
    name = spec
    if name is None:
        return []
    if name == "idx":
        return idx_grid(ln)
    if name == "cnt":
        return idx_grid(ln)
    if name == "key":
        return key_grid(ln)
    if name == "ctor":
        return ctor_grid()
    if name == "fcc":
        return fcc_grid()
    if name == "fccs":
        return fcc_small()
    if name == "str":
        return str_grid()
    if name == "pat":
        return pat_grid()
    if name == "repl":
        return repl_grid()
    if name == "pad":
        return pad_grid(ln)
    raise KeyError(name)


# ---------------------------------------------------------------- worker side
CATCH = 'catch(e){out.push("throw");out.push([e instanceof RangeError,e instanceof TypeError,e.name]);%s}'


def call_expr(kind, method, argexprs):
    a = ", ".join(argexprs)
    if kind == "m":
        return "s.%s(%s)" % (method, a)
    if kind == "idx":
        return "s[%s]" % argexprs[0]
    if kind == "len":
        return "s.length"
    if kind == "String":
        return "String(%s)" % a
    if kind == "fcc":
        return "String.fromCharCode(%s)" % a
    if kind == "fcp":
        return "String.fromCodePoint(%s)" % a
    raise KeyError(kind)


def build_script(kind, method, recv_src, a_srcs, b_srcs, arity, extra):
    args = ["A[i]", "B[j]"][:arity] + ([extra] if extra else [])
    third = kind == "m" and method == "match"
    body = "try{r=%s;out.push(typeof r);out.push(r);%s}%s" % (
        call_expr(kind, method, args),
        "out.push((r===null||r===undefined)?null:[r.index,r.input]);" if third else "",
        CATCH % ("out.push(null);" if third else ""),
    )
    if arity >= 2:
        body = "for(var i=0;i<A.length;i++){for(var j=0;j<B.length;j++){%s}}" % body
    elif arity == 1:
        body = "for(var i=0;i<A.length;i++){%s}" % body
    return "(function(){var s=%s;var A=[%s];var B=[%s];var out=[];var r;\n%s\nout.push(s);return out;})()" % (
        recv_src, ", ".join(a_srcs), ", ".join(b_srcs), body), (3 if third else 2)


def etv(v):
    """engine.tv with strings converted to UTF-16 code units."""
    if isinstance(v, str):
        return ["s", R.stable(R.units(v))]
    if isinstance(v, list):
        return ["a", [etv(x) for x in v]]
    return engine.tv(v)


def render_row(row, width):
    """[typeof, value(, extra)] pushed by the script -> typed actual."""
    t, v = row[0], row[1]
    if t == "throw":
        if isinstance(v, list) and len(v) == 3:
            return ["throw", [1 if v[0] is True else 0, 1 if v[1] is True else 0, etv(v[2])]]
        return ["throw", etv(v)]
    if width == 3 and isinstance(row[2], list) and len(row[2]) == 2 and isinstance(v, list):
        return [t, ["m", etv(v), etv(row[2][0]), etv(row[2][1])]]
    return [t, etv(v)]


def exp_throw(name):
    return ["throw", [1 if name == "RangeError" else 0, 1 if name == "TypeError" else 0, ["s", name]]]


def run_block(spec, a_srcs, b_srcs):
    """Evaluate one script; on a host exception split it down to single cells.
    Returns (list of actuals in row-major order, list of receiver read-backs)."""
    kind, method, recv_src, arity, extra = spec
    m = engine.load()
    src, width = build_script(kind, method, recv_src, a_srcs, b_srcs, arity, extra)
    n = (len(a_srcs) if arity >= 1 else 1) * (len(b_srcs) if arity >= 2 else 1)
    err = None
    try:
        with pool.cpu_alarm(60):
            r = m.Context(time_limit=30).eval(src)
        if isinstance(r, list) and len(r) == n * width + 1:
            rows = [render_row(r[k * width:(k + 1) * width], width) for k in range(n)]
            return rows, [etv(r[-1])]
        err = ["exception", "BadShape", repr(r)[:60]]
    except pool.HarnessTimeout:
        err = ["exception", "HANG", ""]
    except MemoryError:
        err = ["exception", "MemoryError", ""]
    except Exception as e:  # host exception or uncaught JSError: both end the script
        info = engine.exc_info(e)
        err = ["exception", info["cls"], (info.get("message") or "")[:60]]
    if n == 1:
        return [err], []
    rows, backs = [], []
    if arity >= 1 and len(a_srcs) > 1:
        for a in a_srcs:
            r2, b2 = run_block(spec, [a], b_srcs)
            rows += r2
            backs += b2
    else:
        for b in b_srcs:
            r2, b2 = run_block(spec, a_srcs, [b])
            rows += r2
            backs += b2
    return rows, backs


def expected_of(kind, method, recv, argvals):
    """Accepted typed results (first = ECMAScript); raises R.Unsupported."""
    try:
        if kind == "m":
            vals = R.accepted(method, recv, argvals)
        elif kind == "idx":
            vals = [R.get_index(recv, argvals[0])]
        elif kind == "len":
            vals = [R.length(recv)]
        elif kind == "String":
            vals = [R.string_ctor(argvals)]
        elif kind == "fcc":
            vals = [R.from_char_code(argvals)]
        elif kind == "fcp":
            vals = [R.from_code_point(argvals)]
        else:
            raise KeyError(kind)
    except R.JSThrow as t:
        return [exp_throw(t.name)]
    return [R.tv(v) for v in vals]


def is_nontrivial(recv, args, sig_len):
    if len(args) < sig_len:
        return True
    ln = len(recv)
    for a in args:
        v = a.value
        if isinstance(v, float):
            if v != v or v < 0 or v > ln:
                return True
        elif not isinstance(v, str):
            return True
    return False


def diff_kind(exp, act):
    if act[0] == "exception":
        return "exc:" + str(act[1])
    if exp[0] == "throw" or act[0] == "throw":
        if exp[0] != act[0]:
            return "throw-vs-value"
        return "error-class"
    if exp[0] != act[0]:
        return "typeof %s->%s" % (exp[0], act[0])
    return "value"


def arg_shape(args, sig_len):
    tags = [a.tag for a in args] + ["missing"] * max(0, sig_len - len(args))
    return ",".join(tags)


def grid_task(task):
    """task = (kind, method, recv, rtag, grid spec A, grid spec B, arity, extra, siglen).
    (Grids are rebuilt here: the oracle's `undefined` is a singleton and must
    not travel through pickle.)  Runs the block and judges it."""
    kind, method, recv, rtag, ga, gb, arity, extra, siglen = task
    A, B = grid_for(ga, len(recv)), grid_for(gb, len(recv))
    recv_src = js_str(recv)
    extra_val = [_parse_literal(extra).value] if extra else []
    # cells the model does not cover (huge results) are not run
    cells = []
    a_list = A if arity >= 1 else [None]
    b_list = B if arity >= 2 else [None]
    skip_a = set()
    excluded = 0
    for a in a_list:
        for b in b_list:
            args = [x for x in (a, b) if x is not None]
            vals = [x.value for x in args] + extra_val
            try:
                exp = expected_of(kind, method, recv, vals)
            except R.Unsupported:
                exp = None
            cells.append((a, b, args, exp))
    # remove rows that contain an unsupported cell (keeps the block rectangular)
    for a, b, args, exp in cells:
        if exp is None:
            skip_a.add(a.src if a is not None else None)
    if skip_a:
        excluded = sum(1 for c in cells if (c[0].src if c[0] is not None else None) in skip_a)
        cells = [c for c in cells if (c[0].src if c[0] is not None else None) not in skip_a]
        a_list = [a for a in a_list if (a.src if a is not None else None) not in skip_a]
    out = {"n": 0, "nontrivial": [], "classes": collections.Counter(), "mismatch": [], "samples": [], "excluded": excluded}
    if not cells:
        return out
    spec = (kind, method, recv_src, arity, extra)
    rows, backs = run_block(spec, [a.src for a in a_list] if arity >= 1 else [], [b.src for b in b_list] if arity >= 2 else [])
    name = method if kind == "m" else kind
    for (a, b, args, exp), act in zip(cells, rows):
        key = "%s|%s|%s|%s%s" % (name, recv_src, a.src if a is not None else "-", b.src if b is not None else "-",
                                 "|+" + extra if extra else "")
        out["n"] += 1
        nt = is_nontrivial(recv, args, siglen) or bool(extra)
        if nt:
            out["nontrivial"].append(key)
        out["classes"][name] += 1
        out["classes"]["recv:" + rtag] += 1
        for a_ in args:
            out["classes"]["arg:" + a_.tag] += 1
        if len(args) < siglen:
            out["classes"]["arg:missing"] += 1
        case = {"kind": kind, "method": method, "recv": recv_src, "args": [x.src for x in args] + ([extra] if extra else []),
                "rtag": rtag}
        if act in exp:
            # one real case per full-arity block, taken from the middle of the block
            if nt and not out["samples"] and len(args) == siglen and out["n"] * 2 > len(cells):
                out["samples"].append({"cell": key, "expected": exp[0], "actual": act})
            continue
        case["shape"] = arg_shape(args, siglen)
        sig = "grid|%s|%s|%s" % (name, "nonbmp" if rtag == "nonbmp" else "bmp", diff_kind(exp[0], act))
        if FINE_SIGNATURES:
            sig += "|" + case["shape"]
        out["mismatch"].append((key, exp[0], act, case, sig))
    want = ["s", R.stable(recv)]
    for bk in backs:
        if bk != want:
            key = "%s|%s|readback" % (name, recv_src)
            out["mismatch"].append((key, want, bk, {"kind": kind, "method": method, "recv": recv_src, "readback": True},
                                    "grid|%s|receiver changed" % name))
            break
    return out


# ------------------------------------------------------------ discovering
def discover():
    """Implemented method list etc., asked from the engine at run time."""
    m = engine.load()
    names = R.VOCABULARY
    src = "var N=%s;var o=[];for(var i=0;i<N.length;i++){if(typeof \"\"[N[i]]==='function')o.push(N[i]);}" \
          "[o, typeof String, typeof String.fromCharCode, typeof String.fromCodePoint]" % (
              "[" + ",".join('"%s"' % n for n in names) + "]")
    with pool.cpu_alarm(20):
        r = m.Context(time_limit=10).eval(src)
    return {"methods": list(r[0]), "String": r[1] == "function", "fcc": r[2] == "function", "fcp": r[3] == "function"}


def grid_tasks(found):
    tasks = []
    for recv, rtag in RECEIVERS:
        ln = len(recv)
        for method in found["methods"]:
            if method not in SIG:
                continue
            sig = SIG[method]
            n = len(sig)
            tasks.append(("m", method, recv, rtag, None, None, 0, None, n))
            if n == 0:
                tasks.append(("m", method, recv, rtag, None, None, 0, "7", n))
            if n >= 1:
                tasks.append(("m", method, recv, rtag, sig[0], None, 1, None, n))
            if n == 1:
                tasks.append(("m", method, recv, rtag, (sig[0], 4), None, 1, "7", n))
            if n >= 2:
                tasks.append(("m", method, recv, rtag, sig[0], sig[1], 2, None, n))
                tasks.append(("m", method, recv, rtag, (sig[0], 5), (sig[1], 5), 2, "7", n))
            if method == "concat":
                tasks.append(("m", method, recv, rtag, (sig[0], 3), (sig[1], 3), 2, '"z"', n))
        tasks.append(("len", "length", recv, rtag, None, None, 0, None, 0))
        tasks.append(("idx", "[]", recv, rtag, "key", None, 1, None, 1))
    if found["String"]:
        tasks.append(("String", "String", "", "ctor", None, None, 0, None, 1))
        tasks.append(("String", "String", "", "ctor", "ctor", None, 1, None, 1))
        tasks.append(("String", "String", "", "ctor", ("ctor", 4), None, 1, "7", 1))
    for kind, ok in (("fcc", found["fcc"]), ("fcp", found["fcp"])):
        if ok:
            tasks.append((kind, kind, "", "ctor", None, None, 0, None, 1))
            tasks.append((kind, kind, "", "ctor", "fcc", None, 1, None, 1))
            tasks.append((kind, kind, "", "ctor", "fccs", "fccs", 2, None, 1))
            tasks.append((kind, kind, "", "ctor", "fccs", "fccs", 2, "67", 1))
    return tasks


def task_size(t):
    ln = len(t[2])
    return max(1, len(grid_for(t[4], ln))) * max(1, len(grid_for(t[5], ln)))


def merge(chk, res, sub):
    chk.count(res["n"])
    chk.nontrivial_many(res["nontrivial"])
    for k, v in res["classes"].items():
        chk.classify(k, v)
    if res.get("excluded"):
        chk.excluded["result larger than 2^24 code units (implementation-defined maximum, C01/C04 scope)"] += res["excluded"]
    for s in res["samples"]:
        # a deterministic 1/8 of the candidate samples, so that they spread over the receivers
        if int(core.h16(s["cell"])[:2], 16) % 8 == chk.seed % 8:
            chk.sample(s, cls=s["cell"].split("|")[0], per_class=2, total=30)
    for key, exp, act, case, sig in res["mismatch"]:
        chk.cell(key, exp, act, case, sub=sub, signature=sig)


def run_grid(chk, found):
    tasks = grid_tasks(found)
    # big blocks first (better packing)
    order = sorted(range(len(tasks)), key=lambda i: -task_size(tasks[i]))
    res = pool.run(grid_task, [tasks[i] for i in order], timeout=600)
    by_index = {}
    for i, r in zip(order, res):
        by_index[i] = r
    for i in range(len(tasks)):
        r = by_index[i]
        t = tasks[i]
        if isinstance(r, (pool.HANG, pool.CRASH)):
            chk.violation("grid|%s|worker %r" % (t[1], r), {"kind": t[0], "method": t[1], "recv": js_str(t[2])},
                          None, repr(r), sub="grid")
            continue
        merge(chk, r, "grid")


# ------------------------------------------------------------- random part
ALPHABET = list("abcABCXxz 019$.&-") + [
    "\t", "\n", "\u00a0", "\ufeff", "\u2028", "\u3000", "\u001c", "\u0085",  # ES / Python-only white space
    "\u00e9", "\u00df", "\u00c0", "\u0130", "\u65e5", "\u01c5", "\u03a3", "\u03c3", "\ufb01",  # case mapping
    "\u0000", "\ud83d", "\u180e",
]
SPECIAL_NUMS = [NAN, INF, -INF, -0.0, 0.0, 2.0 ** 31, 2.0 ** 32 + 1, -(2.0 ** 31), 1e21, 2.0 ** 53, 0.5, -0.5, 1e-7]
NON_NUM = [A_UNDEF, A_NULL, A_TRUE, Arg("false", False, "bool"), A_str("1", "numstr"), A_str("x"), A_str(" 2 ", "numstr"),
           A_str("", "numstr"), A_str("-1", "numstr"), A_str("Infinity", "numstr"), O_EMPTY_ARR, O_ARR1, O_VALUEOF]
NON_STR = [A_UNDEF, A_NULL, A_TRUE, A_num(1), A_num(NAN), A_num(-0.0), A_num(1.5), O_EMPTY_ARR, O_ARR1, O_TOSTRING_B]
REPLS = ["", "Z", "$&", "$$", "$`", "$'", "$1", "$01", "$<a>", "$", "[$&|$`|$']", "$$$&", "a$", "$$&", "$$'", "$$`", "$&$$&", "$$$$&$'", "$'$$`"]


def _random_cases(seed, n, methods, maxlen):
    import hypothesis
    from hypothesis import strategies as st, settings, HealthCheck

    ch = st.sampled_from(ALPHABET)
    recv_s = st.one_of(
        st.text(alphabet=ch, max_size=maxlen),
        st.text(alphabet=st.sampled_from(list("ab")), max_size=maxlen),
        st.tuples(st.text(alphabet=ch, min_size=1, max_size=4), st.integers(1, max(1, maxlen // 4))).map(lambda t: t[0] * t[1]),
        st.text(alphabet=st.characters(max_codepoint=0xFFFF, exclude_categories=["Cs"]), max_size=20),
    )
    num_s = st.one_of(
        st.tuples(st.sampled_from(["abs", "len"]), st.integers(-6, 6)),
        st.tuples(st.just("abs"), st.integers(-maxlen - 5, maxlen + 5)),
        st.tuples(st.just("flt"), st.floats(-70, 70, allow_nan=False)),
        st.tuples(st.just("spec"), st.sampled_from(SPECIAL_NUMS)),
        st.tuples(st.just("non"), st.integers(0, len(NON_NUM) - 1)),
    )
    needle_s = st.one_of(
        st.tuples(st.just("sub"), st.integers(0, 400), st.integers(0, 10)),
        # near misses: a substring of the receiver with its last character changed / one appended
        st.tuples(st.sampled_from(["miss", "ext"]), st.integers(0, 400), st.integers(1, 8)),
        st.tuples(st.just("txt"), st.text(alphabet=ch, max_size=4), st.just(0)),
        st.tuples(st.just("non"), st.integers(0, len(NON_STR) - 1), st.just(0)),
    )
    # arity: 0 = no argument, 1 = first argument only, >= 2 = every argument (3 for concat: both strings)
    case_s = st.tuples(st.sampled_from(methods), recv_s, st.sampled_from([0, 1, 1, 2, 2, 2, 3, 3]), num_s, num_s, needle_s, needle_s,
                       st.sampled_from(REPLS))
    raw = []

    @hypothesis.seed(seed)
    @settings(max_examples=n, database=None, deadline=None, derandomize=False,
              suppress_health_check=[HealthCheck.too_slow, HealthCheck.data_too_large],
              phases=[hypothesis.Phase.generate])
    @hypothesis.given(case_s)
    def collect(c):
        raw.append(c)

    collect()
    return raw


def _mk_num(spec, ln):
    k, v = spec
    if k == "abs":
        return A_num(v, ln)
    if k == "len":
        return A_num(ln + v, ln)
    if k in ("flt", "spec"):
        return A_num(v, ln)
    return NON_NUM[v]


def _mk_needle(spec, recv, for_pattern):
    k, a, b = spec
    if k in ("sub", "miss", "ext"):
        i = a % (len(recv) + 1)
        s = recv[i:i + b]
        if k == "miss" and s:
            s = s[:-1] + ("b" if s[-1] == "a" else "a")
        elif k == "ext":
            s = s + ("b" if recv[i + b:i + b + 1] == "a" else "a")
        arg = A_str(s)
    elif k == "txt":
        arg = A_str(a)
    else:
        arg = NON_STR[a]
    if for_pattern:
        v = arg.value
        if isinstance(v, str):
            if not R.pattern_supported(v):
                arg = A_str("".join(c if R.pattern_supported(c) else "a" for c in v))
        elif isinstance(v, R.ObjArg) or (isinstance(v, float) and not R.pattern_supported(P.to_string(v))):
            arg = A_str("b")
    return arg


def concretize(raw):
    """raw Hypothesis tuple -> (method, recv, [Arg...], siglen)"""
    method, recv, arity, n1, n2, s1, s2, repl = raw
    recv = R.units(recv)
    ln = len(recv)
    sig = SIG[method]
    args = []
    for pos, g in enumerate(sig):
        if g in ("idx", "pad"):
            a = _mk_num((n1, n2)[pos % 2], ln)
            if g == "pad" and isinstance(a.value, float) and a.value == a.value and a.value > ln + 64:
                a = A_num(ln + 3, ln)
        elif g == "cnt":
            a = _mk_num(n1, ln)
            v = R.to_number(a.value)
            if v == v and v != INF and v > 8:
                a = A_num(3, ln)
        elif g == "str":
            a = _mk_needle((s1, s2)[pos % 2], recv, False)
        elif g == "pat":
            a = _mk_needle(s1, recv, True)
        elif g == "repl":
            a = A_str(repl) if s2[0] != "non" else NON_STR[s2[1]]
        args.append(a)
    if method == "concat":
        keep = arity
    else:
        # arity >= 2: every argument; 0 / 1: no / only the first argument (1/8, 1/4 of the cases)
        keep = len(sig) if arity >= 2 else min(arity, len(sig))
    return method, recv, args[:keep], len(sig)


RAND_BATCH = 40


def run_random_cases(cases):
    """cases: list of (method, recv, [Arg]) -> list of typed actuals."""
    m = engine.load()
    parts = []
    for method, recv, args in cases:
        third = method == "match"
        parts.append("try{r=%s.%s(%s);out.push(typeof r);out.push(r);%s}%s" % (
            js_str(recv), method, ", ".join(a.src for a in args),
            "out.push((r===null||r===undefined)?null:[r.index,r.input]);" if third else "out.push(null);",
            CATCH % "out.push(null);"))
    src = "(function(){var out=[];var r;\n%s\nreturn out;})()" % "\n".join(parts)
    err = None
    try:
        with pool.cpu_alarm(60):
            r = m.Context(time_limit=30).eval(src)
        if isinstance(r, list) and len(r) == 3 * len(cases):
            return [render_row(r[3 * k:3 * k + 3], 3) for k in range(len(cases))]
        err = ["exception", "BadShape", repr(r)[:60]]
    except pool.HarnessTimeout:
        err = ["exception", "HANG", ""]
    except MemoryError:
        err = ["exception", "MemoryError", ""]
    except Exception as e:
        info = engine.exc_info(e)
        err = ["exception", info["cls"], (info.get("message") or "")[:60]]
    if len(cases) == 1:
        return [err]
    h = len(cases) // 2
    return run_random_cases(cases[:h]) + run_random_cases(cases[h:])


def _judge_random(method, recv, args):
    exp = expected_of("m", method, recv, [a.value for a in args])
    act = run_random_cases([(method, recv, args)])[0]
    return exp, act


def _shrink(method, recv, args, kind):
    """Greedy: shorter receiver with the same kind of difference (<= 60 re-runs)."""
    budget = 60
    cur = recv
    step = max(1, len(cur) // 2)
    while step >= 1 and budget > 0:
        i = 0
        progressed = False
        while i < len(cur) and budget > 0:
            cand = cur[:i] + cur[i + step:]
            budget -= 1
            try:
                exp, act = _judge_random(method, cand, args)
            except R.Unsupported:
                i += step
                continue
            if act not in exp and diff_kind(exp[0], act) == kind:
                cur = cand
                progressed = True
            else:
                i += step
        if not progressed:
            step //= 2
    return cur


def random_task(task):
    seed, n, methods, maxlen, guards = task
    raws = _random_cases(seed, n, methods, maxlen)
    out = {"n": 0, "nontrivial": [], "classes": collections.Counter(), "mismatch": [], "samples": [], "excluded": 0,
           "guarded": collections.Counter()}
    todo = []
    for raw in raws:
        method, recv, args, siglen = concretize(raw)
        g = guard_of(method, recv, args, guards)
        if g:
            out["guarded"][g] += 1
            continue
        try:
            exp = expected_of("m", method, recv, [a.value for a in args])
        except R.Unsupported:
            out["excluded"] += 1
            continue
        todo.append((method, recv, args, siglen, exp))
    seen_sig = set()
    for k in range(0, len(todo), RAND_BATCH):
        chunk = todo[k:k + RAND_BATCH]
        acts = run_random_cases([(c[0], c[1], c[2]) for c in chunk])
        for (method, recv, args, siglen, exp), act in zip(chunk, acts):
            out["n"] += 1
            key = "%s|%s|%s" % (method, js_str(recv), ",".join(a.src for a in args))
            if is_nontrivial(recv, args, siglen):
                out["nontrivial"].append(core.h16(key))
            out["classes"]["rnd " + method] += 1
            out["classes"]["rnd len %s" % ("0" if not recv else "1-7" if len(recv) < 8 else "8-31" if len(recv) < 32 else "32+")] += 1
            for a_ in args:
                out["classes"]["rnd arg:" + a_.tag] += 1
            if len(args) < siglen:
                out["classes"]["rnd arg:missing"] += 1
            if act in exp:
                if len(out["samples"]) < 1 and len(recv) > 8:
                    out["samples"].append({"cell": key, "expected": exp[0], "actual": act})
                continue
            kind = diff_kind(exp[0], act)
            sig = "random|%s|%s" % (method, kind)
            if FINE_SIGNATURES:
                sig += "|" + arg_shape(args, siglen)
            if sig not in seen_sig:
                seen_sig.add(sig)
                small = _shrink(method, recv, args, kind)
                if small != recv:
                    try:
                        e2, a2 = _judge_random(method, small, args)
                        if a2 not in e2:
                            recv, exp, act = small, e2, a2
                    except R.Unsupported:
                        pass
            case = {"kind": "m", "method": method, "recv": js_str(recv), "args": [a.src for a in args], "rtag": "random",
                    "shape": arg_shape(args, siglen)}
            out["mismatch"].append((None, exp[0], act, case, sig))
    return out


# narrow generator predicates for known findings recorded with a `guard`
def guard_of(method, recv, args, guards):
    for g in guards:
        if GUARDS[g](method, recv, args):
            return g
    return None


def _has_objarg(method, recv, args):
    return any(isinstance(a.value, R.ObjArg) for a in args)


GUARDS = {
    "c16.objarg": _has_objarg,
}


def run_random(chk, found):
    methods = [m for m in found["methods"] if m in SIG]
    if not methods:
        return
    if chk.tier == "quick":
        parts, per, maxlen = 16, 1500, 60
    else:
        parts, per, maxlen = 64, 8000, 300
    guards = sorted(g for g in GUARDS if chk.guard_listed(g))
    tasks = [(core.shard_seed(chk.seed, "C16", "rnd", p), per, methods, maxlen if p % 2 else max(8, maxlen // 5), guards)
             for p in range(parts)]
    res = pool.run(random_task, tasks, timeout=1500)
    for t, r in zip(tasks, res):
        if isinstance(r, (pool.HANG, pool.CRASH)):
            raise engine.HarnessError("C16 random part %r" % r)
        chk.count(r["n"])
        chk.nontrivial_many(r["nontrivial"])
        for k, v in r["classes"].items():
            chk.classify(k, v)
        for g, v in r["guarded"].items():
            chk.excluded[chk.guards[g]["id"]] += v
        if r["excluded"]:
            chk.excluded["result larger than 2^24 code units (implementation-defined maximum, C01/C04 scope)"] += r["excluded"]
        for s in r["samples"]:
            chk.sample(s, cls="rnd " + s["cell"].split("|")[0], per_class=1, total=40)
        for key, exp, act, case, sig in r["mismatch"]:
            chk.violation(sig, case, exp, act, sub="random")


# --------------------------------------------------------------------- main
def main(chk):
    chk.rule = (
        "a case is (method or accessor, receiver, argument tuple); non-trivial when at least one argument is missing, "
        "of non-number type, NaN, negative or greater than the receiver length (or a surplus argument is passed); "
        "distinct by (method, receiver spelling, argument spellings)"
    )
    chk.assumptions = [
        "oracles/strref.py transcribes ECMA-262 22.1 over UTF-16 code units (agreement with node 20 on the same grid: oracle_validation/strref.json)",
        "patterns given to match/search are strings made of literal characters, '.', '^', '$' (regex arguments: C20)",
        "case mapping of strings with non-ASCII letters: ES result or ASCII-only result accepted (spec.md restriction)",
        "results above 2^24 code units are not requested (implementation-defined maximum string length)",
        "eval() returns strings/numbers/arrays unchanged (C11 checks that separately)",
    ]
    for path, rec in core.saved_replays("C16"):
        r = replay(rec)
        chk.count()
        if r["fails"]:
            chk.violation("saved-replay|" + path, rec.get("case"), r["expected"], r["actual"], sub="replay")
    found = discover()
    chk.extra["implemented_methods"] = found["methods"]
    chk.extra["unmodelled_methods"] = [m for m in found["methods"] if m not in SIG]
    chk.extra["constructors"] = {k: found[k] for k in ("String", "fcc", "fcp")}
    if not found["methods"]:
        chk.violation("discover|no string method is implemented", {"src": 'typeof ""[name]'}, "some", [], sub="discover")
    # known findings recorded with a guard: active only while their repro still fails
    for g, e in list(chk.guards.items()):
        rep = e.get("repro")
        still = True
        if rep:
            try:
                still = replay(core.load_json(os.path.join(core.ROOT, rep)))["fails"]
            except Exception:
                still = True
        if still:
            chk.known_hit(e["id"], 1)
        else:
            del chk.guards[g]
    run_grid(chk, found)
    run_random(chk, found)
    chk.exhaustive = False


_ARGS_BY_SRC = None


def _arg_by_src(src):
    global _ARGS_BY_SRC
    if _ARGS_BY_SRC is None:
        d = {}
        pools = [str_grid(), pat_grid(), repl_grid(), ctor_grid(), fcc_grid(), NON_NUM, NON_STR,
                 [O_ARR12, O_TOSTRING_2, O_TOSTRING_B, O_VALUEOF, O_ARR1, O_EMPTY_OBJ, O_EMPTY_ARR]]
        for ln in (0, 3):
            pools += [idx_grid(ln), key_grid(ln), pad_grid(ln)]
        for g in pools:
            for a in g:
                d[a.src] = a
        _ARGS_BY_SRC = d
    if src in _ARGS_BY_SRC:
        return _ARGS_BY_SRC[src]
    return _parse_literal(src)


def _parse_literal(src):
    """Inverse of js_str / P.js_literal for replay files."""
    s = src.strip()
    if s.startswith('"'):
        import json

        body = s
        try:
            val = json.loads(body)
        except ValueError:
            val = body[1:-1].encode("utf-8").decode("unicode_escape")
        return A_str(R.units(val))
    t = s.strip("()")
    if t == "4/2":
        return A_num(2.0, src=s)
    if t.startswith("-"):
        inner = t[1:].strip("()")
        v = -float({"Infinity": "inf"}.get(inner, inner))
    else:
        v = float({"Infinity": "inf", "NaN": "nan"}.get(t, t))
    return Arg(s, v, num_tag(v, 0))


def replay(rec):
    case = rec["case"]
    kind, method = case["kind"], case["method"]
    if case.get("readback"):
        recv = _parse_literal(case["recv"]).value
        spec = (kind, method, case["recv"], 0, None)
        rows, backs = run_block(spec, [], [])
        want = ["s", R.stable(recv)]
        bad = [b for b in backs if b != want]
        return {"fails": bool(bad), "expected": want, "actual": bad[0] if bad else want}
    recv = _parse_literal(case["recv"]).value
    srcs = list(case["args"])
    args = [_arg_by_src(s) for s in srcs]
    try:
        exp = expected_of(kind, method, recv, [a.value for a in args])
    except R.Unsupported:
        return {"fails": False, "expected": None, "actual": "unsupported by the model"}
    if kind == "m":
        act = run_random_cases([(method, recv, args)])[0]
    else:
        n = len(srcs)
        spec = (kind, method, case["recv"], min(n, 2), srcs[2] if n > 2 else None)
        rows, _ = run_block(spec, srcs[:1], srcs[1:2])
        act = rows[0]
    return {"fails": act not in exp, "expected": exp[0], "actual": act}
