"""C08 campaign "builtin receivers": the object-model clauses of C08 applied to
objects the engine creates itself (error objects, regular expressions, typed
arrays, ArrayBuffers, the arguments object, arrays made by literals and by
built-ins, bound functions, Math / JSON, results of JSON.parse, property
descriptors, objects handed in by the host, ...).

A deterministic product  receiver kinds x clause programs x key forms.  Every
case is one small program (a list of steps) that is rendered to JavaScript,
run on a fresh Context, and executed on a tiny model of ECMAScript ordinary
objects written for this campaign (`World`): own properties (data / accessor)
in creation order + a prototype link; the receivers differ only in the table
`KINDS` (how they are made, which prototype object ES gives them, what
`instanceof` says).  All keys the programs use are ordinary property keys on
every receiver (identifier, string with a space, and a numeric-looking key
that is no valid index of the receiver: "01" on array-likes, 1234 elsewhere), so
no exotic behaviour is involved and the expectations follow from ES 10.1
(ordinary object internal methods) alone.  The model was compared with node at
development time (tools/c08b_nodeval.py -> oracle_validation/objmodel_builtin.json).

Clauses (programs):
  inherit   property put on Object.prototype / the kind's own prototype(s): read,
            in, hasOwnProperty, own property shadows, delete uncovers
  expando   own data properties: read / in / hasOwnProperty / keys / for-in /
            entries / descriptor agree, overwrite keeps the place, delete
  accessor  Object.defineProperty(R, k, {get, set, ...}): runs with R as this,
            descriptor, keys / for-in / entries, getter-only write throws
  inhacc    accessor on a prototype: runs with R as this, own data shadows it
  proto     Object.getPrototypeOf(R) identity, __proto__, instanceof, isPrototypeOf
  relink    Object.setPrototypeOf(R, p) / R.__proto__ = p / null / back
  heir      Object.create(R): R's properties and accessors through the child
  method    an own property named like a built-in method of the kind (test, join, toString ...) shadows
            the method, delete uncovers it (the method itself is only observed by typeof)

Accepted as documented (spec.md / recorded findings): for-in lists own keys
only; every property is enumerable (own keys of the receiver that are not test
keys are not judged, except that the elements of array-likes come first);
integer-like keys are not ordered first (C08-intkey-order: the position of the
key 1234 among the others is not judged); functions are no objects of the object
model (C08-function-object: bound functions are observed through their own
data properties only while that finding is listed).
"""
import time

from vf import engine, pool

ID = "C08"
SUB = "builtin"

T, F = True, False

# ------------------------------------------------------------------ the table
# ES: the prototype object of every named prototype object
PROTO_PARENT = {
    "Object.prototype": None,
    "Function.prototype": "Object.prototype",
    "Array.prototype": "Object.prototype",
    "Error.prototype": "Object.prototype",
    "TypeError.prototype": "Error.prototype",
    "RangeError.prototype": "Error.prototype",
    "ReferenceError.prototype": "Error.prototype",
    "SyntaxError.prototype": "Error.prototype",
    "EvalError.prototype": "Error.prototype",
    "URIError.prototype": "Error.prototype",
    "RegExp.prototype": "Object.prototype",
    "ArrayBuffer.prototype": "Object.prototype",
    "%TypedArray%.prototype": "Object.prototype",  # (has no name in scripts: never observed by identity)
    "Uint8Array.prototype": "%TypedArray%.prototype",
    "Int8Array.prototype": "%TypedArray%.prototype",
    "Int32Array.prototype": "%TypedArray%.prototype",
    "Float64Array.prototype": "%TypedArray%.prototype",
    "Uint8ClampedArray.prototype": "%TypedArray%.prototype",
    "Int16Array.prototype": "%TypedArray%.prototype",
    "Uint16Array.prototype": "%TypedArray%.prototype",
    "Uint32Array.prototype": "%TypedArray%.prototype",
    "Float32Array.prototype": "%TypedArray%.prototype",
}

HOST_VALUE = {"a": 1, "n": {"b": 2}, "l": [5, {"c": 3}]}
HOST_LIST = [5, 6]
# the same values for node (development-time validation only)
HOST_JS = 'var HOSTD = {a: 1, n: {b: 2}, l: [5, {c: 3}]}; var HOSTL = [5, 6];'


def K(name, make, proto, inst, elements=0, arraylike=False, own_req=(), host=False, group=None, light=False):
    """light: a variation of a kind that has a full entry (another constructor of the same family, another
    built-in that makes the same sort of object): the clauses proto / inherit / relink / one accessor only."""
    return {
        "name": name, "make": make, "proto": proto, "inst": inst, "elements": elements,
        "arraylike": arraylike or elements > 0, "own_req": list(own_req), "host": host, "group": group or name,
        "light": light,
    }


def _err_kind(name, make, ctor):
    return K(name, make, ctor + ".prototype", {"Error": T, ctor: T, "Object": T, "Array": F}, group="error", light=True)


def _ta_kind(name, make, ctor, n):
    other = "Int8Array" if ctor != "Int8Array" else "Uint8Array"
    return K(name, make, ctor + ".prototype", {ctor: T, other: F, "Object": T, "Array": F}, elements=n, arraylike=True,
             group="typedarray", light=True)


_ERR = {"Error": T, "TypeError": F, "Object": T, "Array": F}
_TERR = {"Error": T, "TypeError": T, "RangeError": F, "Object": T}
_RE = {"RegExp": T, "Object": T, "Error": F}
_ARR = {"Array": T, "Object": T, "Error": F}
_OBJ = {"Object": T, "Array": F, "Error": F}
_U8 = {"Uint8Array": T, "Int8Array": F, "Object": T, "Array": F}

KINDS = [
    # ---- error objects
    K("error", "new Error('x')", "Error.prototype", _ERR, group="error"),
    K("error_call", "Error('x')", "Error.prototype", _ERR, group="error"),
    K("typeerror", "new TypeError('x')", "TypeError.prototype", _TERR, group="error"),
    K("rangeerror", "new RangeError('x')", "RangeError.prototype", {"Error": T, "RangeError": T, "TypeError": F, "Object": T}, group="error"),
    K("caught_type", "(function(){ try { null.x; } catch (e) { return e; } })()", "TypeError.prototype", _TERR, group="error"),
    K("caught_ref", "(function(){ try { notDefinedAnywhere; } catch (e) { return e; } })()", "ReferenceError.prototype",
      {"Error": T, "ReferenceError": T, "TypeError": F, "Object": T}, group="error"),
    K("caught_syntax", "(function(){ try { JSON.parse('{'); } catch (e) { return e; } })()", "SyntaxError.prototype",
      {"Error": T, "SyntaxError": T, "TypeError": F, "Object": T}, group="error"),
    K("error_create", "Object.create(Error.prototype)", "Error.prototype", _ERR, group="error"),
    _err_kind("syntaxerror", "new SyntaxError('x')", "SyntaxError"),
    _err_kind("referenceerror", "new ReferenceError('x')", "ReferenceError"),
    _err_kind("evalerror", "new EvalError('x')", "EvalError"),
    _err_kind("urierror", "new URIError('x')", "URIError"),
    _err_kind("typeerror_call", "TypeError('x')", "TypeError"),
    _err_kind("caught_range", "(function(){ try { new Array(-1); } catch (e) { return e; } })()", "RangeError"),
    _err_kind("caught_thrown", "(function(){ try { throw new EvalError('x'); } catch (e) { return e; } })()", "EvalError"),
    _err_kind("typeerror_create", "Object.create(TypeError.prototype)", "TypeError"),
    K("typeerror_proto", "TypeError.prototype", "Error.prototype", {"Error": T, "TypeError": F, "Object": T}, group="error_proto"),
    K("error_proto", "Error.prototype", "Object.prototype", {"Error": F, "Object": T}, group="error_proto"),
    K("function_proto", "Function.prototype", "Object.prototype", {"Function": F, "Object": T}),
    K("regexp_proto", "RegExp.prototype", "Object.prototype", {"RegExp": F, "Object": T}, group="regex", light=True),
    K("arraybuffer_proto", "ArrayBuffer.prototype", "Object.prototype", {"ArrayBuffer": F, "Object": T}, group="arraybuffer", light=True),
    # ---- regular expressions
    K("regex_lit", "/a+/g", "RegExp.prototype", _RE, group="regex"),
    K("regex_new", "new RegExp('a+', 'i')", "RegExp.prototype", _RE, group="regex"),
    K("regex_call", "RegExp('a')", "RegExp.prototype", _RE, group="regex"),
    K("regex_create", "Object.create(RegExp.prototype)", "RegExp.prototype", _RE, group="regex", light=True),
    # ---- typed arrays and buffers
    K("u8", "new Uint8Array(2)", "Uint8Array.prototype", _U8, elements=2, group="typedarray"),
    K("u8_empty", "new Uint8Array(0)", "Uint8Array.prototype", _U8, arraylike=True, group="typedarray"),
    K("f64_from_array", "new Float64Array([1.5, 2])", "Float64Array.prototype", {"Float64Array": T, "Uint8Array": F, "Object": T}, elements=2, group="typedarray"),
    K("i32_on_buffer", "new Int32Array(new ArrayBuffer(8))", "Int32Array.prototype", {"Int32Array": T, "Uint8Array": F, "Object": T}, elements=2, group="typedarray"),
    K("u8c", "new Uint8ClampedArray(1)", "Uint8ClampedArray.prototype", {"Uint8ClampedArray": T, "Uint8Array": F, "Object": T}, elements=1, group="typedarray"),
    K("u8_subarray", "new Uint8Array(4).subarray(1)", "Uint8Array.prototype", _U8, elements=3, group="typedarray"),
    _ta_kind("i8", "new Int8Array(1)", "Int8Array", 1),
    _ta_kind("i16", "new Int16Array(1)", "Int16Array", 1),
    _ta_kind("u16", "new Uint16Array(1)", "Uint16Array", 1),
    _ta_kind("u32", "new Uint32Array(1)", "Uint32Array", 1),
    _ta_kind("f32", "new Float32Array(1)", "Float32Array", 1),
    _ta_kind("u8_from_typed", "new Uint8Array(new Int8Array(2))", "Uint8Array", 2),
    _ta_kind("u8_on_buffer_offset", "new Uint8Array(new ArrayBuffer(4), 1, 2)", "Uint8Array", 2),
    _ta_kind("f64_subarray", "new Float64Array(3).subarray(1, 2)", "Float64Array", 1),
    K("u8_create", "Object.create(Uint8Array.prototype)", "Uint8Array.prototype", _U8, group="typedarray", light=True),
    K("arraybuffer", "new ArrayBuffer(4)", "ArrayBuffer.prototype", {"ArrayBuffer": T, "Object": T, "Array": F}, group="arraybuffer"),
    K("ta_buffer", "new Int8Array(2).buffer", "ArrayBuffer.prototype", {"ArrayBuffer": T, "Object": T, "Array": F}, group="arraybuffer"),
    # ---- arguments
    K("arguments", "(function(){ return arguments; })(5, 6)", "Object.prototype", _OBJ, elements=2, group="arguments"),
    K("arguments_empty", "(function(a){ return arguments; })()", "Object.prototype", _OBJ, arraylike=True, group="arguments"),
    # ---- arrays
    K("array_lit", "[5, 6]", "Array.prototype", _ARR, elements=2, group="array"),
    K("array_empty", "[]", "Array.prototype", _ARR, arraylike=True, group="array"),
    # (ES: two holes; spec.md: `new Array(len)` creates undefined elements - its own keys are not judged)
    K("array_new", "new Array(2)", "Array.prototype", _ARR, arraylike=True, group="array"),
    K("array_call", "Array(5, 6)", "Array.prototype", _ARR, elements=2, group="array"),
    K("array_split", "'a,b'.split(',')", "Array.prototype", _ARR, elements=2, group="array_native"),
    K("array_map", "[5, 6].map(function(x){ return x; })", "Array.prototype", _ARR, elements=2, group="array_native"),
    K("array_filter", "[5, 6].filter(function(x){ return x > 5; })", "Array.prototype", _ARR, elements=1, group="array_native"),
    K("array_slice", "[5, 6, 7].slice(1)", "Array.prototype", _ARR, elements=2, group="array_native"),
    K("array_concat", "[5].concat([6])", "Array.prototype", _ARR, elements=2, group="array_native"),
    K("array_splice", "[5, 6, 7].splice(1, 1)", "Array.prototype", _ARR, elements=1, group="array_native"),
    K("array_keys", "Object.keys({a: 1, b: 2})", "Array.prototype", _ARR, elements=2, group="array_native"),
    K("array_values", "Object.values({a: 1})", "Array.prototype", _ARR, elements=1, group="array_native"),
    K("array_entries", "Object.entries({a: 1})", "Array.prototype", _ARR, elements=1, group="array_native"),
    K("array_entry", "Object.entries({a: 1})[0]", "Array.prototype", _ARR, elements=2, group="array_native"),
    K("array_exec", "/a/.exec('a')", "Array.prototype", _ARR, elements=1, own_req=["index", "input"], group="array_native"),
    K("array_match", "'a'.match(/a/)", "Array.prototype", _ARR, elements=1, own_req=["index", "input"], group="array_native"),
    K("array_match_g", "'aa'.match(/a/g)", "Array.prototype", _ARR, elements=2, group="array_native"),
    K("array_slice_call", "(function(){ return Array.prototype.slice.call(arguments); })(5, 6)", "Array.prototype", _ARR, elements=2,
      group="array_native", light=True),
    K("array_split_regex", "'a1b'.split(/\\d/)", "Array.prototype", _ARR, elements=2, group="array_native", light=True),
    K("array_keys_of_number", "Object.keys(5)", "Array.prototype", _ARR, arraylike=True, group="array_native", light=True),
    K("array_create", "Object.create(Array.prototype)", "Array.prototype", _ARR, group="array", light=True),
    K("array_json_in_array", "JSON.parse('[[5]]')[0]", "Array.prototype", _ARR, elements=1, group="json_parse", light=True),
    K("array_json", "JSON.parse('[5, 6]')", "Array.prototype", _ARR, elements=2, group="json_parse"),
    K("array_json_nested", "JSON.parse('{\"a\": [5]}').a", "Array.prototype", _ARR, elements=1, group="json_parse"),
    K("array_proto", "Array.prototype", "Object.prototype", {"Array": F, "Object": T}, arraylike=True, group="array"),
    # ---- functions made by bind
    K("bound", "(function(){ return 1; }).bind(null)", "Function.prototype", {"Function": T, "Object": T, "Array": F}),
    # ---- namespaces
    K("math", "Math", "Object.prototype", _OBJ, group="namespace"),
    K("json", "JSON", "Object.prototype", _OBJ, group="namespace"),
    # ---- plain objects made by built-ins
    K("json_obj", "JSON.parse('{\"a\": 1}')", "Object.prototype", _OBJ, own_req=["a"], group="json_parse"),
    K("json_nested", "JSON.parse('{\"a\": {\"b\": 1}}').a", "Object.prototype", _OBJ, own_req=["b"], group="json_parse"),
    K("json_in_array", "JSON.parse('[{\"b\": 1}]')[0]", "Object.prototype", _OBJ, own_req=["b"], group="json_parse"),
    K("json_empty", "JSON.parse('{}')", "Object.prototype", _OBJ, group="json_parse", light=True),
    K("descriptor", "Object.getOwnPropertyDescriptor({a: 1}, 'a')", "Object.prototype", _OBJ,
      own_req=["value", "writable", "enumerable", "configurable"]),
    K("object_new", "new Object()", "Object.prototype", _OBJ, group="object"),
    K("object_call", "Object()", "Object.prototype", _OBJ, group="object"),
    K("assign_result", "Object.assign({}, {a: 1})", "Object.prototype", _OBJ, own_req=["a"], group="object"),
    # ---- values handed in by the host (Context.set)
    K("host_dict", "HOSTD", "Object.prototype", _OBJ, own_req=["a", "n", "l"], host=True, group="host"),
    K("host_nested", "HOSTD.n", "Object.prototype", _OBJ, own_req=["b"], host=True, group="host"),
    K("host_list", "HOSTL", "Array.prototype", _ARR, elements=2, host=True, group="host"),
    K("host_in_list", "HOSTD.l[1]", "Object.prototype", _OBJ, own_req=["c"], host=True, group="host"),
]
KIND = {k["name"]: k for k in KINDS}

KEY_FORMS = ["ident", "string", "num"]
TEST_KEYS = {"kx", "k y", "1234", "01", "kb", "kc", "ka", "pk", "zz"}
# built-in methods ES keeps as data properties of the kind's prototype (clause "method": an own
# property of that name shadows the method, delete uncovers it again); by group
METHOD_KEYS = {
    "error": ("Error.prototype", ["toString"]),
    "regex": ("RegExp.prototype", ["test", "exec", "toString"]),
    "array": ("Array.prototype", ["join", "push"]),
    "array_native": ("Array.prototype", ["join", "indexOf"]),
    "json_parse": ("Object.prototype", ["hasOwnProperty"]),
    "typedarray": ("%TypedArray%.prototype", ["join", "set", "subarray"]),
    "arguments": ("Object.prototype", ["toString"]),
    "namespace": ("Object.prototype", ["toString", "hasOwnProperty"]),
}
for _holder, _names in METHOD_KEYS.values():
    TEST_KEYS.update(_names)


def form_key(kind, form):
    """(property name, JavaScript key literal or None for dot access)"""
    if form == "ident":
        return "kx", None
    if form == "string":
        return "k y", '"k y"'
    # numeric-looking, but no index of the receiver
    if kind["arraylike"]:
        return "01", '"01"'
    # (not a small number: a setter put on Object.prototype under the key 7 would, correctly, also be
    # run by the `push` of the harness's own arrays)
    return "1234", "1234"


def chain_protos(kind):
    """The named prototype objects on the chain of the receiver, nearest first."""
    out = []
    p = kind["proto"]
    while p is not None:
        out.append(p)
        p = PROTO_PARENT[p]
    return out


def holders(kind):
    return [p for p in chain_protos(kind) if not p.startswith("%")]


def int_like(k):
    return k.isdigit() and (k == "0" or k[0] != "0")


# ------------------------------------------------------------------ the model
class Obj:
    __slots__ = ("props", "proto")

    def __init__(self, proto):
        self.props = {}  # name -> ["data", token] | ["acc", has getter, has setter]
        self.proto = proto  # name | None


class World:
    """ECMAScript ordinary objects, just enough for the programs below.
    Values are the tokens of the JavaScript-side encoder E."""

    def __init__(self, kind, es_forin=False):
        self.kind = kind
        self.es_forin = es_forin
        self.objs = {n: Obj(p) for n, p in PROTO_PARENT.items()}
        self.hidden = set()  # (object, key): built-in methods are not enumerable
        for holder, names in METHOD_KEYS.values():
            for n in names:
                self.objs[holder].props[n] = ["data", "fn"]
                self.hidden.add((holder, n))
        self.log = []

    # -- internal methods
    def find(self, o, k):
        n = o
        while n is not None:
            ob = self.objs[n]
            if k in ob.props:
                return n, ob.props[k]
            n = ob.proto
        return None, None

    def on_chain(self, o, target):
        n = self.objs[o].proto
        while n is not None:
            if n == target:
                return True
            n = self.objs[n].proto
        return False

    def get(self, o, k):
        _, p = self.find(o, k)
        if p is None:
            return "u"
        if p[0] == "data":
            return p[1]
        if p[1]:
            self.log.append("g:%s:%s" % (k, o))
            return "s:G:" + k
        return "u"

    def put(self, o, k, v):
        _, p = self.find(o, k)
        if p is not None and p[0] == "acc":
            if not p[2]:
                return "throw:TypeError"
            self.log.append("s:%s:%s:%s" % (k, o, v))
            return "s:ok"
        own = self.objs[o].props
        if k in own:
            own[k][1] = v
        else:
            own[k] = ["data", v]
        return "s:ok"

    def own_keys(self, o):
        ks = list(self.objs[o].props)
        return [k for k in ks if int_like(k)] + [k for k in ks if not int_like(k)]

    def forin(self, o):
        if not self.es_forin:
            return self.own_keys(o)
        seen, out = set(), []
        n = o
        while n is not None:
            for k in self.own_keys(n):
                if k not in seen:
                    seen.add(k)  # (a hidden property still shadows what lies behind it)
                    if (n, k) not in self.hidden:
                        out.append(k)
            n = self.objs[n].proto
        return out

    # -- one step; returns the expected token (or a structured expectation)
    def step(self, st):
        op = st[0]
        if op == "make":
            self.objs["R"] = Obj(self.kind["proto"])
            return "s:ok"
        if op == "mkproto":  # P = {}
            self.objs["P"] = Obj("Object.prototype")
            return "s:ok"
        if op == "mkheir":  # C = Object.create(R)
            self.objs["C"] = Obj("R")
            return "s:ok"
        if op == "put":
            return self.put(st[1], st[2], st[3])
        if op == "get":
            return self.get(st[1], st[2])
        if op == "in":
            return "b:true" if self.find(st[1], st[2])[1] is not None else "b:false"
        if op == "own":
            return "b:true" if st[2] in self.objs[st[1]].props else "b:false"
        if op == "ownm":  # R.hasOwnProperty(k): the method is inherited from Object.prototype
            if not self.on_chain(st[1], "Object.prototype"):
                return "throw:TypeError"
            return "b:true" if st[2] in self.objs[st[1]].props else "b:false"
        if op == "del":
            self.objs[st[1]].props.pop(st[2], None)
            return "b:true"
        if op == "keys":
            return ("keys", self.own_keys(st[1]))
        if op == "forin":
            return ("keys", self.forin(st[1]))
        if op == "entries":
            return ("entries", [(k, self.get(st[1], k)) for k in self.own_keys(st[1])])
        if op == "defacc":
            self.objs[st[1]].props[st[2]] = ["acc", st[3], st[4]]
            return "b:true"
        if op == "defdata":
            self.objs[st[1]].props[st[2]] = ["data", st[3]]
            return "b:true"
        if op == "desc":
            p = self.objs[st[1]].props.get(st[2])
            if p is None:
                return "u"
            if p[0] == "data":
                return "data|%s|w=true|e=true|c=true" % p[1]
            return "acc|g=%s|s=%s|e=true|c=true" % ("G" if p[1] else "u", "S" if p[2] else "u")
        if op == "getproto":
            p = self.objs[st[1]].proto
            return "l" if p is None else p
        if op == "getdunder":  # o.__proto__: accessor of Object.prototype
            if st[1] != "Object.prototype" and not self.on_chain(st[1], "Object.prototype"):
                return "u"
            p = self.objs[st[1]].proto
            return "l" if p is None else p
        if op == "setproto" or op == "setdunder":
            self.objs[st[1]].proto = st[2]
            return "b:true" if op == "setproto" else "s:ok"
        if op == "inst":  # o instanceof Ctor
            return "b:true" if self.on_chain(st[1], st[2] + ".prototype") else "b:false"
        if op == "isproto":  # proto.isPrototypeOf(o)
            return "b:true" if self.on_chain(st[2], st[1]) else "b:false"
        if op == "log":
            out = "s:" + ",".join(self.log)
            self.log = []
            return out
        raise engine.HarnessError("c08_builtin: unknown step %r" % (st,))


# --------------------------------------------------------------- JavaScript
# The prelude is assembled per case (parsing it is most of the cost of a case):
# the identity table names the prototype objects of the kind's chain only, the
# helpers come in when a step uses them.
_BASE_JS = """var LOG = [], OUT = [], ACC = {}, R, C, P;
function IDOF(x) {
  if (x === R) return "R";
  if (x === C) return "C";
  if (x === P) return "P";
%s
  return null;
}
function E(v) {
  if (v === undefined) return "u";
  if (v === null) return "l";
  var t = typeof v;
  if (t === "boolean") return "b:" + v;
  if (t === "number") return "n:" + v;
  if (t === "string") return "s:" + v;
  var id = IDOF(v);
  if (id !== null) return id;
  return t === "function" ? "fn" : "obj";
}
function S(f) {
  var r;
  try { r = f(); } catch (e) { r = "throw:" + ((e && e.name) || "?"); }
  OUT.push(r);
}
"""
_HELPER_JS = {
    "defacc": """function MKACC(k, hasG, hasS) {
  var d = { enumerable: true, configurable: true };
  if (hasG) d.get = function () { LOG.push("g:" + k + ":" + E(this)); return "G:" + k; };
  if (hasS) d.set = function (v) { LOG.push("s:" + k + ":" + E(this) + ":" + E(v)); };
  ACC[k] = d;
  return d;
}
""",
    "desc": """function D(o, k, name) {
  var d = Object.getOwnPropertyDescriptor(o, k);
  if (d === undefined) return "u";
  var a = ACC[name];
  if ("get" in d || "set" in d) {
    return "acc|g=" + (a && d.get !== undefined && d.get === a.get ? "G" : E(d.get)) +
      "|s=" + (a && d.set !== undefined && d.set === a.set ? "S" : E(d.set)) +
      "|e=" + d.enumerable + "|c=" + d.configurable + ("value" in d ? "|value" : "");
  }
  return "data|" + E(d.value) + "|w=" + d.writable + "|e=" + d.enumerable + "|c=" + d.configurable;
}
""",
    "keys": 'function KEYS(o) { return "k:" + Object.keys(o).join("|"); }\n',
    "forin": 'function FORIN(o) { var a = []; for (var k in o) a.push(k); return "k:" + a.join("|"); }\n',
    "entries": """function ENTRIES(o) {
  var a = Object.entries(o), out = [];
  for (var i = 0; i < a.length; i++) out.push(a[i][0] + "=" + E(a[i][1]));
  return "e:" + out.join("|");
}
""",
}
_ALWAYS_NAMED = ["Object.prototype", "Array.prototype", "Function.prototype"]


def prelude(kind, steps):
    """(a prototype object that does not exist - `RegExp.prototype` on an unrepaired tree - is undefined
    and equals no object: E answers undefined / null before IDOF is asked)"""
    names = holders(kind) + [n for n in _ALWAYS_NAMED if n not in holders(kind)]
    table = "\n".join('  if (x === %s) return "%s";' % (n, n) for n in names)
    ops = {st[0] for st in steps}
    return _BASE_JS % table + "".join(js for op, js in sorted(_HELPER_JS.items()) if op in ops)


_VAL_JS = {"u": "undefined", "l": "null"}


def val_js(tok):
    if tok in _VAL_JS:
        return _VAL_JS[tok]
    if tok.startswith("n:"):
        return tok[2:]
    if tok.startswith("s:"):
        return '"%s"' % tok[2:]
    if tok.startswith("b:"):
        return tok[2:]
    return tok  # an object name (R, P, C, Error.prototype ...)


def key_lit(k):
    """The key as an expression (for `in`, defineProperty, hasOwnProperty)."""
    name, lit = k
    return lit if lit is not None else '"%s"' % name


def member(o, k):
    name, lit = k
    return "%s.%s" % (o, name) if lit is None else "%s[%s]" % (o, lit)


def render_step(st, kind):
    op = st[0]
    if op == "make":
        return 'S(function(){ R = %s; return "s:ok"; });' % kind["make"]
    if op == "mkproto":
        return 'S(function(){ P = {}; return "s:ok"; });'
    if op == "mkheir":
        return 'S(function(){ C = Object.create(R); return "s:ok"; });'
    if op == "log":
        return 'S(function(){ var s = LOG.join(","); LOG = []; return "s:" + s; });'
    o = st[1]
    if op in ("put", "get", "in", "own", "ownm", "del", "defacc", "defdata", "desc"):
        k = st[-1]  # (name, literal): the rendered key travels at the end of the step
    if op == "put":
        return 'S(function(){ %s = %s; return "s:ok"; });' % (member(o, k), val_js(st[3]))
    if op == "get":
        return "S(function(){ return E(%s); });" % member(o, k)
    if op == "in":
        return "S(function(){ return E(%s in %s); });" % (key_lit(k), o)
    if op == "own":
        return "S(function(){ return E(Object.prototype.hasOwnProperty.call(%s, %s)); });" % (o, key_lit(k))
    if op == "ownm":
        return "S(function(){ return E(%s.hasOwnProperty(%s)); });" % (o, key_lit(k))
    if op == "del":
        return "S(function(){ return E(delete %s); });" % member(o, k)
    if op == "keys":
        return "S(function(){ return KEYS(%s); });" % o
    if op == "forin":
        return "S(function(){ return FORIN(%s); });" % o
    if op == "entries":
        return "S(function(){ return ENTRIES(%s); });" % o
    if op == "defacc":
        return 'S(function(){ return E(Object.defineProperty(%s, %s, MKACC("%s", %s, %s)) === %s); });' % (
            o, key_lit(k), st[2], "true" if st[3] else "false", "true" if st[4] else "false", o)
    if op == "defdata":
        return ("S(function(){ return E(Object.defineProperty(%s, %s, {value: %s, writable: true, enumerable: true, "
                "configurable: true}) === %s); });" % (o, key_lit(k), val_js(st[3]), o))
    if op == "desc":
        return 'S(function(){ return D(%s, %s, "%s"); });' % (o, key_lit(k), st[2])
    if op == "getproto":
        return "S(function(){ return E(Object.getPrototypeOf(%s)); });" % o
    if op == "getdunder":
        return "S(function(){ return E(%s.__proto__); });" % o
    if op == "setproto":
        return "S(function(){ return E(Object.setPrototypeOf(%s, %s) === %s); });" % (o, val_js(st[2]) if st[2] else "null", o)
    if op == "setdunder":
        return 'S(function(){ %s.__proto__ = %s; return "s:ok"; });' % (o, val_js(st[2]) if st[2] else "null")
    if op == "inst":
        return "S(function(){ return E(%s instanceof %s); });" % (o, st[2])
    if op == "isproto":
        return "S(function(){ return E(%s.isPrototypeOf(%s)); });" % (o, st[2])
    if op == "log":
        return 'S(function(){ var s = LOG.join(","); LOG = []; return "s:" + s; });'
    raise engine.HarnessError("c08_builtin: cannot render %r" % (st,))


def script(case, for_node=False):
    kind = KIND[case["kind"]]
    lines = [prelude(kind, case["steps"])]
    if for_node:
        lines.insert(0, '"use strict";')
        if kind["host"]:
            lines.append(HOST_JS)
    for st in case["steps"]:
        lines.append(render_step(st, kind))
    lines.append("OUT")
    return "\n".join(lines)


# ----------------------------------------------------------------- programs
# A step is a tuple; the label (what the observation means) is kept next to
# it: (label, step).  Keys are (name, literal) pairs and travel at the end.
def _obs(o, key, tag, with_method=True):
    """read / in / own-test of one key"""
    name = key[0]
    out = [
        (tag + "-read", ("get", o, name, key)),
        (tag + "-in", ("in", o, name, key)),
        (tag + "-hasOwn", ("own", o, name, key)),
    ]
    if with_method:
        out.append((tag + "-hasOwnMethod", ("ownm", o, name, key)))
    return out


def prog_inherit(kind, holder, order, key):
    name = key[0]
    put_h = ("put-on-prototype", ("put", holder, name, "n:11", key))
    make = ("make", ("make",))
    st = [put_h, make] if order == "before" else [make, put_h]
    st += _obs("R", key, "inherited")
    st += [("own-write", ("put", "R", name, "s:own", key))]
    st += _obs("R", key, "shadow")
    st += [("prototype-untouched-read", ("get", holder, name, key)), ("shadow-keys", ("keys", "R")),
           ("delete-own", ("del", "R", name, key))]
    st += _obs("R", key, "uncovered")
    st += [("uncovered-keys", ("keys", "R")), ("delete-on-prototype", ("del", holder, name, key))]
    st += _obs("R", key, "gone", with_method=False)
    return st


def prog_expando(kind, key):
    name = key[0]
    kb = ("kb", None)
    kc = ("kc", '"kc"')
    st = [("make", ("make",)), ("absent-read", ("get", "R", name, key)), ("absent-in", ("in", "R", name, key)),
          ("absent-hasOwn", ("own", "R", name, key)),
          ("write", ("put", "R", name, "n:11", key)), ("write-undefined", ("put", "R", "kb", "u", kb))]
    st += _obs("R", key, "own") + _obs("R", kb, "own-undefined")
    st += [("keys", ("keys", "R")), ("forin", ("forin", "R")), ("entries", ("entries", "R")),
           ("descriptor", ("desc", "R", name, key)),
           ("overwrite", ("put", "R", name, "s:two", key)), ("overwritten-read", ("get", "R", name, key)),
           ("overwritten-keys", ("keys", "R")),
           ("define-data", ("defdata", "R", "kc", "l", kc)), ("defined-read", ("get", "R", "kc", kc)),
           ("defined-descriptor", ("desc", "R", "kc", kc)), ("defined-keys", ("keys", "R")),
           ("delete", ("del", "R", name, key))]
    st += _obs("R", key, "deleted", with_method=False)
    st += [("deleted-keys", ("keys", "R")), ("deleted-forin", ("forin", "R")), ("delete-again", ("del", "R", name, key)),
           ("rewrite", ("put", "R", name, "b:true", key)), ("rewritten-read", ("get", "R", name, key)),
           ("rewritten-keys", ("keys", "R")), ("rewritten-forin", ("forin", "R")), ("rewritten-entries", ("entries", "R"))]
    return st


def prog_accessor(kind, variant, key):
    name = key[0]
    g, s = "g" in variant, "s" in variant
    st = [("make", ("make",)), ("define-accessor", ("defacc", "R", name, g, s, key)),
          ("accessor-read", ("get", "R", name, key)), ("getter-this", ("log",)),
          ("accessor-write", ("put", "R", name, "n:5", key)), ("setter-this", ("log",)),
          ("accessor-read-after-write", ("get", "R", name, key)), ("getter-this", ("log",))]
    st += [("accessor-in", ("in", "R", name, key)), ("accessor-hasOwn", ("own", "R", name, key)),
           ("accessor-hasOwnMethod", ("ownm", "R", name, key)),
           ("accessor-descriptor", ("desc", "R", name, key)), ("accessor-keys", ("keys", "R")),
           ("accessor-forin", ("forin", "R")), ("accessor-entries", ("entries", "R")), ("entries-getter-this", ("log",)),
           ("accessor-delete", ("del", "R", name, key)), ("deleted-accessor-read", ("get", "R", name, key)),
           ("deleted-accessor-in", ("in", "R", name, key)), ("deleted-accessor-descriptor", ("desc", "R", name, key)),
           ("deleted-accessor-keys", ("keys", "R")), ("no-getter-run", ("log",))]
    return st


def prog_inhacc(kind, holder, key):
    name = key[0]
    st = [("make", ("make",)), ("define-accessor-on-prototype", ("defacc", holder, name, True, True, key)),
          ("inherited-accessor-read", ("get", "R", name, key)), ("inherited-getter-this", ("log",)),
          ("inherited-accessor-write", ("put", "R", name, "n:5", key)), ("inherited-setter-this", ("log",)),
          ("inherited-accessor-hasOwn", ("own", "R", name, key)), ("inherited-accessor-in", ("in", "R", name, key)),
          ("inherited-accessor-keys", ("keys", "R")),
          ("own-data-over-accessor", ("defdata", "R", name, "s:own", key)),
          ("shadowing-data-read", ("get", "R", name, key)), ("no-getter-run", ("log",)),
          ("shadowing-data-write", ("put", "R", name, "s:own2", key)), ("no-setter-run", ("log",)),
          ("shadowing-data-reread", ("get", "R", name, key)),
          ("delete-own", ("del", "R", name, key)),
          ("uncovered-accessor-read", ("get", "R", name, key)), ("inherited-getter-this", ("log",))]
    return st


def prog_proto(kind):
    st = [("make", ("make",)), ("getPrototypeOf", ("getproto", "R")), ("__proto__-read", ("getdunder", "R"))]
    for ctor in sorted(kind["inst"]):
        st.append(("instanceof", ("inst", "R", ctor)))
        st.append(("isPrototypeOf", ("isproto", ctor + ".prototype", "R")))
    for p in holders(kind):
        st.append(("isPrototypeOf", ("isproto", p, "R")))
    # the prototype objects themselves
    for p in holders(kind):
        if PROTO_PARENT[p] is None or not PROTO_PARENT[p].startswith("%"):
            st.append(("prototype-of-prototype", ("getproto", p)))
    return st


def prog_relink(kind, via, key):
    name = key[0]
    pk = ("pk", None)
    zz = ("zz", None)
    own_ctor = kind["proto"].split(".")[0]
    setp = (lambda o, p: ("setproto", o, p)) if via == "setPrototypeOf" else (lambda o, p: ("setdunder", o, p))
    st = [("make", ("make",)), ("make-prototype", ("mkproto",)), ("put-on-new-prototype", ("put", "P", "pk", "n:1", pk)),
          ("own-write", ("put", "R", name, "s:own", key)),
          ("relink", setp("R", "P")),
          ("relinked-getPrototypeOf", ("getproto", "R")), ("relinked-__proto__", ("getdunder", "R")),
          ("relinked-read", ("get", "R", "pk", pk)), ("relinked-in", ("in", "R", "pk", pk)),
          ("relinked-hasOwn", ("own", "R", "pk", pk)),
          ("relinked-own-read", ("get", "R", name, key)),
          ("relinked-isPrototypeOf", ("isproto", "P", "R"))]
    if own_ctor != "Object":
        st += [("relinked-instanceof", ("inst", "R", own_ctor)), ("relinked-isPrototypeOf", ("isproto", kind["proto"], "R"))]
    st += [("relinked-instanceof", ("inst", "R", "Object")),
           ("put-on-prototype", ("put", "Object.prototype", "zz", "n:7", zz)),
           ("relinked-inherited-read", ("get", "R", "zz", zz)),
           ("late-put-on-new-prototype", ("put", "P", "kb", "n:2", ("kb", None))),
           ("relinked-late-read", ("get", "R", "kb", ("kb", None))),
           ("relinked-keys", ("keys", "R")),
           ("relink-null", ("setproto", "R", None)),
           ("null-getPrototypeOf", ("getproto", "R")),
           ("null-read", ("get", "R", "pk", pk)), ("null-in", ("in", "R", "pk", pk)),
           ("null-inherited-read", ("get", "R", "zz", zz)),
           ("null-own-read", ("get", "R", name, key)), ("null-own-hasOwn", ("own", "R", name, key)),
           ("null-instanceof", ("inst", "R", "Object")),
           ("null-isPrototypeOf", ("isproto", "Object.prototype", "R")),
           ("relink-back", ("setproto", "R", kind["proto"])),
           ("back-getPrototypeOf", ("getproto", "R")),
           ("back-instanceof", ("inst", "R", own_ctor)),
           ("back-read", ("get", "R", "pk", pk)), ("back-inherited-read", ("get", "R", "zz", zz)),
           ("back-own-read", ("get", "R", name, key))]
    return st


def prog_heir(kind, key):
    name = key[0]
    ka = ("ka", None)
    own_ctor = kind["proto"].split(".")[0]
    st = [("make", ("make",)), ("make-heir", ("mkheir",)),
          ("heir-getPrototypeOf", ("getproto", "C")), ("heir-isPrototypeOf", ("isproto", "R", "C")),
          ("heir-instanceof", ("inst", "C", own_ctor)), ("heir-instanceof", ("inst", "C", "Object")),
          ("write-on-receiver", ("put", "R", name, "n:11", key))]
    st += _obs("C", key, "heir")
    st += [("define-accessor", ("defacc", "R", "ka", True, True, ka)),
           ("heir-accessor-read", ("get", "C", "ka", ka)), ("heir-getter-this", ("log",)),
           ("heir-accessor-write", ("put", "C", "ka", "n:5", ka)), ("heir-setter-this", ("log",)),
           ("heir-accessor-hasOwn", ("own", "C", "ka", ka)),
           ("heir-write", ("put", "C", name, "s:own", key)),
           ("heir-own-read", ("get", "C", name, key)), ("receiver-untouched-read", ("get", "R", name, key)),
           ("heir-keys", ("keys", "C")), ("heir-forin", ("forin", "C")),
           ("heir-delete", ("del", "C", name, key)), ("heir-uncovered-read", ("get", "C", name, key)),
           ("receiver-keys", ("keys", "R"))]
    return st


def prog_method(kind, name):
    """An own property named like a built-in method of the kind."""
    key = (name, None)
    st = [("make", ("make",)), ("method-read", ("get", "R", name, key)), ("method-hasOwn", ("own", "R", name, key)),
          ("own-write", ("put", "R", name, "n:5", key)),
          ("shadow-read", ("get", "R", name, key)), ("shadow-in", ("in", "R", name, key)), ("shadow-hasOwn", ("own", "R", name, key)),
          ("shadow-keys", ("keys", "R")), ("shadow-entries", ("entries", "R")),
          ("delete-own", ("del", "R", name, key)),
          ("uncovered-read", ("get", "R", name, key)), ("uncovered-hasOwn", ("own", "R", name, key)),
          ("uncovered-keys", ("keys", "R"))]
    return st


FUNCTION_GUARD = "c08.function_object"
# what a function receiver is observed with while C08-function-object is listed
_FN_OPS = {"make", "put", "get", "in", "own", "del"}


def all_cases(fn_guard):
    """[(case, excluded reason | None)]; case = {id, kind, clause, steps, labels}."""
    out = []

    def add(kind, clause, params, labelled):
        cid = "|".join([kind["name"], clause] + [str(p) for p in params])
        case = {"sub": SUB, "id": cid, "kind": kind["name"], "clause": clause,
                "labels": [l for l, _ in labelled], "steps": [list(s) for _, s in labelled]}
        if kind["name"] == "bound" and fn_guard:
            if clause != "expando":
                out.append((case, "C08-function-object: bound function as receiver (%s)" % clause))
                return
            keep = [(l, s) for l, s in labelled if s[0] in _FN_OPS]
            case["labels"] = [l for l, _ in keep]
            case["steps"] = [list(s) for _, s in keep]
            case["fn_guard"] = True
        out.append((case, None))

    for kind in KINDS:
        hs = holders(kind)
        if kind["light"]:
            key = form_key(kind, "ident")
            for h in hs:
                add(kind, "inherit", [h, "after", "ident"], prog_inherit(kind, h, "after", key))
            add(kind, "accessor", ["gs", "num"], prog_accessor(kind, "gs", form_key(kind, "num")))
            add(kind, "proto", [], prog_proto(kind))
            add(kind, "relink", ["setPrototypeOf", "ident"], prog_relink(kind, "setPrototypeOf", key))
            continue
        for form in KEY_FORMS:
            key = form_key(kind, form)
            for h in hs:
                for order in ("before", "after"):
                    add(kind, "inherit", [h, order, form], prog_inherit(kind, h, order, key))
                add(kind, "inhacc", [h, form], prog_inhacc(kind, h, key))
            add(kind, "expando", [form], prog_expando(kind, key))
            for variant in ("gs", "g", "s"):
                add(kind, "accessor", [variant, form], prog_accessor(kind, variant, key))
            add(kind, "heir", [form], prog_heir(kind, key))
        add(kind, "proto", [], prog_proto(kind))
        if kind["group"] in METHOD_KEYS and not kind["make"].endswith(".prototype") and "Object.create" not in kind["make"]:
            for name in METHOD_KEYS[kind["group"]][1]:
                add(kind, "method", [name], prog_method(kind, name))
        for via in ("setPrototypeOf", "__proto__"):
            for form in ("ident", "num"):
                add(kind, "relink", [via, form], prog_relink(kind, via, form_key(kind, form)))
    return out


# --------------------------------------------------------------- comparison
def _cls(tok):
    """Coarse class of a token for signatures."""
    if not isinstance(tok, str):
        return "?"
    if tok.startswith("throw:"):
        return tok
    if tok[:2] in ("n:", "s:"):
        return tok[:1]
    if tok.startswith("data|") or tok.startswith("acc|"):
        return tok.split("|")[0]
    if tok.endswith(".prototype") and tok != "Object.prototype":
        return "X.prototype"
    return tok  # u, l, b:true, b:false, R, C, P, Object.prototype, fn, obj


def _list_diff(got, exp):
    missing = [k for k in exp if k not in got]
    extra = [k for k in got if k not in exp]
    if missing and extra:
        return "missing+extra"
    if missing:
        return "missing"
    if extra:
        return "extra"
    return "order" if sorted(got) == sorted(exp) else "dup"


def compare_keys(kind, got_tok, exp, strict_order=False, target="R"):
    """None or the kind of difference.  got_tok: 'k:a|b|c'; exp: the test keys
    the model lists, in ES order."""
    if not isinstance(got_tok, str) or not got_tok.startswith("k:"):
        return _cls(got_tok)
    got = got_tok[2:].split("|") if len(got_tok) > 2 else []
    tk = [k for k in got if k in TEST_KEYS]
    if not strict_order:
        # C08-intkey-order: the place of an integer-like key is not judged
        gi, ei = [k for k in tk if int_like(k)], [k for k in exp if int_like(k)]
        tk = [k for k in tk if not int_like(k)]
        exp = [k for k in exp if not int_like(k)]
        if sorted(gi) != sorted(ei):
            return _list_diff(gi, ei) + "-intkey"
    if tk != exp:
        return _list_diff(tk, exp)
    if target == "R":
        n = kind["elements"]
        if n and got[:n] != [str(i) for i in range(n)]:
            return "elements-not-first"
        for k in kind["own_req"]:
            if k not in got:
                return "builtin-own-key-missing"
    return None


def compare_entries(kind, got_tok, exp):
    if not isinstance(got_tok, str) or not got_tok.startswith("e:"):
        return _cls(got_tok)
    parts = got_tok[2:].split("|") if len(got_tok) > 2 else []
    got = []
    for p in parts:
        k, _, v = p.partition("=")
        if k in TEST_KEYS:
            got.append((k, v))
    gi = sorted(e for e in got if int_like(e[0]))
    ei = sorted(e for e in exp if int_like(e[0]))
    g2 = [e for e in got if not int_like(e[0])]
    e2 = [e for e in exp if not int_like(e[0])]
    if gi != ei or g2 != e2:
        if sorted(k for k, _ in got) == sorted(k for k, _ in exp):
            return "order" if sorted(got) == sorted(exp) else "value"
        return _list_diff([k for k, _ in got], [k for k, _ in exp])
    return None


def judge(case, out, es_mode=False):
    """Compare the engine's tokens with the model.  Returns (mismatches,
    expected list); a mismatch = (index, label, difference kind, expected, actual)."""
    kind = KIND[case["kind"]]
    w = World(kind, es_forin=es_mode)
    exps = []
    bad = []
    if not isinstance(out, list) or len(out) != len(case["steps"]):
        return [(-1, "shape", "shape", len(case["steps"]), out if not isinstance(out, list) else len(out))], exps
    for i, (label, st, got) in enumerate(zip(case["labels"], case["steps"], out)):
        st = tuple(st)
        model_st = st[:-1] if st[0] in ("put", "get", "in", "own", "ownm", "del", "defacc", "defdata", "desc") else st
        exp = w.step(model_st)
        target = st[1] if len(st) > 1 else "R"
        if isinstance(exp, tuple) and exp[0] == "keys":
            exps.append("k:" + "|".join(exp[1]))
            d = compare_keys(kind, got, exp[1], strict_order=es_mode, target=target)
            if d:
                bad.append((i, label, d, exps[-1], got))
        elif isinstance(exp, tuple) and exp[0] == "entries":
            exps.append("e:" + "|".join("%s=%s" % e for e in exp[1]))
            d = compare_entries(kind, got, exp[1])
            # (the getters the entries ran are in the log: judged by the next step)
            if d:
                bad.append((i, label, d, exps[-1], got))
        else:
            exps.append(exp)
            if got != exp:
                bad.append((i, label, "%s->%s" % (_cls(exp), _cls(got)), exp, got))
    return bad, exps


# ------------------------------------------------------------------- running
def run_case(case):
    """Run one case on a fresh context; returns the list of tokens or
    ["exception", class, message]."""
    m = engine.load()
    kind = KIND[case["kind"]]
    try:
        with pool.cpu_alarm(10):
            ctx = m.Context(time_limit=5)
            if kind["host"]:
                ctx.set("HOSTD", HOST_VALUE)
                ctx.set("HOSTL", HOST_LIST)
            return ctx.eval(script(case))
    except pool.HarnessTimeout:
        return ["exception", "HANG", ""]
    except Exception as e:
        info = engine.exc_info(e)
        return ["exception", info["name"] if info["family"] else info["cls"], (info["message"] or "")[:120]]


def check_case(case):
    out = run_case(case)
    if isinstance(out, list) and out[:1] == ["exception"]:
        return [(-1, "script", "exception:%s" % out[1], "list of %d tokens" % len(case["steps"]), out)], None, out
    bad, exps = judge(case, out)
    return bad, exps, out


def _task(cases):
    res = []
    for case in cases:
        bad, exps, out = check_case(case)
        res.append((case["id"], bad, None if not bad else exps, None if not bad else out))
    return res


def _lean(case):
    return {"sub": SUB, "id": case["id"], "kind": case["kind"], "clause": case["clause"],
            "fn_guard": bool(case.get("fn_guard")), "js": "\n".join(render_step(tuple(s), KIND[case["kind"]]) for s in case["steps"])}


def signature(case, mismatch):
    return "%s|%s|%s|%s:%s" % (SUB, KIND[case["kind"]]["group"], case["clause"], mismatch[1], mismatch[2])


def run(chk):
    t0 = time.time()
    guards = chk.extra.get("active_guards")
    if guards is None:
        guards = list(chk.guards)
    fn_guard = FUNCTION_GUARD in guards
    chk.rule += ("; (c) builtin receivers: a case is non-trivial when it involves the prototype chain or an accessor "
                 "(every clause but `expando`)")
    chk.assumptions.append(
        "builtin receivers: expectations from a model of ES ordinary objects (checks/c08_builtin.py World, validated against node: "
        "oracle_validation/objmodel_builtin.json); own keys of a receiver that are not test keys are not judged (spec.md: every property "
        "is enumerable) except that elements of array-likes come first; the place of the integer-like key 1234 is not judged (C08-intkey-order)"
    )
    cases = all_cases(fn_guard)
    todo = []
    for case, why in cases:
        if why:
            chk.excluded[why] += 1
        else:
            todo.append(case)
    by_id = {c["id"]: c for c in todo}
    n_viol = 0
    for rb in pool.run(_task, pool.chunks(todo, 24), timeout=600):
        if isinstance(rb, (pool.HANG, pool.CRASH)):
            raise engine.HarnessError("C08 builtin batch %r" % rb)
        for cid, bad, exps, out in rb:
            case = by_id[cid]
            chk.count()
            chk.classify("builtin kind " + KIND[case["kind"]]["group"])
            chk.classify("builtin clause " + case["clause"])
            if case["clause"] != "expando":
                chk.nontrivial("builtin|" + cid)
            if not bad:
                if case["clause"] in ("inherit", "accessor"):
                    chk.sample({"sub": SUB, "id": cid, "agrees": True, "tokens": len(case["steps"])}, cls="builtin " + case["clause"], per_class=1)
                continue
            n_viol += 1
            first = bad[0]
            lean = _lean(case)
            chk.violation(signature(case, first), lean, {"at": first[0], "label": first[1], "value": first[3]},
                          {"at": first[0], "value": first[4], "further_mismatches": len(bad) - 1}, sub=SUB)
            if n_viol <= 3:
                chk.sample({"sub": SUB, "id": cid, "label": first[1], "expected": first[3], "actual": first[4]}, cls="builtin-fail")
    chk.extra["builtin_cases"] = len(todo)
    chk.extra["builtin_wall_s"] = round(time.time() - t0, 1)


def replay_case(case):
    """Re-run a recorded case (looked up by id: the steps are regenerated)."""
    for c, why in all_cases(bool(case.get("fn_guard"))):
        if c["id"] == case["id"] and not why:
            bad, exps, out = check_case(c)
            if bad:
                first = bad[0]
                return {"fails": True, "signature": signature(c, first),
                        "expected": {"at": first[0], "label": first[1], "value": first[3]},
                        "actual": {"at": first[0], "value": first[4], "further_mismatches": len(bad) - 1}}
            return {"fails": False, "expected": None, "actual": None}
    raise engine.HarnessError("c08_builtin: no case %r" % case.get("id"))
