"""C10 - the regex engine is total: any pattern and subject, bounded work, no host errors.

(a) construction totality: Hypothesis pattern soup / valid patterns with one mutation / flag
    strings through microjs.regex.RegExp, `new RegExp`, `RegExp()`, the literal `/p/f`,
    `"s".match(p)` and `"s".search(p)`.
(b) matching is bounded: catastrophic-backtracking families x subject length x {no time
    limit, time limit (virtual clock)} x exec/test/match/replace/split/search, at the Python
    API (exact step accounting through the public poll callback) and at script level.
"""
import collections
import contextlib
import gc
import os
import resource
import signal
import subprocess
import sys
import time

from gens import c10gen as G
from vf import core, engine, pool

ID = "C10"

# ------------------------------------------------------------------ constants of the oracle
CONSTRUCT_CPU_S = 2.0  # DESIGN C10 (a): CPU <= 2 s per construction
CONSTRUCT_ALARM_S = 4.0
SIZE_C, SIZE_K = 8, 2000000  # compiled program size <= 8*len(p) + 2e6 unless refused
DEFAULT_STEP_LIMIT = 100000  # documented default budget of one match attempt
RSS_GROWTH_KB = 300 * 1024  # DESIGN C10 (b): worker RSS growth <= 300 MB
T_VIRTUAL = 0.02  # 20 virtual ms, delta = 1 ms per clock read
DELTA = 0.001
CPU_MARGIN_S = 2.0  # DESIGN 2.5: CPU beyond T bounded by 2 s
PY_STEP_TARGET = 600000  # size py-level cases so (L+1)*S stays near this many steps
STACK_LIMIT = 10000  # documented default backtrack-stack budget
KNOWN_LOOKAROUND = "C10-lookaround-budget"
GUARD_LOOKAROUND = "re.lookaround.submatcher"


@contextlib.contextmanager
def cpu_alarm(seconds):
    """Like pool.cpu_alarm, but re-armed every 0.25 CPU-s: an alarm that lands inside a
    gc callback or a __del__ is swallowed by the interpreter ("Exception ignored in"),
    and this engine really does not come back on its own."""
    old = signal.signal(signal.SIGVTALRM, pool._alarm_handler)
    signal.setitimer(signal.ITIMER_VIRTUAL, seconds, 0.25)
    try:
        yield
    finally:
        while True:
            try:
                signal.setitimer(signal.ITIMER_VIRTUAL, 0)
                signal.signal(signal.SIGVTALRM, old)
                break
            except pool.HarnessTimeout:
                continue


def _m():
    return engine.load()


def _rx():
    m = _m()
    import importlib

    return importlib.import_module(m.__name__ + ".regex")


def _exc(e):
    info = engine.exc_info(e)
    return ["exception", info["cls"], (info["message"] or "")[:80], info["frame"], bool(info["family"])]


def _prog_size(re_obj):
    """Size of the compiled program, read fail-soft from the engine's private attribute; None when it
    cannot be read (the clauses that depend on it then do not judge)."""
    bc = getattr(re_obj, "_bytecode", None) if re_obj is not None else None
    try:
        return len(bc) or None
    except TypeError:
        return None


def stack_error_legit(L, prog_size):
    """With the zero-width-iteration guards a path visits each (pc, position) pair at most
    once, so at most (L+1)*|program| backtrack entries can be pending: the stack budget can
    only be exhausted when that product exceeds it.  Exhausting it on a shorter subject
    means an empty loop is spinning."""
    return not prog_size or (L + 1) * prog_size > STACK_LIMIT


def _maxrss():
    return resource.getrusage(resource.RUSAGE_SELF).ru_maxrss


# ===================================================================== campaign (a)
class _Polls:
    """Counting poll callback handed to the public `poll_callback` parameter."""

    def __init__(self):
        self.n = 0
        self.limit = None

    def __call__(self):
        self.n += 1
        return self.limit is not None and self.n > self.limit


def py_construct(p, f):
    """RegExp(p, f) at the Python API.  -> (kind, detail, cpu_s, regexp|None, polls)"""
    rx = _rx()
    t0 = time.process_time()
    re_obj = None
    polls = _Polls()
    try:
        with cpu_alarm(CONSTRUCT_ALARM_S):
            re_obj = rx.RegExp(p, f, poll_callback=polls, poll_interval=100)  # the step bound below counts polls of 100 steps
        out = ("ok", None)
    except pool.HarnessTimeout:
        out = ("cpu", None)
    except rx.RegExpError as e:
        out = ("refused", str(e)[:60])
    except BaseException as e:  # noqa - anything else is the finding
        out = ("exc", _exc(e))
    return out[0], out[1], time.process_time() - t0, re_obj, polls


def py_exec_smoke(re_obj, polls, s):
    """exec() of an accepted random pattern on a short subject: result or the two
    documented budget errors; steps bounded by (len+1)*(S+1) (+ slack)."""
    rx = _rx()
    polls.n = 0
    polls.limit = limit = ((len(s) + 2) * (DEFAULT_STEP_LIMIT + 1)) // 100 + 4
    try:
        with cpu_alarm(20.0):
            r = re_obj.exec(s)
        return ("ok", None if r is None else "match"), polls.n, limit
    except pool.HarnessTimeout:
        return ("cpu", None), polls.n, limit
    except rx.RegexStackOverflow:
        return ("stack", None), polls.n, limit
    except rx.RegexTimeoutError:
        return ("budget", None), polls.n, limit
    except BaseException as e:  # noqa
        return ("exc", _exc(e)), polls.n, limit


_JS_BATCH = """
var out = [];
for (var i = 0; i < P.length; i++) {
  var p = P[i], f = F[i], r = "";
  try { new RegExp(p, f); r += "ok"; } catch (e) { r += (e instanceof SyntaxError) ? "SE" : "X"; }
  r += "|";
  try { RegExp(p, f); r += "ok"; } catch (e) { r += (e instanceof SyntaxError) ? "SE" : "X"; }
  r += "|";
  try { "s".match(p); r += "ok"; } catch (e) { r += (e instanceof SyntaxError) ? "SE" : "X"; }
  r += "|";
  try { "s".search(p); r += "ok"; } catch (e) { r += (e instanceof SyntaxError) ? "SE" : "X"; }
  out.push(r);
}
out
"""
ENTRIES = ["new", "call", "match", "search"]
_ENTRY_EXPR = {
    "new": "new RegExp(P[0], F[0])",
    "call": "RegExp(P[0], F[0])",
    "match": '"s".match(P[0])',
    "search": '"s".search(P[0])',
}


def _ctx(ps, fs, T=5.0):
    m = _m()
    ctx = m.Context(time_limit=T)
    ctx.set("P", list(ps))
    ctx.set("F", list(fs))
    return ctx


def js_caught(entry, p, f):
    """try{ <construct> }catch(e){...} for one pattern. -> 'ok' | 'SE' | 'X' | ['exception',...] | ['cpu']"""
    if entry == "lit":
        src = 'var r; try { /%s/%s; r = "ok"; } catch (e) { r = (e instanceof SyntaxError) ? "SE" : "X"; } r' % (p, f)
    else:
        src = 'var r; try { %s; r = "ok"; } catch (e) { r = (e instanceof SyntaxError) ? "SE" : "X"; } r' % _ENTRY_EXPR[entry]
    try:
        with cpu_alarm(CONSTRUCT_ALARM_S + 2):
            return _ctx([p], [f]).eval(src)
    except pool.HarnessTimeout:
        return ["cpu"]
    except BaseException as e:  # noqa
        return _exc(e)


def js_uncaught(entry, p, f):
    """<construct> with no handler. -> 'ok' | ['jserror', cls] | ['exception', ...] | ['cpu']"""
    m = _m()
    src = ("/%s/%s; 1" % (p, f)) if entry == "lit" else (_ENTRY_EXPR[entry] + "; 1")
    try:
        with cpu_alarm(CONSTRUCT_ALARM_S + 2):
            _ctx([p], [f]).eval(src)
        return "ok"
    except pool.HarnessTimeout:
        return ["cpu"]
    except m.JSError as e:
        return ["jserror", type(e).__name__]
    except BaseException as e:  # noqa
        return _exc(e)


def js_batch(cases):
    """Caught-construction outcome of the four non-literal entry points for many patterns
    in one eval; falls back to one eval per (pattern, entry) when the batch itself fails."""
    ps = [c[0] for c in cases]
    fs = [c[1] for c in cases]
    try:
        with cpu_alarm(CONSTRUCT_ALARM_S * len(cases) + 5):
            r = _ctx(ps, fs, T=30.0).eval(_JS_BATCH)
        if isinstance(r, list) and len(r) == len(cases) and all(isinstance(x, str) and x.count("|") == 3 for x in r):
            return [x.split("|") for x in r]
    except BaseException:  # noqa - isolate below
        pass
    return [[js_caught(en, p, f) for en in ENTRIES] for p, f in zip(ps, fs)]


def judge_construct_py(p, f, kind, detail, cpu, re_obj):
    """-> list of (signature, expected, actual)"""
    v = []
    if kind == "exc":
        v.append(("A|py|exception %s at %s" % (detail[1], detail[3]), "RegExp object or RegExpError", detail))
    elif kind == "cpu" or cpu > CONSTRUCT_CPU_S:
        v.append(("A|py|construction work unbounded", "CPU <= %.1f s" % CONSTRUCT_CPU_S, ["cpu_s", round(cpu, 2), kind]))
    if kind == "ok":
        bc = getattr(re_obj, "_bytecode", None)
        if bc is not None and len(bc) > SIZE_C * len(p) + SIZE_K:
            v.append(("A|py|program size", "<= %d*len(p)+%d" % (SIZE_C, SIZE_K), ["size", len(bc)]))
    return v


def judge_construct_js(entry, caught, uncaught):
    """Script-level clause: success, or a SyntaxError the script can catch and that
    uncaught reaches Python as JSError.  For the literal an early error (JSError raised
    by eval before the try runs) is the other permitted way to refuse."""
    v = []
    exp = "'ok' or caught SyntaxError"
    if isinstance(caught, list):
        if caught[0] == "cpu":
            v.append(("A|js %s|construction work unbounded" % entry, exp, caught))
        elif entry == "lit" and caught[0] == "exception" and caught[4]:
            pass  # early error of the literal
        else:
            where = "" if caught[1] == "RegExpError" else " at " + str(caught[3])
            v.append(("A|js %s|not catchable: %s%s" % (entry, caught[1], where), exp, caught))
    elif caught == "X":
        v.append(("A|js %s|caught error is not a SyntaxError" % entry, exp, caught))
    elif caught not in ("ok", "SE", "ME"):
        v.append(("A|js %s|odd result" % entry, exp, repr(caught)[:80]))
    if uncaught is not None:
        if isinstance(uncaught, list) and uncaught[0] == "exception" and uncaught[4]:
            uncaught = ["jserror", uncaught[1]]
        if uncaught == "ok":
            if caught in ("SE", "ME"):
                v.append(("A|js %s|error when caught, none when not" % entry, "JSError", uncaught))
        elif uncaught[0] != "jserror":
            v.append(("A|js %s|uncaught reaches Python as %s" % (entry, uncaught[1] if len(uncaught) > 1 else uncaught[0]),
                      "microjs.errors.JSError", uncaught))
    return v


def eval_a_py(p, f, s, guard_on=False):
    """Python-API part of campaign (a) for one (pattern, flags, subject). -> (violations, info)"""
    kind, detail, cpu, re_obj, polls = py_construct(p, f)
    viol = [(sig, {"sub": "A", "entry": "py", "p": p, "f": f}, e, a) for sig, e, a in judge_construct_py(p, f, kind, detail, cpu, re_obj)]
    info = {"py": kind, "cpu": cpu, "size": _prog_size(re_obj)}
    if kind == "ok" and s is not None and guard_on and G.has_lookaround(p):
        info["excluded"] = KNOWN_LOOKAROUND
    elif kind == "ok" and s is not None:
        out, npolls, limit = py_exec_smoke(re_obj, polls, s)
        info["exec"] = out[0]
        case = {"sub": "A", "entry": "py-exec", "p": p, "f": f, "s": s}
        if out[0] == "exc":
            viol.append(("A|py-exec|exception %s at %s" % (out[1][1], out[1][3]), case, "match, null, RegexStackOverflow or RegexTimeoutError", out[1]))
        elif out[0] in ("cpu", "budget"):
            viol.append(("A|py-exec|steps beyond (len+1)*step_limit", case, ["polls<=", limit], [out[0], npolls]))
        elif out[0] == "stack" and not stack_error_legit(len(s), info["size"]) and not (guard_on and G.has_lookaround(p)):
            viol.append(("A|py-exec|stack budget exhausted on a short subject (empty loop spins)", case, "match or null", ["RegexStackOverflow", "len", len(s), "program", info["size"]]))
    return viol, info


def eval_a_js(p, f, res, info):
    """Script-level part: `res` maps entry point -> caught-construction outcome."""
    viol = []
    info["js"] = {en: (c if isinstance(c, str) else c[0] + ":" + str(c[1] if len(c) > 1 else "")) for en, c in res.items()}
    for en, c in res.items():
        if en in ("match", "search") and c == "X" and (res.get("new") or js_caught("new", p, f)) == "ok":
            # the pattern was accepted: the error came from matching "s" (a budget error of
            # the matcher) - any script-catchable error that reaches Python as JSError will do
            c = "ME"
            info["js"][en] = "match-error"
        u = js_uncaught(en, p, f) if c != "ok" else None
        for sig, e, a in judge_construct_js(en, c, u):
            viol.append((sig, {"sub": "A", "entry": en, "p": p, "f": f}, e, a))
    return viol


def gen_a(part, seed, n):
    """Hypothesis-generated (pattern, flags, subject) triples of one sub-campaign."""
    import hypothesis
    from hypothesis import HealthCheck, settings
    from hypothesis import strategies as st

    flags_ok = st.one_of(st.just(""), st.just(""), st.sampled_from(["i", "g", "m", "s", "u", "y", "gi", "iu", "my", "gimsuy"]),
                         st.text(alphabet=G.FLAG_CHARS, max_size=4))
    flags_odd = st.lists(st.sampled_from(G.FLAG_NOISE), max_size=6).map("".join)
    subj = st.sampled_from(G.EXEC_SUBJECTS)
    if part == "soup":
        strat = st.tuples(st.binary(max_size=16).map(G.soup), flags_ok, subj)
    elif part == "mut":
        strat = st.tuples(st.binary(max_size=28).map(G.build_valid), flags_ok, subj, st.integers(0, 10**6))
    elif part == "flags":
        strat = st.tuples(st.one_of(st.binary(max_size=20).map(G.build_valid), st.sampled_from(["", "a", "(", "[", "a{2,1}"])), flags_odd, subj)
    else:
        raise KeyError(part)
    out = []

    @hypothesis.seed(seed)
    @settings(max_examples=n, database=None, deadline=None, derandomize=False,
              suppress_health_check=[HealthCheck.too_slow, HealthCheck.data_too_large, HealthCheck.large_base_example],
              phases=[hypothesis.Phase.generate])
    @hypothesis.given(strat)
    def collect(t):
        out.append(t)

    collect()
    import gc

    gc.callbacks[:] = [cb for cb in gc.callbacks if not (getattr(cb, "__module__", "") or "").startswith("hypothesis")]
    if part == "mut":  # mutation kind by example index: every kind gets its share
        out = [(G.mutate(t[0], G.mutation_for(i), t[3]), t[1], t[2], G.mutation_for(i)) for i, t in enumerate(out)]
    return out


def _shrink_pattern(p, keep):
    """Greedy chunk deletion (ddmin-like) keeping `keep(candidate)` true; bounded effort."""
    budget = [120]
    cur = p
    size = max(1, len(cur) // 2)
    while size >= 1 and budget[0] > 0:
        i = 0
        changed = False
        while i < len(cur) and budget[0] > 0:
            cand = cur[:i] + cur[i + size:]
            budget[0] -= 1
            if cand != cur and keep(cand):
                cur = cand
                changed = True
            else:
                i += size
        if not changed or size > len(cur):
            size //= 2
    return cur


def a_task(task):
    """One worker task of campaign (a): generate with Hypothesis, evaluate, judge, shrink."""
    part, shard, n, seed, js_every, lit_every, guard_on = task
    triples = gen_a(part, seed, n)
    res = {"n": 0, "classes": {}, "nontrivial": [], "viol": {}, "samples": [], "js": 0, "excluded": 0}

    def cls(label):
        res["classes"][label] = res["classes"].get(label, 0) + 1

    py = [eval_a_py(t[0], t[1], t[2], guard_on) for t in triples]
    # script level for every js_every-th example: all entry points in one eval when the pattern is
    # cheap to construct, one rotating entry point when it costs a compile budget
    sel = [i for i in range(len(triples)) if js_every and i % js_every == 0]
    cheap = [i for i in sel if py[i][1]["cpu"] < 0.05 and len(triples[i][0]) <= 400]
    js_res = {}
    if cheap:
        for i, r in zip(cheap, js_batch([(triples[i][0], triples[i][1]) for i in cheap])):
            js_res[i] = dict(zip(ENTRIES, r))
            if lit_every and (i // js_every) % lit_every == 0 and G.literal_ok(triples[i][0], triples[i][1]):
                js_res[i]["lit"] = js_caught("lit", triples[i][0], triples[i][1])
    for i in sel:
        if i not in js_res:
            en = (ENTRIES + ["lit"])[(i // js_every) % 5]
            if en == "lit" and not G.literal_ok(triples[i][0], triples[i][1]):
                en = "new"
            js_res[i] = {en: js_caught(en, triples[i][0], triples[i][1])}
    for i, t in enumerate(triples):
        p, f, s = t[0], t[1], t[2]
        mut = t[3] if len(t) > 3 else part
        viol, info = py[i]
        if i in js_res:
            viol = viol + eval_a_js(p, f, js_res[i], info)
        res["n"] += 1 + len(info.get("js", ())) + (1 if "exec" in info else 0)
        res["js"] += 1 if i in js_res else 0
        res["excluded"] += 1 if "excluded" in info else 0
        cls("a %s: %s" % (mut if part == "mut" else part, info["py"]))
        if "exec" in info:
            cls("a exec: %s" % info["exec"])
        for en, o in info.get("js", {}).items():
            cls("a js %s: %s" % (en, o if o in ("ok", "SE", "match-error") else "other"))
        if (info["py"] == "refused" and len(p) >= 3) or (info["py"] == "ok" and any(c in p for c in "(*+?{")):
            res["nontrivial"].append(core.h16([p, f]))
        if len(res["samples"]) < 3 and i % 97 == 4:
            res["samples"].append({"sub": "A/" + part, "p": p[:80], "f": f, "python_api": info["py"], "script": info.get("js"), "exec": info.get("exec")})
        for sig, case, e, a in viol:
            rec = res["viol"].get(sig)
            if rec is None:
                res["viol"][sig] = {"case": case, "expected": e, "actual": a, "count": 1}
            else:
                rec["count"] += 1
                if len(case.get("p", "")) < len(rec["case"].get("p", "")):
                    rec["case"], rec["expected"], rec["actual"] = case, e, a
    # shrink one representative per signature
    for sig, rec in res["viol"].items():
        case = rec["case"]
        if len(case["p"]) > 2000:
            continue

        def keep(cand, case=case, sig=sig):
            c2 = dict(case, p=cand)
            return sig in [x[0] for x in _rejudge_a(c2)]

        try:
            small = _shrink_pattern(case["p"], keep)
        except BaseException:  # noqa
            small = case["p"]
        if small != case["p"]:
            c2 = dict(case, p=small)
            for s2, e2, a2 in _rejudge_a(c2):
                if s2 == sig:
                    rec["case"], rec["expected"], rec["actual"] = c2, e2, a2
    return res


def _rejudge_a(case):
    """Re-run exactly one recorded case of campaign (a). -> [(sig, expected, actual)]"""
    p, f, entry = case["p"], case.get("f", ""), case["entry"]
    if entry == "py":
        kind, detail, cpu, re_obj, polls = py_construct(p, f)
        return judge_construct_py(p, f, kind, detail, cpu, re_obj)
    if entry == "py-exec":
        kind, detail, cpu, re_obj, polls = py_construct(p, f)
        if kind != "ok":
            return []
        out, npolls, limit = py_exec_smoke(re_obj, polls, case.get("s", ""))
        if out[0] == "exc":
            return [("A|py-exec|exception %s at %s" % (out[1][1], out[1][3]), "match, null, RegexStackOverflow or RegexTimeoutError", out[1])]
        if out[0] in ("cpu", "budget"):
            return [("A|py-exec|steps beyond (len+1)*step_limit", ["polls<=", limit], [out[0], npolls])]
        size = _prog_size(re_obj)
        if out[0] == "stack" and not stack_error_legit(len(case.get("s", "")), size):
            return [("A|py-exec|stack budget exhausted on a short subject (empty loop spins)", "match or null", ["RegexStackOverflow", "len", len(case.get("s", "")), "program", size])]
        return []
    c = js_caught(entry, p, f)
    if entry in ("match", "search") and c == "X" and js_caught("new", p, f) == "ok":
        c = "ME"
    u = js_uncaught(entry, p, f) if c != "ok" else None
    return judge_construct_js(entry, c, u)


def run_a(chk, guard_on):
    quick = chk.tier == "quick"
    # (part, examples per shard, shards, script-level every k-th, literal every k-th of those)
    plan = [("soup", 2500, 20, 4, 1), ("mut", 1500, 20, 4, 1), ("flags", 600, 8, 3, 2)] if quick else \
           [("soup", 12000, 64, 4, 1), ("mut", 8000, 64, 4, 1), ("flags", 4000, 16, 3, 2)]
    tasks = []
    for part, n, shards, js_every, lit_every in plan:
        for sh in range(shards):
            tasks.append((part, sh, n, core.shard_seed(chk.seed, ID, "A", part, sh), js_every, lit_every, guard_on))
    results = pool.run(a_task, tasks, timeout=900 if quick else 3600)
    for task, r in zip(tasks, results):
        if isinstance(r, (pool.HANG, pool.CRASH)):
            # every engine call in a_task runs under a CPU alarm: a stuck worker means one
            # native call never returned - report with the shard so it can be regenerated
            chk.violation("A|%s|worker %r" % (task[0], r), {"sub": "A", "entry": "shard", "part": task[0], "shard": task[1], "n": task[2], "seed": task[3]},
                          "task completes", repr(r), sub="A")
            continue
        chk.count(r["n"])
        if r["excluded"]:
            chk.excluded[KNOWN_LOOKAROUND] += r["excluded"]
        chk.nontrivial_many(r["nontrivial"])
        for k, n in r["classes"].items():
            chk.classify(k, n)
        for s in r["samples"]:
            chk.sample(s, cls="A/" + task[0], per_class=4)
        for sig, rec in r["viol"].items():
            for _ in range(rec["count"]):
                chk.violation(sig, rec["case"], rec["expected"], rec["actual"], sub="A")
            # keep the smallest representative
            cur = chk.violations[sig]
            if len(rec["case"].get("p", "")) < len(cur["case"].get("p", "")):
                cur["case"], cur["expected"], cur["actual"] = rec["case"], rec["expected"], rec["actual"]


# ===================================================================== campaign (b)
class VClock:
    """Counter clock: every read advances DELTA (DESIGN 2.5)."""

    def __init__(self):
        self.reads = 0
        self.first = None
        self.late = 0
        self.T = None

    def read(self):
        self.reads += 1
        v = 1000.0 + self.reads * DELTA
        if self.first is None:
            self.first = v
        elif self.T is not None and v > self.first + self.T + 1e-9:
            self.late += 1
        return v


@contextlib.contextmanager
def vclock(T):
    clk = VClock()
    clk.T = T
    saved = (time.monotonic, time.perf_counter)
    time.monotonic = clk.read
    time.perf_counter = clk.read
    try:
        yield clk
    finally:
        time.monotonic, time.perf_counter = saved


_CAL = {}


def _step_cost():
    """CPU seconds the engine needs for one full default step budget (calibration of the
    CPU bound for script-level cases without a time limit; measured once per worker).
    Measured on a workload that is finite whatever the budgets do (2^14 paths), steps
    counted through the poll callback."""
    if "t" not in _CAL:
        rx = _rx()
        polls = _Polls()
        t = 0.1
        try:
            with cpu_alarm(30):
                re_obj = rx.RegExp("^(a|a)*b", "", poll_callback=polls, poll_interval=50)
                t0 = time.process_time()
                re_obj.exec("a" * 14)
                cpu = time.process_time() - t0
            if polls.n >= 100:
                t = cpu * DEFAULT_STEP_LIMIT / (polls.n * 50)
        except BaseException:  # noqa
            pass
        _CAL["t"] = min(max(t, 0.02), 0.5)
    return _CAL["t"]


_JS_API = {
    "exec": "var r = RE.exec(S); r === null ? -1 : r[0].length",
    "test": "RE.test(S) ? 1 : 0",
    "match": "var r = S.match(RE); r === null ? -1 : r.length",
    "matchg": "var r = S.match(RE); r === null ? -1 : r.length",
    "replace": 'S.replace(RE, "x").length',
    "replaceg": 'S.replace(RE, "x").length',
    "split": "S.split(RE).length",
    "search": "S.search(RE)",
}


def b_source(case):
    pat, flags, api, ctor = case["pat"], case["flags"], case["api"], case["ctor"]
    if api in ("matchg", "replaceg"):
        flags += "g"
    if ctor == "lit":
        pre = "var RE = /%s/%s;" % (pat, flags)
    elif ctor == "new":
        pre = "var RE = new RegExp(PAT, %s);" % core.jdump(flags)
    elif ctor == "str":  # string pattern: match / search convert it themselves
        pre = "var RE = PAT;"
    else:
        raise KeyError(ctor)
    return pre + " " + _JS_API[api]


def b_eval(case):
    """Run one case of campaign (b). -> result dict (pure data)"""
    m = _m()
    rx = _rx()
    subj = G.subject(case["unit"], case["n"], case["tail"])
    L = len(subj)
    out = {"L": L, "prog": None}
    try:
        with cpu_alarm(CONSTRUCT_ALARM_S):
            out["prog"] = _prog_size(rx.RegExp(case["pat"], case["flags"]))
    except BaseException:  # noqa - construction is judged by campaign (a)
        pass
    rss0 = _maxrss()
    t0 = time.process_time()
    if case["level"] == "py":
        interval = 50
        S = case["S"]
        polls = [0]
        limit = ((L + 2) * (S + 1)) // interval
        limit = limit + limit // 20 + 4

        def cb():
            polls[0] += 1
            return polls[0] > limit

        try:
            with cpu_alarm(60):
                re_obj = rx.RegExp(case["pat"], case["flags"], poll_callback=cb, poll_interval=interval)
                reduced = False
                if S != DEFAULT_STEP_LIMIT:
                    orig = re_obj._create_vm

                    def mk():
                        vm = orig()
                        vm.step_limit = S
                        return vm

                    re_obj._create_vm = mk
                    reduced = hasattr(orig(), "step_limit")
                r = re_obj.test(subj) if case["api"] == "test" else re_obj.exec(subj)
            out["outcome"] = ["ok", bool(r)]
            if S != DEFAULT_STEP_LIMIT and not reduced:
                out["outcome"] = ["skip", "no step_limit attribute"]
        except pool.HarnessTimeout:
            out["outcome"] = ["cpu"]
        except rx.RegexStackOverflow:
            out["outcome"] = ["stack"]
        except rx.RegexTimeoutError:
            out["outcome"] = ["over-budget"]
        except BaseException as e:  # noqa
            out["outcome"] = _exc(e)
        out["polls"] = polls[0]
        out["poll_limit"] = limit
    else:
        T = case["T"]
        src = b_source(case)
        ctx = m.Context(time_limit=T)
        ctx.set("S", subj)
        ctx.set("PAT", case["pat"])
        if T is None:
            # work implied by the budgets: one full step budget per start position; a pattern
            # anchored with ^ (no m flag) ends every attempt but the first within a few steps
            budgets = 2 if case["pat"].startswith("^") and "m" not in case["flags"] else (L + 2)
            alarm = max(6.0, 6.0 * _step_cost() * budgets)
            out["alarm"] = round(alarm, 1)
            try:
                with cpu_alarm(alarm):
                    r = ctx.eval(src)
                out["outcome"] = ["ok", r]
            except pool.HarnessTimeout:
                out["outcome"] = ["cpu"]
            except m.JSError as e:
                out["outcome"] = ["jserror", type(e).__name__, str(e)[:60]]
            except BaseException as e:  # noqa
                out["outcome"] = _exc(e)
        else:
            with vclock(T) as clk:
                try:
                    with cpu_alarm(CPU_MARGIN_S + 4.0):
                        r = ctx.eval(src)
                    out["outcome"] = ["ok", r]
                except pool.HarnessTimeout:
                    out["outcome"] = ["cpu"]
                except m.JSError as e:
                    out["outcome"] = ["jserror", type(e).__name__, str(e)[:60]]
                except BaseException as e:  # noqa
                    out["outcome"] = _exc(e)
            out["reads"] = clk.reads
            out["late"] = clk.late
    out["cpu"] = round(time.process_time() - t0, 3)
    out["rss_kb"] = _maxrss() - rss0
    return out


def b_judge(case, out):
    """-> list of (signature, expected, actual)"""
    v = []
    o = out["outcome"]
    if o[0] == "skip":
        return v
    if o[0] == "exception":
        which = "private regex error" if o[1] in ("RegexStackOverflow", "RegexTimeoutError", "RegExpError") else "host exception"
        v.append(("B|%s|%s %s escapes" % (case["level"], which, o[1]), "a result or a JSError" if case["level"] == "js" else "a result, RegexStackOverflow or RegexTimeoutError", o))
    short = not stack_error_legit(out["L"], out.get("prog")) and not case.get("guarded_look")
    if case["level"] == "py":
        if o[0] == "stack" and short:
            v.append(("B|py|stack budget exhausted on a short subject (empty loop spins)|" + case["fam"], "match or null",
                      ["RegexStackOverflow", "len", out["L"], "program", out.get("prog")]))
        if o[0] in ("over-budget", "cpu"):
            v.append(("B|py|steps beyond (len+1)*step_limit|" + case["fam"], ["polls<=", out["poll_limit"]], [o[0], out["polls"]]))
    else:
        if o[0] == "jserror" and o[1] != "TimeLimitError" and short:
            v.append(("B|js|error although no budget can be exhausted on so short a subject|" + case["fam"], "a result",
                      o + ["len", out["L"], "program", out.get("prog")]))
        if case.get("T") is None:
            if o[0] == "cpu":
                v.append(("B|js|no result within the CPU implied by the step budget|" + case["fam"],
                          "result or JSError within %.0f CPU-s (6 x cost of the step budgets of all start positions)" % out.get("alarm", 0), ["cpu_s", out["cpu"]]))
        else:
            if o[0] == "cpu" or out["cpu"] > CPU_MARGIN_S + T_VIRTUAL:
                v.append(("B|js-T|CPU beyond time limit + %.0f s|%s" % (CPU_MARGIN_S, case["fam"]), "TimeLimitError at the first poll after the deadline", ["cpu_s", out["cpu"], o[0]]))
            if out.get("reads", 0) > 0 and (out["late"] > 8 or out["reads"] > T_VIRTUAL / DELTA + 8 + 2):
                v.append(("B|js-T|clock reads after the deadline|" + case["fam"], "late reads <= 8", ["reads", out["reads"], "late", out["late"]]))
            if o[0] == "ok" and out.get("reads", 0) > T_VIRTUAL / DELTA + 2 and out.get("late", 0) > 0:
                v.append(("B|js-T|value returned after the deadline was seen|" + case["fam"], "TimeLimitError", ["reads", out["reads"], o]))
    if out["rss_kb"] > RSS_GROWTH_KB:
        v.append(("B|%s|memory growth|%s" % (case["level"], case["fam"]), "peak RSS growth <= 300 MB", ["rss_kb", out["rss_kb"]]))
    return v


def b_task(cases):
    res = []
    for c in cases:
        res.append(b_eval(c))
    return res


def b_cases(chk, guard_on):
    """The grid family x k x n x level x constructor x API, sized by the cost the step
    budget implies (DESIGN C10 (b)): without a time limit an unanchored search may spend
    (len+1) full budgets, so long subjects use the start-anchored sticky variant there."""
    quick = chk.tier == "quick"
    ns = [10, 30, 100, 1000] if quick else [10, 30, 100, 1000, 10000]
    cases = []
    rot = 0
    for fam in G.FAMILIES:
        heavy = "heavy" in fam.tags or "lookq" in fam.tags
        stack = "stack" in fam.tags
        lookq = "lookq" in fam.tags
        look = "look" in fam.tags
        for k in fam.ks:
            for n in (ns + [10000] if stack and quick else ns):
                pat = fam.render(k, n)
                L = len(G.subject(fam.unit, n, fam.tail))
                base = {"sub": "B", "fam": fam.name, "pat": pat, "flags": fam.flags, "unit": fam.unit, "n": n, "tail": fam.tail}
                if look and guard_on:
                    base["guarded_look"] = True  # sub-matchers ignore the advance checks: no short-subject stack clause
                rot += 1
                # --- Python API, exact step accounting through the poll callback
                S = DEFAULT_STEP_LIMIT if n <= 10 else min(DEFAULT_STEP_LIMIT, max(300, PY_STEP_TARGET // (L + 1)))
                for api in (("exec", "test") if (not quick or rot % 3 == chk.seed % 3) else ("exec",)):
                    c = dict(base, level="py", T=None, api=api, ctor="py", S=S)
                    if look and guard_on:
                        chk.excluded[KNOWN_LOOKAROUND] += 1
                    else:
                        cases.append(c)
                # --- script level with a time limit (virtual clock): every constructor x API
                for ctor in ("lit", "new", "str"):
                    for api in G.APIS:
                        if ctor == "str" and (api not in ("match", "search") or fam.flags):
                            continue
                        cases.append(dict(base, level="js", T=T_VIRTUAL, api=api, ctor=ctor))
                # --- script level without a time limit: cost is governed by the step budget
                variants = []
                if heavy or look:
                    unanch_max = 30 if quick else 100
                elif stack:
                    unanch_max = 100
                else:
                    unanch_max = 1000
                if n <= unanch_max:
                    variants.append((pat, fam.flags, (heavy or look) and n >= 10))
                if n >= 100 and not pat.startswith("(?<"):
                    variants.append(("^" + pat, fam.flags + "y", False))
                for vp, vf, dear in variants:
                    apis = list(G.APIS)
                    if dear and quick:
                        # (n+1) full budgets per case: one or two APIs per cell, rotated by seed
                        r = (chk.seed + rot) % len(apis)
                        apis = [apis[r], apis[(r + 3) % len(apis)]] if n <= 10 else [apis[r]]
                    for j, api in enumerate(apis):
                        c = dict(base, pat=vp, flags=vf, level="js", T=None, api=api, ctor=["lit", "new"][(rot + j) % 2])
                        if lookq and guard_on:
                            chk.excluded[KNOWN_LOOKAROUND] += 1
                        else:
                            cases.append(c)
    return cases


def _b_key(c):
    return "%s|%s|%s|%s|%s|%s|%s" % (c["fam"], c["pat"][:40], c["flags"], c["n"], c["level"], c.get("T"), c["api"] + "/" + c["ctor"])


def run_b(chk, guard_on):
    cases = b_cases(chk, guard_on)
    # cheap cases in batches, expensive ones (no time limit) alone
    cheap = [c for c in cases if c["level"] == "js" and c["T"] is not None]
    dear = [c for c in cases if not (c["level"] == "js" and c["T"] is not None)]
    dear.sort(key=lambda c: -(c["n"] if "y" not in c["flags"] else 0))
    batches = [[c] for c in dear] + pool.chunks(cheap, 40)
    results = pool.run(b_task, batches, timeout=600)
    retry = []
    for batch, rb in zip(batches, results):
        if isinstance(rb, (pool.HANG, pool.CRASH)):
            retry.extend(batch)
            continue
        for c, out in zip(batch, rb):
            _b_record(chk, c, out)
    if retry:
        results = pool.run(b_task, [[c] for c in retry], timeout=300)
        for c, rb in zip(retry, results):
            if isinstance(rb, (pool.HANG, pool.CRASH)):
                chk.count()
                chk.violation("B|%s|%r: the worker had to be killed|%s" % (c["level"], rb, c["fam"]), c, "a result or a JSError", repr(rb), sub="B")
            else:
                _b_record(chk, c, rb[0])


def _b_record(chk, c, out):
    chk.count()
    o = out["outcome"]
    lvl = c["level"] + ("-T" if c.get("T") else ("" if c["level"] == "py" else "-noT"))
    label = o[0] if o[0] != "jserror" else "jserror:" + o[1]
    chk.classify("b %s: %s" % (lvl, label))
    if (c["level"] == "py" and out.get("polls", 0) * 50 >= 1000) or (c.get("T") and out.get("reads", 0) >= T_VIRTUAL / DELTA) or \
            (c["level"] == "js" and c.get("T") is None and out["cpu"] >= 10 * 0.001):
        chk.nontrivial("B|" + _b_key(c))
    for sig, e, a in b_judge(c, out):
        chk.violation(sig, c, e, a, sub="B", detail={k: out.get(k) for k in ("L", "cpu", "polls", "reads", "late", "rss_kb")})
    if c["n"] == 30 and c["api"] in ("exec", "replaceg", "split"):
        chk.sample({"sub": "B", "pattern": c["pat"], "flags": c["flags"], "subject": "%r*%d+%r" % (c["unit"], c["n"], c["tail"]), "level": lvl, "api": c["api"],
                    "ctor": c["ctor"], "outcome": o, "polls": out.get("polls"), "reads": out.get("reads"), "cpu_s": out["cpu"]},
                   cls="B/%s/%s" % (lvl, "heavy" if o[0] != "ok" else "ok"), per_class=3)


# ===================================================================== campaign (c): counted quantifiers
# Construction with counted quantifiers over the whole range of counts: accepted or refused, the work AND the
# memory of the attempt stay bounded (the compile budget has to stop the attempt before the space is taken).
CONSTRUCT_PEAK_BYTES = 300 * 1024 * 1024  # same bound as DESIGN C10 (b): 300 MB, here exact (tracemalloc peak of the attempt)
C_ATOMS = ["a", ".", "\\d", "[ab]", "[^a]", "(a)", "(?:ab)", "a?", "(?=a)", "\\b", "(a|b)", "\\1"]
C_FORMS = ["%(A)s{%(n)d}", "%(A)s{%(n)d,}", "%(A)s{%(n)d,%(n1)d}", "%(A)s{0,%(n)d}", "%(A)s{1,%(n)d}", "%(A)s{%(n)d}?", "(?:%(A)s{%(n)d}){2}",
           "(%(A)s{%(r)d}){%(r)d}", "(?:%(A)s{%(n)d}|b)", "(?<=%(A)s{%(n)d})b", "%(A)s{%(n)d}{2}"]


def c_cases(chk):
    quick = chk.tier == "quick"
    counts = []
    for k in range(3, 14):
        for m in (1, 2, 5):
            counts.append(m * 10 ** k)
    counts += [65535, 65536, 2 ** 31 - 1, 2 ** 31, 2 ** 32, 2 ** 53, 199999, 200001]
    out = []
    i = 0
    for ai, A in enumerate(C_ATOMS):
        for fi, F in enumerate(C_FORMS):
            for ci, n in enumerate(sorted(set(counts))):
                i += 1
                if quick and (ai + 2 * fi + ci + chk.seed) % 6 != 0:
                    continue
                pat = F % {"A": A if A != "\\1" else "(a)\\1", "n": n, "n1": n + 1, "r": max(2, int(n ** 0.5))}
                out.append({"sub": "C", "p": pat, "f": "", "n": n, "atom": A, "form": fi})
    return out


def c_eval(case):
    import tracemalloc

    rx = _rx()
    gc.collect()
    tracemalloc.start()
    t0 = time.process_time()
    try:
        try:
            with cpu_alarm(3 * CONSTRUCT_ALARM_S):  # tracing slows allocation down
                rx.RegExp(case["p"], case["f"])
            out = ("ok", None)
        except pool.HarnessTimeout:
            out = ("cpu", None)
        except rx.RegExpError as e:
            out = ("refused", str(e)[:60])
        except BaseException as e:  # noqa
            out = ("exc", _exc(e))
    except pool.HarnessTimeout:
        out = ("cpu", None)
    cpu = time.process_time() - t0
    peak = tracemalloc.get_traced_memory()[1]
    tracemalloc.stop()
    gc.collect()
    return {"outcome": out, "cpu": round(cpu, 3), "peak": peak}


def c_judge(case, r):
    v = []
    kind, detail = r["outcome"]
    if kind == "exc":
        v.append(("C|exception %s at %s" % (detail[1], detail[3]), "RegExp object or RegExpError", detail))
    elif kind == "cpu":
        v.append(("C|construction work unbounded|form%d" % case["form"], "returns within %.0f CPU-s (traced)" % (3 * CONSTRUCT_ALARM_S), ["cpu_s", r["cpu"]]))
    if r["peak"] > CONSTRUCT_PEAK_BYTES:
        v.append(("C|construction memory unbounded|%s" % kind, "peak allocation <= %d MB" % (CONSTRUCT_PEAK_BYTES >> 20), ["peak_mb", r["peak"] >> 20, kind]))
    return v


def c_task(cases):
    return [c_eval(c) for c in cases]


def run_c(chk):
    cases = c_cases(chk)
    batches = pool.chunks(cases, 6)
    results = pool.run(c_task, batches, timeout=600, mem_bytes=8 << 30)
    peak = 0
    for batch, rb in zip(batches, results):
        if isinstance(rb, (pool.HANG, pool.CRASH)):
            rs = pool.run(c_task, [[c] for c in batch], timeout=200, mem_bytes=8 << 30)
            rb = []
            for c, r1 in zip(batch, rs):
                if isinstance(r1, (pool.HANG, pool.CRASH)):
                    chk.count()
                    chk.violation("C|%r: the worker had to be killed|form%d" % (r1, c["form"]), c, "RegExp object or RegExpError", repr(r1), sub="C")
                    rb.append(None)
                else:
                    rb.append(r1[0])
        for c, r in zip(batch, rb):
            if r is None:
                continue
            chk.count()
            chk.classify("c %s" % r["outcome"][0])
            if c["n"] >= 10000:
                chk.nontrivial("C|" + c["p"])
            peak = max(peak, r["peak"])
            for sig, e, a in c_judge(c, r):
                chk.violation(sig, c, e, a, sub="C", detail={"cpu": r["cpu"], "peak_bytes": r["peak"]})
            if c["n"] in (5000000, 2 ** 31) and c["form"] < 3:
                chk.sample({"sub": "C", "pattern": c["p"], "outcome": r["outcome"], "cpu_s": r["cpu"], "peak_mb": round(r["peak"] / 1e6, 1)}, cls="C", per_class=4)
    chk.extra["counted_quantifier_cases"] = len(cases)
    chk.extra["counted_quantifier_peak_alloc_mb"] = round(peak / 1e6, 1)


# ===================================================================== campaign (d): every script-level API comes back
# Accepted random patterns x flag sets (g, y, u, i, m, s) x short subjects with astral characters, lone
# surrogates, newlines, through every regex-consuming API: a result or a JSError, never a call that does not
# come back (global loops have to advance over empty matches wherever they are).
D_SUBJECT_PARTS = ["a", "b", "ab", "A", "1", "_", " ", "\n", "\U0001F600", "\U0001F600\U0001F601", "\ud83d", "\ude00", "\u00e9", "\u2028", "x\U00010000y"]
D_FLAGS = ["", "g", "y", "gy", "u", "gu", "uy", "guy", "gi", "gm", "gs", "gimsuy", "iu", "gmu"]
D_EMPTY_MATCHERS = ["", "(?:)", "a*", "x*", "\\d*", "(?=.)|$", "(a)?", "\\b", "^", "$", "(?!x)", "(?<=.)", "[^]*?", ".*?", "(?:a|)", "()", "(|a)+", "\\B", "(?=(a))?", "a{0}",
                    ".??", "(?<!x)", "$|^", "(?:^|$)", "[ab]*", "\\s*", "\\uD83D?", "\\u{1F600}?", ".", "[^a]", "\\W*", "\\S?"]
_D_JS = """
var r; var out = [];
var step = function(name, f){ try { var v = f(); out.push(name + ':' + (v === null ? 'null' : typeof v)); } catch (e) { out.push(name + ':E:' + (e && e.name)); } };
try { r = new RegExp(P, F); } catch (e) { r = null; out.push('ctor:E:' + (e && e.name)); }
if (r) {
  step('match', function(){ r.lastIndex = 0; return S.match(r); });
  step('replace', function(){ r.lastIndex = 0; return S.replace(r, '[$&]'); });
  step('replace-fn', function(){ r.lastIndex = 0; return S.replace(r, function(m){ return '<' + m + '>'; }); });
  step('replaceAll', function(){ r.lastIndex = 0; return S.replaceAll(r, '-'); });
  step('split', function(){ r.lastIndex = 0; return S.split(r); });
  step('split-limit', function(){ r.lastIndex = 0; return S.split(r, 3); });
  step('search', function(){ r.lastIndex = 0; return S.search(r); });
  step('matchAll', function(){ r.lastIndex = 0; var it = S.matchAll(r); var n = 0; if (it && typeof it.next === 'function') { while (!it.next().done && n < 200) n++; } else if (it && it.length !== undefined) { n = it.length; } return n; });
  step('exec-loop', function(){ r.lastIndex = 0; var n = 0; while (r.exec(S) && n < 60) n++; return n; });
  step('test-loop', function(){ r.lastIndex = 0; var n = 0; while (r.test(S) && n < 60) n++; return n; });
  step('lastIndex-mid', function(){ var n = 0; for (var i = 0; i <= S.length + 1; i++) { r.lastIndex = i; r.exec(S); r.lastIndex = i; S.match(r); r.lastIndex = i; S.replace(r, ''); n++; } return n; });
}
out.join(',')
"""
D_T = 3.0
D_ALARM = 12.0


def d_cases(chk):
    import random  # deterministic selection only (seeded)

    from gens import patterns as PT

    rnd = random.Random(core.shard_seed(chk.seed, ID, "D"))
    quick = chk.tier == "quick"
    out = []

    def subject():
        return "".join(rnd.choice(D_SUBJECT_PARTS) for _ in range(rnd.randint(0, 5)))

    fixed_subjects = ["", "\U0001F600", "a\U0001F600", "\U0001F600a", "\U0001F600\U0001F601", "\ud83d", "\ude00a", "ab", "a\nb"]
    for pi, pat in enumerate(D_EMPTY_MATCHERS):
        for fi, fl in enumerate(D_FLAGS):
            for si, sub in enumerate(fixed_subjects):
                if quick and (pi + fi + si + chk.seed) % 3 != 0:
                    continue
                out.append({"sub": "D", "p": pat, "f": fl, "s": sub})
    n_rand = 1500 if quick else 40000
    for k in range(n_rand):
        ast = PT.random_ast(random.Random(core.shard_seed(chk.seed, ID, "D", k)), max_depth=rnd.choice([1, 2, 2, 3]))
        out.append({"sub": "D", "p": PT.to_source(ast), "f": rnd.choice(D_FLAGS), "s": subject()})
    return out


def d_eval(case):
    m = _m()
    ctx = m.Context(time_limit=D_T, memory_limit=64 * 1024 * 1024)
    ctx.set("P", case["p"])
    ctx.set("F", case["f"])
    ctx.set("S", case["s"])
    t0 = time.process_time()
    try:
        try:
            with cpu_alarm(D_ALARM):
                r = ctx.eval(_D_JS)
            out = ("ok", str(r)[:400])
        except pool.HarnessTimeout:
            out = ("hang", None)
        except m.JSError as e:
            out = ("jserror", type(e).__name__)
        except BaseException as e:  # noqa
            out = ("exc", _exc(e))
    except pool.HarnessTimeout:
        out = ("hang", None)
    return {"outcome": out, "cpu": round(time.process_time() - t0, 3)}


def d_judge(case, r):
    kind, detail = r["outcome"]
    if kind == "hang":
        return [("D|no return: time limit %.0f s set, still running after %.0f CPU-s|flags=%s" % (D_T, D_ALARM, "".join(sorted(set(case["f"])))),
                 "a result or a JSError", ["cpu_s", r["cpu"]])]
    if kind == "exc":
        return [("D|host exception %s at %s" % (detail[1], detail[3]), "a result or a JSError", detail)]
    return []


def d_task(cases):
    return [d_eval(c) for c in cases]


def run_d(chk):
    cases = d_cases(chk)
    batches = pool.chunks(cases, 25)
    results = pool.run(d_task, batches, timeout=25 * D_ALARM + 60)
    apis = collections.Counter()
    for batch, rb in zip(batches, results):
        if isinstance(rb, (pool.HANG, pool.CRASH)):
            rs = pool.run(d_task, [[c] for c in batch], timeout=D_ALARM + 60)
            rb = []
            for c, r1 in zip(batch, rs):
                if isinstance(r1, (pool.HANG, pool.CRASH)):
                    chk.count()
                    chk.violation("D|%r: the worker had to be killed" % (r1,), c, "a result or a JSError", repr(r1), sub="D")
                    rb.append(None)
                else:
                    rb.append(r1[0])
        for c, r in zip(batch, rb):
            if r is None:
                continue
            chk.count()
            o = r["outcome"]
            chk.classify("d %s" % (o[0] if o[0] != "jserror" else "jserror:" + o[1]))
            if o[0] == "ok" and "ctor:E" not in o[1]:
                # the pattern compiled and every API was driven
                chk.nontrivial("D|" + core.h16([c["p"], c["f"], c["s"]]))
                for part in o[1].split(","):
                    apis[part.split(":")[0] + (":E" if ":E:" in part else "")] += 1
            for sig, e, a in d_judge(c, r):
                chk.violation(sig, c, e, a, sub="D", detail={"cpu": r["cpu"]})
            if o[0] == "ok" and len(c["s"]) > 2 and "u" in c["f"] and "g" in c["f"]:
                chk.sample({"sub": "D", "pattern": c["p"], "flags": c["f"], "subject": c["s"], "apis": o[1][:200], "cpu_s": r["cpu"]}, cls="D", per_class=3)
    chk.extra["api_totality_cases"] = len(cases)
    chk.extra["api_outcomes"] = dict(sorted(apis.items()))


# ===================================================================== atheris (thorough, optional)
_ATHERIS_SRC = r'''
import sys, signal
import atheris
with atheris.instrument_imports(include=["microjs"]):
    from microjs.regex import RegExp, RegExpError, RegexStackOverflow, RegexTimeoutError

class Alarm(BaseException):
    pass
def _h(s, f):
    raise Alarm()
signal.signal(signal.SIGVTALRM, _h)

def one(data):
    fdp = atheris.FuzzedDataProvider(data)
    flags = "".join(c for i, c in enumerate("gimsuy") if fdp.ConsumeBool()) if fdp.ConsumeBool() else ""
    n = fdp.ConsumeIntInRange(0, 12)
    s = fdp.ConsumeUnicodeNoSurrogates(n)
    p = fdp.ConsumeUnicodeNoSurrogates(64)
    polls = [0]
    limit = (len(s) + 2) * 1001 + 4
    def cb():
        polls[0] += 1
        return polls[0] > limit
    signal.setitimer(signal.ITIMER_VIRTUAL, 6.0)
    try:
        try:
            r = RegExp(p, flags, poll_callback=cb)
        except RegExpError:
            return
        try:
            r.exec(s)
        except RegexStackOverflow:
            return
        except RegexTimeoutError:
            raise RuntimeError("C10: steps beyond (len+1)*step_limit p=%r s=%r" % (p, s))
    finally:
        signal.setitimer(signal.ITIMER_VIRTUAL, 0)

atheris.Setup(sys.argv, one)
atheris.Fuzz()
'''


def run_atheris(chk, guard_on):
    import shutil
    import tempfile

    exe = shutil.which("python3-vt")
    if not exe:
        chk.extra["atheris"] = "skipped: python3-vt not found"
        return
    env = dict(os.environ, PYTHONPATH=engine.SRC, PYTHONDONTWRITEBYTECODE="1", PYTHONHASHSEED="0")
    try:
        ok = subprocess.run([exe, "-c", "import atheris"], env=env, capture_output=True, timeout=60).returncode == 0
    except Exception:
        ok = False
    if not ok:
        chk.extra["atheris"] = "skipped: atheris cannot be imported under python3-vt"
        return
    if guard_on:
        chk.extra["atheris"] = "skipped: known finding %s is active (an unbudgeted lookaround would end the campaign at once)" % KNOWN_LOOKAROUND
        return
    d = tempfile.mkdtemp(prefix="c10-atheris-")
    try:
        script = os.path.join(d, "fuzz.py")
        with open(script, "w", encoding="utf-8") as f:
            f.write(_ATHERIS_SRC)
        runs = 300000
        cmd = [exe, script, "-runs=%d" % runs, "-seed=%d" % (chk.seed & 0x7FFFFFFF or 1), "-max_len=160", "-timeout=30",
               "-artifact_prefix=" + d + os.sep, "-print_final_stats=1", "-verbosity=0"]
        try:
            pr = subprocess.run(cmd, env=env, cwd=d, capture_output=True, timeout=1500)
        except subprocess.TimeoutExpired:
            chk.extra["atheris"] = "truncated: campaign exceeded its wall budget"
            chk.truncated = True
            return
        err = pr.stderr.decode("utf-8", "replace")
        done = [l for l in err.splitlines() if "stat::number_of_executed_units" in l]
        execs = int(done[0].split()[-1]) if done else 0
        chk.count(execs)
        chk.classify("atheris executions", execs)
        chk.extra["atheris"] = {"executions": execs, "returncode": pr.returncode}
        if pr.returncode != 0:
            arts = [fn for fn in os.listdir(d) if fn.startswith(("crash-", "timeout-", "oom-"))]
            data = b""
            if arts:
                with open(os.path.join(d, arts[0]), "rb") as f:
                    data = f.read()
            tail = [l for l in err.splitlines() if l.strip() and not l.startswith(("#", "INFO", "stat::"))][-6:]
            kind = arts[0].split("-")[0] if arts else "exit"
            exc_line = next((l for l in reversed(tail) if "Error" in l or "Exception" in l or "Alarm" in l), kind)
            chk.violation("atheris|%s|%s" % (kind, exc_line.split(":")[0][:60]), {"sub": "atheris", "bytes_hex": data.hex()},
                          "RegExp(p).exec(s): result, RegExpError, RegexStackOverflow", tail, sub="atheris")
    finally:
        shutil.rmtree(d, ignore_errors=True)


# ===================================================================== known finding, replay, main
def replay(rec):
    case = rec["case"]
    if case.get("sub") == "A":
        if case.get("entry") == "shard":
            r = a_task((case["part"], case["shard"], case["n"], case["seed"], 4, 1, False))
            return {"fails": bool(r["viol"]), "expected": "no violation in shard", "actual": sorted(r["viol"])[:5]}
        v = _rejudge_a(case)
        return {"fails": bool(v), "expected": v[0][1] if v else rec.get("expected"), "actual": v[0][2] if v else "conforms"}
    if case.get("sub") == "B":
        out = b_eval(case)
        v = b_judge(case, out)
        return {"fails": bool(v), "expected": v[0][1] if v else rec.get("expected"), "actual": v[0][2] if v else out["outcome"],
                "signature": v[0][0] if v else None}
    if case.get("sub") == "C":
        r = c_eval(case)
        v = c_judge(case, r)
        return {"fails": bool(v), "expected": v[0][1] if v else rec.get("expected"), "actual": v[0][2] if v else r["outcome"]}
    if case.get("sub") == "D":
        r = d_eval(case)
        v = d_judge(case, r)
        return {"fails": bool(v), "expected": v[0][1] if v else rec.get("expected"), "actual": v[0][2] if v else r["outcome"]}
    if case.get("sub") == "atheris":
        data = bytes.fromhex(case["bytes_hex"])
        return {"fails": None, "expected": rec.get("expected"), "actual": "re-run with: python3-vt fuzz.py <file> (%d bytes)" % len(data)}
    raise engine.HarnessError("C10 replay: unknown case %r" % (case,))


def _replay_task(rec):
    return replay(rec)


def check_known(chk):
    """DESIGN 2.7: run the repro of every listed known finding; its guard is on only while
    the repro still fails."""
    guard_on = False
    for e in chk.findings:
        if e.get("status") != "known" or not e.get("repro"):
            continue
        rec = core.load_json(os.path.join(core.ROOT, e["repro"]))
        r = pool.run(_replay_task, [rec], timeout=120, nproc=1)[0]
        fails = isinstance(r, (pool.HANG, pool.CRASH)) or bool(r.get("fails"))
        chk.count()
        if fails:
            chk.known_hit(e["id"])
            if e.get("guard") == GUARD_LOOKAROUND:
                guard_on = True
    return guard_on


def main(chk):
    chk.rule = (
        "(a) a pattern counts when the Python API refuses it after >= 3 characters or accepts it with at least one "
        "group or quantifier (distinct by pattern+flags); (b) a case counts when real backtracking happened: >= 1000 "
        "engine steps seen through the poll callback (Python API), the virtual deadline was reached (time limit set), "
        "or >= 10 CPU-ms were spent (script level, no time limit); distinct by family, pattern, flags, n, level, API"
    )
    chk.assumptions = [
        "microjs.regex.RegExp documents RegExpError as its construction error and RegexStackOverflow / RegexTimeoutError as its matching errors",
        "the default per-attempt step budget is 100000 (RegexVM.DEFAULT_STEP_LIMIT); for long subjects the Python-level cases lower vm.step_limit "
        "(attribute of the engine's VM) so that (len+1) x budget stays near 6e5 steps (the default budget is kept for n = 10)",
        "script-level cases without a time limit cannot observe steps: they are judged by CPU time against 6 x (len+2) x the measured cost of one full budget",
        "invalid or duplicate flag letters being accepted silently is not judged (the property only demands success or SyntaxError)",
    ]
    for path, rec in core.saved_replays(ID):
        r = pool.run(_replay_task, [rec], timeout=120, nproc=1)[0]
        chk.count()
        if isinstance(r, (pool.HANG, pool.CRASH)) or r.get("fails"):
            chk.violation("saved-replay|" + os.path.basename(path), rec.get("case"), rec.get("expected"),
                          repr(r) if not isinstance(r, dict) else r.get("actual"), sub="replay")
    guard_on = check_known(chk)
    chk.extra["guards_active"] = [GUARD_LOOKAROUND] if guard_on else []
    t0 = time.time()
    run_b(chk, guard_on)
    t1 = time.time()
    run_a(chk, guard_on)
    t2 = time.time()
    run_c(chk)
    t3 = time.time()
    run_d(chk)
    chk.extra["phase_wall_s"] = {"b": round(t1 - t0, 1), "a": round(t2 - t1, 1), "c": round(t3 - t2, 1), "d": round(time.time() - t3, 1)}
    if chk.tier == "thorough":
        run_atheris(chk, guard_on)
    else:
        chk.extra["atheris"] = "not part of the quick tier"
    chk.exhaustive = False
