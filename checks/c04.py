"""C04 - eval fails only with JSError: positioned JSSyntaxError or a runtime JSError.

(a) front end: character soup, token soup, corpus mutations (delete/duplicate/
    swap/splice tokens, truncations incl. prefixes, bracket flips, dropped
    closers) - all repaired to bracket/operator nesting depth <= 30.
    Oracle: eval returns or raises a microjs JSError; a JSSyntaxError carries
    a position inside the source (or at its end) that shifts by exactly k when
    k newlines / k spaces are put in front; nothing hangs.
(b) built-in surface: every discovered method/constructor/global function x
    adversarial argument vectors x call forms, each call inside a script-level
    try/catch: no host exception may escape eval.
    Generated families on top of the grid: regex-backref (backreference x i flag x \\b \\B ^ $ x subjects that
    end inside the repeated text, through test/exec/match/replace/split/search/matchAll/RegExp()), argconv (the
    conversion of an argument or of an element runs script code that shrinks/grows the receiver array), deep
    (DEEP_N-level arrays / objects / mixed / prototype chains as receiver and argument of every member, global
    and operator).
Foreign exceptions are bucketed by (type, innermost microjs frame).
"""
import json
import os
import random
import re

from vf import core, engine, pool

CORPUS = os.path.join(core.ROOT, "corpus", "corpus.json")
MAX_DEPTH = 30

PUNCT = ["(", ")", "{", "}", "[", "]", ";", ",", ".", ":", "?", "+", "-", "*", "/", "%", "**", "++", "--", "<", ">", "<=", ">=",
         "==", "!=", "===", "!==", "&&", "||", "!", "~", "&", "|", "^", "<<", ">>", ">>>", "=", "+=", "-=", "*=", "/=", "%=", "&=",
         "|=", "^=", "<<=", ">>=", ">>>=", "=>", "...", "`", "#", "@", "\\"]
KEYWORDS_FALLBACK = ["var", "function", "return", "if", "else", "while", "do", "for", "in", "of", "break", "continue", "switch", "case",
                     "default", "try", "catch", "finally", "throw", "new", "delete", "typeof", "instanceof", "this", "true", "false",
                     "null", "void", "let", "const", "class", "get", "set", "async", "await", "yield", "static", "extends", "super"]
LITERALS = ["0", "1", "1.5", "1e3", "0x1F", "0b11", "0o7", ".5", "5.", "1e", "0x", "09", "''", '"s"', "'a\\nb'", '"\\u0041"', "'\\x4'",
            "/a+/g", "/[/", "/(?=a)/", "x", "y", "foo", "$", "_a", "undefined", "NaN", "Infinity", "arguments", "eval", "label:", "\n", " ",
            "// c\n", "/* c */", "/* open", "'open", '"open', "a.b", "a[0]", "f()", "f(1,2)", "[1,2]", "{a:1}", "(", ")", "()=>1", "x=>x",
            # digits and escapes that Python's str methods / int() / chr() treat differently from ECMAScript
            "\u00b2", "\u0663", "\uff11", "\u2167", "1\u00b2", "x\u00b2", "'\\u{110000}'", "'\\u{FFFFFFFFFF}'", "'\\u{}'", "'\\u{-1}'", "'\\x'", "'\\u12'",
            "'\\u{1F600}'", "'\\ud800'", "1_0", "1_.5", "1_e3", "0x_1", "1e+", "1e400", "0b102", "0o8", "08", "1" * 420, "9" * 5000, "0." + "1" * 5000, "1e" + "9" * 30,
            # statement snippets for the rarer productions
            "try{}catch{}", "try{}catch(e){}", "try{}finally{}", "try{}catch(e){}finally{}", "for (a.b of [1]) {}", "for (a[0] in o) {}", "for (var [x] of y) {}",
            "for (x of [1,2]) {}", "for (var k in {a:1}) {}", "for (;;) break;", "do x++; while (x < 3)", "switch (x) { default: }", "L: for (;;) { continue L; }",
            "new a.b(1)", "new (f())()", "a?.b", "a ?? b", "`t${1}`", "x **= 2", "({get a(){return 1}, set a(v){}})", "({[k]: 1})", "function f(a = 1, ...r) {}",
            "class A {}", "let x = 1", "const y = 2", "label: {break label;}", "var \u00e9 = 1", "a\n++b", "return 1", "x = function g(){ return g; }", "delete a.b", "void 0", "typeof typeof x"]

SOUP_ALPHABET = list("(){}[];,.:?+-*/%<>=!&|^~'\"\\`#@ \n\t0123456789abcxyz_$") + ["é", " ", "\x00", "𝒳", "/*", "*/", "//", "=>", "var ", "function ", "return ",
                 "\u00b2", "\u0663", "\uff11", "\u2167", "\u2028", "\ufeff", "\r", "\\u{", "\\u", "\\x", "e", "E", "0x", "catch", "try", "of ", "in ", "new "]


def keywords():
    try:
        engine.load()
        from microjs import tokens

        kw = getattr(tokens, "KEYWORDS", None)
        if kw:
            return sorted(set(list(kw) + KEYWORDS_FALLBACK))
    except Exception:
        pass
    return KEYWORDS_FALLBACK


# ---------------------------------------------------------------- depth meter
OPENERS = "([{"
CLOSERS = ")]}"
PREFIX_OPS = set("!~+-")


def repair_depth(src, limit=MAX_DEPTH):
    """Keep the bracket/operator nesting depth <= limit by dropping what would nest
    deeper (openers beyond the limit and their closers, runs of prefix operators,
    nested ?: and chained = beyond the limit).  Construction, not rejection."""
    out = []
    depth = 0
    dropped = 0
    run = 0
    tern = 0
    in_str = None
    i = 0
    n = len(src)
    while i < n:
        ch = src[i]
        if in_str:
            out.append(ch)
            if ch == "\\" and i + 1 < n:
                out.append(src[i + 1])
                i += 2
                continue
            if ch == in_str or ch == "\n":
                in_str = None
            i += 1
            continue
        if ch in "'\"":
            in_str = ch
            out.append(ch)
            run = 0
        elif ch in OPENERS:
            if depth >= limit:
                dropped += 1
            else:
                depth += 1
                out.append(ch)
            run = 0
        elif ch in CLOSERS:
            if dropped:
                dropped -= 1
            else:
                depth = max(0, depth - 1)
                out.append(ch)
            run = 0
        elif ch in PREFIX_OPS or ch == "=" or ch == "?":
            run += 1
            kept = run <= 12
            if kept:
                out.append(ch)
            if ch == "?":
                tern += 1
                if tern > limit and kept:
                    out.pop()
        elif ch in ";\n":
            tern = 0
            run = 0
            out.append(ch)
        else:
            if not ch.isspace():
                run = 0
            out.append(ch)
        i += 1
    s = "".join(out)
    # keyword-prefix chains (typeof typeof ..., new new ..., x => x => ...) also recurse
    if s.count("typeof") + s.count("void") + s.count("delete") + s.count("new") + s.count("await") + s.count("yield") > 12:
        s = re.sub(r"((?:\b(?:typeof|void|delete|new|await|yield)\b\s*){12})(?:\b(?:typeof|void|delete|new|await|yield)\b\s*)+", r"\1", s)
    if s.count("=>") > 12:
        s = re.sub(r"((?:[A-Za-z_$][\w$]{0,40}\s{0,8}=>\s{0,8}){12})(?:[A-Za-z_$][\w$]{0,40}\s{0,8}=>\s{0,8})+", r"\1", s)
    return s


def nesting_depth(src):
    d = m = 0
    for ch in src:
        if ch in OPENERS:
            d += 1
            m = max(m, d)
        elif ch in CLOSERS:
            d = max(0, d - 1)
    return m


# ------------------------------------------------------------------ generators
def split_tokens(src):
    """Rough lexical split (strings/comments/numbers/identifiers/punctuators) used
    only to mutate at token boundaries; it does not have to agree with the engine."""
    pat = re.compile(r"\s+|//[^\n]*|/\*.*?\*/|'(?:[^'\\\n]|\\.)*'?|\"(?:[^\"\\\n]|\\.)*\"?|[A-Za-z_$][\w$]*|\d[\w.]*|>>>=|===|!==|>>>|<<=|>>=|\*\*|=>|[-+*/%&|^<>=!]=|\+\+|--|&&|\|\||<<|>>|.", re.S)
    return pat.findall(src)


def gen_inputs(seed, kind, n, corpus, kw):
    rnd = random.Random(seed)
    out = []
    vocab = PUNCT + kw + LITERALS
    for _ in range(n):
        if kind == "char-soup":
            s = "".join(rnd.choice(SOUP_ALPHABET) for _ in range(rnd.randint(1, 40)))
        elif kind == "token-soup":
            s = " ".join(rnd.choice(vocab) for _ in range(rnd.randint(1, 25)))
            if rnd.random() < 0.3:
                s = s.replace(" ", "")
            w = rnd.random()
            if w < 0.12:      # the same tokens as a function body / arrow body / callback: other compiler paths
                s = "function f(){ %s }" % s
            elif w < 0.2:
                s = "var g = () => { %s };" % s
            elif w < 0.28:
                s = "[1].map(function(x){ %s });" % s
        elif kind == "corpus-mutation":
            src = rnd.choice(corpus)
            toks = split_tokens(src)
            if not toks:
                continue
            for _m in range(rnd.randint(1, 3)):
                op = rnd.choice(["delete", "duplicate", "swap", "insert", "truncate", "flip", "splice", "dropcloser", "dropquote", "dropgroup", "wrapfn"])
                i = rnd.randrange(len(toks))
                if op == "delete":
                    del toks[i]
                elif op == "duplicate":
                    toks.insert(i, toks[i])
                elif op == "swap" and len(toks) > 1:
                    j = rnd.randrange(len(toks))
                    toks[i], toks[j] = toks[j], toks[i]
                elif op == "insert":
                    toks.insert(i, rnd.choice(vocab))
                elif op == "truncate":
                    toks = toks[: i + 1]
                elif op == "flip":
                    br = [k for k, t in enumerate(toks) if t in "()[]{}" and len(t) == 1]
                    if br:
                        k = rnd.choice(br)
                        toks[k] = rnd.choice("()[]{}")
                elif op == "splice":
                    other = split_tokens(rnd.choice(corpus))
                    if other:
                        j = rnd.randrange(len(other))
                        toks = toks[:i] + other[j:]
                elif op == "dropcloser":
                    cl = [k for k, t in enumerate(toks) if t in (")", "]", "}", "*/")]
                    if cl:
                        del toks[rnd.choice(cl)]
                elif op == "dropgroup":
                    # delete one parenthesised group: catch (e) {..} -> catch {..}, f(a, b) -> f, if (c) -> if
                    ops_ = [k for k, t in enumerate(toks) if t == "("]
                    if ops_:
                        k = rnd.choice(ops_)
                        depth, j = 0, k
                        while j < len(toks):
                            depth += toks[j] == "("
                            depth -= toks[j] == ")"
                            if depth == 0:
                                break
                            j += 1
                        del toks[k : j + 1]
                elif op == "wrapfn":
                    toks = ["function", " ", "wf", "(", ")", "{"] + toks + ["}"]
                elif op == "dropquote":
                    qs = [k for k, t in enumerate(toks) if t[:1] in "'\"" and len(t) > 1]
                    if qs:
                        k = rnd.choice(qs)
                        toks[k] = toks[k][:-1]
                if not toks:
                    break
            s = "".join(toks)
        elif kind == "prefix":
            src = rnd.choice(corpus)
            s = src[: rnd.randint(0, len(src))]
        else:
            raise KeyError(kind)
        out.append(repair_depth(s))
    return out


# ------------------------------------------------------------------ worker (a)
def eval_src(src, tl=2.0):
    m = engine.load()
    ctx = m.Context(time_limit=tl, memory_limit=2000000)
    ctx.set("console", {"log": lambda *a: None})
    try:
        with pool.cpu_alarm(20):
            try:
                ctx.eval(src)
                return ("ok",)
            except pool.HarnessTimeout:
                return ("hang",)
            except MemoryError:
                return ("resource",)
            except RecursionError as e:
                return ("exc", engine.exc_info(e))
            except Exception as e:
                return ("exc", engine.exc_info(e))
    except pool.HarnessTimeout:
        return ("hang",)


def classify_src(src, res):
    """Returns (verdict, detail); verdict in ok / syntax / runtime / foreign / hang / badpos / badshift / resource."""
    if res[0] == "ok":
        return ("ok", None)
    if res[0] == "hang":
        return ("hang", None)
    if res[0] == "resource":
        return ("resource", None)
    info = res[1]
    if not info["family"]:
        return ("foreign", info)
    if info["cls"] != "JSSyntaxError":
        return ("runtime", info)
    line, col = info.get("line"), info.get("column")
    lines = src.split("\n")
    if not isinstance(line, int) or not isinstance(col, int):
        return ("badpos", info)
    if line == 0 and col == 0:
        return ("syntax-unpositioned", info)
    if not (1 <= line <= len(lines) + 1):
        return ("badpos", info)
    this = lines[line - 1] if line <= len(lines) else ""
    if not (1 <= col <= len(this) + 2):
        return ("badpos", info)
    return ("syntax", info)


_CORPUS_CACHE = []


def _corpus():
    if not _CORPUS_CACHE:
        _CORPUS_CACHE.append([c["src"] for c in json.load(open(CORPUS, encoding="utf-8"))])
    return _CORPUS_CACHE[0]


def front_task(task):
    """task = list of sources, or ('gen', kind, seed, n) to generate them here.
    Returns (sources, [(verdict, detail, shift)])."""
    if isinstance(task, tuple) and task and task[0] == "gen":
        task = gen_inputs(task[2], task[1], task[3], _corpus(), keywords())
    return (list(task), _front_eval(task))


def _front_eval(task):
    out = []
    for src in task:
        res = eval_src(src)
        verdict, info = classify_src(src, res)
        shift = None
        if verdict == "syntax":
            line, col = info["line"], info["column"]
            # k newlines in front shift the line; for an error on line 1, k spaces in front shift the column
            for k in (1, 7):
                r2 = eval_src("\n" * k + src)
                v2, i2 = classify_src("\n" * k + src, r2)
                if v2 != "syntax" or i2["line"] != line + k or i2["column"] != col:
                    shift = ("newline", k, None if v2 != "syntax" else [i2["line"], i2["column"]], v2)
                    break
                if line == 1:
                    # (only for errors on the first line: spaces in front of the whole text are
                    # certainly in front of the offending token, wherever on that line it starts)
                    s3 = " " * k + src
                    r3 = eval_src(s3)
                    v3, i3 = classify_src(s3, r3)
                    if v3 != "syntax" or i3["line"] != line or i3["column"] != col + k:
                        shift = ("space", k, None if v3 != "syntax" else [i3["line"], i3["column"]], v3)
                        break
        out.append((verdict, info, shift))
    return out


# ------------------------------------------------------------------ (b) surface
ADV = ["undefined", "null", "NaN", "Infinity", "-Infinity", "-1", "0", "-0", "1", "2", "0.5", "1.9", "-1.9", "2147483648", "4294967296",
       "9007199254740992", "1e21", '"1"', '"x"', '""', "true", "({})", "[]", "[1]", "[1,2]", "(function(){})", "({valueOf:function(){return 1}})",
       '({toString:function(){return "2"}})', "/a/g", "new Uint8Array(2)", "Symbol", "({length: 3})", "1e300", '"abc"',
       '"\u00b2"', '"$\u00b2"', '"$1\u00b3"', '"\u0663"', '"\uff11"', '"$&$`$\'$1$01$$"', '"\ud800"', '"\u0000"', '"a"', '"1e"', '"0x"', "-2147483649", "255.5",
       '"1".repeat(4400)', '"-" + "9".repeat(401)', '"0x" + "f".repeat(4400)']

RECEIVERS = {
    "number": "(1.5)", "int": "(7)", "nan": "(NaN)", "string": '"abc"', "empty-string": '""', "bool": "(true)", "object": "({a:1})",
    "array": "([1,2,3])", "empty-array": "([])", "function": "(function f(a,b){return 1})", "arrow": "(()=>1)", "regex": "(/a(b)?/g)",
    "error": "(new Error('e'))", "Math": "Math", "JSON": "JSON", "Object": "Object", "Array": "Array", "String": "String", "Number": "Number",
    "Boolean": "Boolean", "RegExp": "RegExp", "Function": "Function", "Date": "Date", "Error": "Error", "TypeError": "TypeError",
    "Uint8Array": "Uint8Array", "Int32Array": "Int32Array", "Float64Array": "Float64Array", "ArrayBuffer": "ArrayBuffer",
    "uint8array": "(new Uint8Array(4))", "float32array": "(new Float32Array(3))", "int16array": "(new Int16Array([1,2]))",
    "arraybuffer": "(new ArrayBuffer(8))", "arguments": "(function(){return arguments})(1,2)", "bound": "(function(a){return a}).bind(null,1)",
    "native-method": "[].push", "console": "console", "global-this": "undefined",
}
GLOBAL_FUNCS = ["parseInt", "parseFloat", "isNaN", "isFinite", "eval", "Object", "Array", "String", "Number", "Boolean", "RegExp", "Function",
                "Error", "TypeError", "RangeError", "SyntaxError", "ReferenceError", "Uint8Array", "Int8Array", "Uint16Array", "Int16Array",
                "Uint32Array", "Int32Array", "Float32Array", "Float64Array", "Uint8ClampedArray", "ArrayBuffer", "Date", "Symbol", "Map", "Set", "Promise"]
METHOD_VOCAB = sorted(set("""
at charAt charCodeAt codePointAt concat endsWith includes indexOf lastIndexOf localeCompare match matchAll normalize padEnd padStart repeat replace
replaceAll search slice split startsWith substring substr toLowerCase toUpperCase toString trim trimEnd trimStart valueOf fromCharCode fromCodePoint raw
push pop shift unshift join map filter reduce reduceRight forEach find findIndex findLast findLastIndex some every splice reverse sort fill flat flatMap
copyWithin entries keys values from of isArray toFixed toExponential toPrecision toLocaleString isNaN isFinite isInteger isSafeInteger parseInt parseFloat
hasOwnProperty isPrototypeOf propertyIsEnumerable assign create defineProperty defineProperties freeze seal getPrototypeOf setPrototypeOf
getOwnPropertyNames getOwnPropertyDescriptor is preventExtensions isFrozen call apply bind test exec compile parse stringify now UTC
abs acos acosh asin asinh atan atan2 atanh cbrt ceil clz32 cos cosh exp expm1 floor fround hypot imul log log10 log1p log2 max min pow random round sign sin
sinh sqrt tan tanh trunc set subarray log error byteLength length name message constructor prototype
""".split()))


def discover_surface():
    """[(receiver name, receiver expr, member)] for members that are functions in this engine."""
    m = engine.load()
    ctx = m.Context(time_limit=20)
    found = []
    names = json.dumps(METHOD_VOCAB)
    for rname, rexpr in sorted(RECEIVERS.items()):
        if rexpr == "undefined":
            continue
        src = "var R = %s; var out = []; var N = %s; for (var i = 0; i < N.length; i++) { try { if (typeof R[N[i]] === 'function') out.push(N[i]); } catch (e) {} } out" % (rexpr, names)
        try:
            with pool.cpu_alarm(20):
                r = ctx.eval(src)
        except BaseException:
            r = []
        for n in r or []:
            found.append((rname, rexpr, n))
    gl = []
    for g in GLOBAL_FUNCS:
        try:
            if ctx.eval("typeof %s" % g) == "function":
                gl.append(g)
        except BaseException:
            pass
    return found, gl


def call_exprs(rexpr, member, args, form):
    a = ", ".join(args)
    if form == "method":
        return "%s.%s(%s)" % (rexpr, member, a)
    if form == "call":
        return "%s.%s.call(%s)" % (rexpr, member, ", ".join([args[0] if args else "undefined"] + list(args[1:])))
    if form == "apply":
        return "%s.%s.apply(%s, [%s])" % (rexpr, member, rexpr, a)
    if form == "new":
        return "new (%s.%s)(%s)" % (rexpr, member, a)
    if form == "detached":
        return "(0, %s.%s)(%s)" % (rexpr, member, a)
    raise KeyError(form)


def surface_script(exprs):
    # one function per call: the per-function limits of the bytecode format (255 constants) never
    # refuse the batch as a whole
    body = "".join("(function(){ try { %s; } catch (e) { if (typeof e === 'undefined') bad++; } })();\n" % e for e in exprs)
    pre = DEEP_PRELUDE if any("DEEP_" in e for e in exprs) else ""
    return "var bad = 0;\n" + pre + body + "bad"


def surface_task(exprs):
    """Run calls in one script; bisect on host exceptions.  Returns list of (expr, exc_info|'hang'|'resource')."""
    m = engine.load()
    bad = []

    def run(es):
        ctx = m.Context(time_limit=10, memory_limit=50000000)
        ctx.set("console", {"log": lambda *a: None, "error": lambda *a: None})
        try:
            with pool.cpu_alarm(40):
                try:
                    ctx.eval(surface_script(es))
                    return None
                except pool.HarnessTimeout:
                    return "hang"
                except MemoryError:
                    return "resource"
                except RecursionError as e:
                    return engine.exc_info(e)
                except Exception as e:
                    info = engine.exc_info(e)
                    if info["family"] and len(es) > 1:
                        # every call sits in its own try/catch: a JSError that ends the whole script (a limit,
                        # a refusal to compile) means the rest of the batch did not run -> isolate
                        return "split"
                    return None if info["family"] else info
        except pool.HarnessTimeout:
            return "hang"

    def rec(es):
        r = run(es)
        if r is None:
            return
        if len(es) == 1:
            if r != "split":
                bad.append((es[0], r))
            return
        mid = len(es) // 2
        rec(es[:mid])
        rec(es[mid:])

    rec(list(exprs))
    return bad


# ---- re-entrant mutation: script code run *by* a built-in changes the structure the built-in is walking
ARR_MUT = ["a.push(7)", "a.pop()", "a.shift()", "a.unshift(8)", "a.splice(0, 1)", "a.splice(1, 0, 5, 6)", "a.length = 0", "a.length = 1",
           "a.reverse()", "a.sort()", "a[0] = {}", "a.zz = 1", "delete a.zz", "a.fill && a.fill(0)"]
OBJ_MUT = ["o['n' + n] = n", "delete o[Object.keys(o).pop()]", "if (n % 2) { o['m' + n] = 1; } else { delete o[Object.keys(o)[0]]; }", "o.zz = 9", "delete o.b", "delete o.a", "o.b = {x: 1}", "delete o.c; o.d = 4", "o.a = undefined", "for (var kk in o) delete o[kk]",
           "o.e = 1; o.f = 2; o.g = 3", "Object.defineProperty(o, 'h', {get: function(){ return 1; }})"]
ARR_SITES = [
    "a.forEach(function(x){ %s; })", "a.map(function(x){ %s; return x; })", "a.filter(function(x){ %s; return true; })",
    "a.some(function(x){ %s; return false; })", "a.every(function(x){ %s; return true; })", "a.find(function(x){ %s; return false; })",
    "a.findIndex(function(x){ %s; return false; })", "a.reduce(function(p, x){ %s; return p; }, 0)", "a.reduceRight(function(p, x){ %s; return p; }, 0)",
    "a.sort(function(x, y){ %s; return x < y ? -1 : 1; })", "[{toString: function(){ %s; return 'x'; }}].concat(a).join()",
    "a.concat([{valueOf: function(){ %s; return 1; }}]).reduce(function(p, x){ return p + x; }, 0)",
    "JSON.stringify(a, function(k, v){ %s; return v; })", "a[1] = {toJSON: function(){ %s; return 1; }}; JSON.stringify(a)",
    "a[1] = {toString: function(){ %s; return 'k'; }}; a.join('-')", "a[1] = {toString: function(){ %s; return 'k'; }}; a.sort()",
    "a[1] = {valueOf: function(){ %s; return 1; }}; a.indexOf(2) + a.map(function(x){ return x * 2; }).length",
    "for (var q of a) { %s; }", "for (var q in a) { %s; }", "a.slice(0).forEach(function(){ %s; }); a.toString()",
    "var g = {}; Object.defineProperty(g, 'p', {get: function(){ %s; return 1; }}); [g.p, a.length]",
    "'x-y-z'.replace(/-/g, function(m){ %s; return '+'; })", "'abc'.split('').map(function(c){ %s; return c; }).join('')",
    "new Uint8Array(a.length).set && new Uint8Array(8).set(a.map(function(x){ %s; return 1; }))",
]
OBJ_SITES = [
    "JSON.stringify(o, function(k, v){ %s; return v; })", "o.a = {toJSON: function(){ %s; return 1; }}; JSON.stringify(o)",
    "JSON.stringify(o, function(k, v){ if (k === 'a') { %s; } return v; }, 2)", "JSON.stringify(o, ['a', 'b', 'c'], {toString: function(){ %s; return ' '; }})",
    "for (var k1 in o) { %s; }", "Object.keys(o).forEach(function(k2){ %s; })", "Object.defineProperty(o, 'g', {get: function(){ %s; return 1; }}); JSON.stringify(o)",
    "Object.defineProperty(o, 'g', {get: function(){ %s; return 1; }}); Object.assign({}, o)", "Object.defineProperty(o, 'g', {get: function(){ %s; return 1; }}); [Object.values(o), Object.entries(o)]",
    "Object.assign(o, {get q(){ %s; return 1; }})", "o.a = {valueOf: function(){ %s; return 1; }}; o.a + o.b", "o.a = {toString: function(){ %s; return 's'; }}; '' + o.a + JSON.stringify(o)",
    "Object.create(o, {z: {get: function(){ %s; return 1; }}}).z", "var cp = {}; for (var k3 in o) { cp[k3] = o[k3]; %s; } JSON.stringify(cp)",
    "JSON.parse(JSON.stringify(o), function(k, v){ %s; return v; })",
]


def reentrant_exprs():
    out = []
    for site in ARR_SITES:
        for mut in ARR_MUT:
            body = "if (n++ < 6) { %s; }" % mut
            out.append(("(function(){ var n = 0; var a = [3, 1, 2, 4]; return %s; })()" % (site % body), "reentrant.array", "mutate"))
    for site in OBJ_SITES:
        for mut in OBJ_MUT:
            body = "if (n++ < 6) { %s; }" % mut
            out.append(("(function(){ var n = 0; var o = {a: 1, b: 2, c: 3}; return %s; })()" % (site % body), "reentrant.object", "mutate"))
    return out


# ---- regex: backreferences x ignore-case x position assertions x subjects that end inside the repeated text
# (word, group that captures it); the subject repeats a *prefix* of the word after the separator, so the
# backreference runs into the end of the input (or of the line) at every possible offset
RX_GROUPS = [("a", "(a)"), ("ab", "(ab)"), ("hello", "(\\w+)"), ("abc", "([a-c]+)"), ("ab", "(?<n>ab)"), ("Ab", "(ab)"), ("x", "(.)"),
             ("aaa", "(a*)"), ("ab", "(a|ab)"), ("AbC", "(a(b)c)"), ("ab", "((?:ab)+)"), ("ét", "(\\S+)"), ("ab", "(ab)?")]
RX_SEPS = [("", ""), (" ", " "), ("  ", "\\s+"), ("-", "-"), ("\n", "\\n"), (" ", "\\b \\b"), ("", "(?:)")]
RX_REFS = ["\\1", "\\1", "\\1", "\\1\\1", "\\1+", "\\1?", "(?:\\1)*", "\\1{2}", "\\1*?", "(?=\\1)", "(?!\\1)", "\\1|z", "(?:\\1|q)", "\\2", "\\1\\2"]
RX_TAILS = ["", "\\b", "\\B", "$", "^", "\\b", "\\B", "$", "(?=$)", "(?!x)", "\\b.", "$\\b", ".", "\\b\\B", "\\s*$", "(?:\\b|\\B)", "\\b|^", "(?=\\b)", "(?!\\B)", "\\1\\b"]
RX_HEADS = ["", "", "", "\\b", "^", "\\B", "(?:^|\\s)", ".*?", "(?<=z)"]
RX_FLAGS = ["", "i", "i", "i", "g", "gi", "gi", "im", "im", "gim", "iy", "is", "m", "gm", "iu", "gimsy"]
RX_OPS = ["R.test(S)", "R.exec(S)", "S.match(R)", "S.replace(R, '$1|$&')", "S.replace(R, function(m){ return m.length; })", "S.split(R)", "S.split(R, 2)",
          "S.search(R)", "S.matchAll && Array.from(S.matchAll(R))", "S.replaceAll && S.replaceAll(R, '-')", "R.lastIndex = S.length; R.exec(S)",
          "R.lastIndex = S.length - 1; R.test(S)", "[R.test(S), R.test(S), R.exec(S)]", "new RegExp(R.source, R.flags).exec(S)",
          "new RegExp(R).test(S)", "RegExp(R.source + '\\\\b', 'i').exec(S)"]


def _swapcase_some(rnd, w):
    return "".join(c.swapcase() if rnd.random() < 0.4 else c for c in w)


def regex_backref_exprs(chk):
    """Generated (pattern, flags, subject, operation): a capturing group, a separator, a backreference in one of
    its quantified / look-around / alternative forms, then a position assertion; the subject repeats k characters
    (0 <= k <= len) of the captured word, in a possibly different case, and ends there or at a line break."""
    rnd = random.Random(core.shard_seed(chk.seed, "C04", "regex-backref"))
    n = 5000 if chk.tier == "quick" else 80000
    out = []
    seen = set()
    while len(out) < n:
        word, grp = rnd.choice(RX_GROUPS)
        septext, sep = rnd.choice(RX_SEPS)
        ref = rnd.choice(RX_REFS)
        if "?<n>" in grp and rnd.random() < 0.7:
            ref = ref.replace("\\1", "\\k<n>")
        pat = rnd.choice(RX_HEADS) + grp + sep + ref + rnd.choice(RX_TAILS)
        flags = rnd.choice(RX_FLAGS)
        k = rnd.randint(0, len(word))
        cut = word[:k]
        if rnd.random() < 0.5:
            cut = _swapcase_some(rnd, cut)
        first = _swapcase_some(rnd, word) if rnd.random() < 0.3 else word
        subj = rnd.choice(["", "", "z", "z ", "ab ", "\n"]) + first + septext + cut + rnd.choice(["", "", "", "\n", "\nq", " ", "!"])
        if rnd.random() < 0.15:     # several occurrences for g / split / replace
            subj = subj + " " + subj
        op = rnd.choice(RX_OPS)
        if "/" in pat:
            continue
        e = "(function(){ var R = /%s/%s, S = %s; return %s; })()" % (pat, flags, json.dumps(subj), op)
        if e in seen:
            continue
        seen.add(e)
        cutoff = "cut" if k < len(word) else "whole"
        out.append((e, "regex.backref", ("i" if "i" in flags else "no-i") + "/" + cutoff))
    return out


# ---- argument conversion mutates the receiver: the valueOf / toString of an *argument* runs script code that
# shrinks / grows the array the built-in is about to index with a length it read earlier
CONV_MUT = ["a.length = 0", "a.length = 1", "a.pop()", "a.shift()", "a.splice(0, 2)", "a.push(1, 2, 3, 4, 5, 6, 7, 8)", "a.length = 0; a.push(9)",
            "while (a.length) a.pop()"]
CONV_RET = ["0", "2", "-1", "3", "1", "-4", "10"]
CONV_RECV = {   # receiver kind of RECEIVERS -> (receiver expression inside the case, filler arguments)
    "array": "a", "string": "s", "uint8array": "t", "float32array": "tf", "int16array": "t16", "arguments": "ar",
    "Array": "Array", "String": "String", "Math": "Math", "Object": "Object", "JSON": "JSON", "Uint8Array": "Uint8Array", "Number": "Number",
}
CONV_FILL = ["9", "1", "a", "2", "undefined", "s", "t", "function(x){ return x; }"]
CONV_VARS = [("s", "s = 'abcd'"), ("t", "t = new Uint8Array([1, 2, 9, 4])"), ("tf", "tf = new Float32Array([1, 2, 9, 4])"), ("t16", "t16 = new Int16Array([1, 2, 9, 4])"),
             ("ar", "ar = (function(){ return arguments; })(1, 2, 9, 4)")]
CONV_M = "function M(f, r){ return {valueOf: function(){ f(); return r; }, toString: function(){ f(); return '' + r; }}; } "


def conv_case(body):
    """A self-contained case: the array a, the mutator factory M and only those other receivers that the body names."""
    decl = ["a = [1, 2, 9, 4]"] + [d for v, d in CONV_VARS if re.search(r"\b%s\b" % v, body)]
    return "(function(){ %svar %s; %s; })()" % (CONV_M, ", ".join(decl), body)


# consumers that convert the *elements* of an array (the mutator sits inside the array)
CONV_ELEM_SITES = ["t.set(a)", "new Uint8Array(a)", "new Float64Array(a)", "String.fromCharCode.apply(null, a)", "Math.max.apply(null, a)", "Math.min.apply(Math, a)",
                   "a.join()", "a.join(a)", "a.toString()", "a.sort()", "String(a)", "'' + a", "a.concat(a).join()", "a.flat && a.flat().join()", "a.reverse().join()",
                   "a.indexOf(a[1], a[1])", "a.includes(9, a[1])", "a.lastIndexOf(9, a[1])", "a.slice(a[1], a[1])", "a.splice(a[1], a[1])", "a.fill(0, a[1], a[1])",
                   "a.at && a.at(a[1])", "a.copyWithin && a.copyWithin(a[1], a[1])", "Uint8Array.from && Uint8Array.from(a)", "Array.from(a, Number)", "Array.of.apply(null, a).join()",
                   "s.concat.apply(s, a)", "s.slice(a[1], a[1])", "s.padStart(a[1], a[1])", "t.fill(a[1], a[1])", "t.subarray(a[1], a[1])", "JSON.stringify(a, null, a[1])",
                   "JSON.stringify({k: 1}, a)", "Math.hypot.apply(null, a)", "a.map(Number)", "a.reduce(function(p, x){ return p + x; })", "[].push.apply(a, a)", "a.unshift.apply(a, a)",
                   "new Array(a[1])", "Array.apply(null, a)", "Function.prototype.call.apply(isNaN, a)", "parseInt(a, a[1])"]


def _mutator(mut, ret):
    return "M(function(){ %s; }, %s)" % (mut, ret)


def argconv_exprs(chk, found):
    rnd = random.Random(core.shard_seed(chk.seed, "C04", "argconv"))
    quick = chk.tier == "quick"
    out = []
    for rname, _rexpr, member in found:
        if rname not in CONV_RECV:
            continue
        recv = CONV_RECV[rname]
        statics = recv[0].isupper()
        vecs = []
        combos = [(m, r) for m in CONV_MUT for r in CONV_RET]
        picked = rnd.sample(combos, (3 if statics else 8) if quick else len(combos))
        for mut, ret in picked:
            M = _mutator(mut, ret)
            if statics:
                vecs += [("a", M), (M, "a"), ("a", "a", M)]
            else:
                vecs += [(M,), ("9", M), (M, "1")]
        for _ in range((4 if statics else 8) if quick else 120):
            mut, ret = rnd.choice(combos)
            M = _mutator(mut, ret)
            v = [rnd.choice(CONV_FILL) for _ in range(rnd.randint(1, 3))]
            v[rnd.randrange(len(v))] = M
            if rnd.random() < 0.3:
                v.append(_mutator(rnd.choice(CONV_MUT), rnd.choice(CONV_RET)))
            vecs.append(tuple(v))
        for v in vecs:
            w = rnd.random()
            if statics or w < 0.75:
                call = "%s.%s(%s)" % (recv, member, ", ".join(v))
            elif w < 0.9:
                call = "%s.%s.call(%s)" % (recv, member, ", ".join(("a",) + tuple(v)))
            else:
                call = "%s.%s.apply(%s, [%s])" % (recv, member, recv, ", ".join(v))
            out.append((conv_case("return " + call), "argconv.%s.%s" % (rname, member), "argument"))
    for site in CONV_ELEM_SITES:
        for mut in CONV_MUT:
            for ret in (CONV_RET if not quick else CONV_RET[:2]):
                for pos in (1, 0, 3):
                    if quick and pos == 3 and ret != "0":
                        continue
                    out.append((conv_case("a[%d] = %s; return %s" % (pos, _mutator(mut, ret), site)), "argconv.element", "element"))
    return out


# ---- deep structures as receivers and arguments: built-ins that walk a value recursively meet DEEP_N levels
DEEP_N = 2000
DEEP_PRELUDE = ("var DEEP_A = [], DEEP_O = {}, DEEP_M = [1], DEEP_P = {};\n"
                "for (var deep_i = 0; deep_i < %d; deep_i++) { DEEP_A = [DEEP_A]; DEEP_O = {k: DEEP_O}; DEEP_M = deep_i %% 2 ? [0, DEEP_M] : {m: DEEP_M, n: 'x'}; "
                "DEEP_P = Object.create(DEEP_P); }\n" % DEEP_N)
# every case works on a fresh one-level wrapper, so that a mutating method (pop, fill, length = 0 ...) leaves the shared structure deep
DEEP_VALUES = {"array": "[DEEP_A]", "object": "({k: DEEP_O})", "mixed": "[DEEP_M, {m: DEEP_M}]", "proto-chain": "Object.create(DEEP_P)"}
DEEP_OPS = ["'' + d", "d + d", "+d", "-d", "d == 1", "d == 'x'", "d < 1", "d < d", "`${d}`", "({})[d]", "d in {}", "[d] + ''", "d == d", "d ? 1 : 2", "typeof d", "!d", "d | 0",
            "var o = {}; o[d] = 1; o", "switch (d) { case '': 1; }", "isNaN(d)", "'x'.concat(d)", "[1].concat(d).join()", "[d, d].join(d)", "[[d]].flat && [[d]].flat(Infinity)",
            "d.flat && d.flat(Infinity)", "d.flat && d.flat(1e9).length", "JSON.stringify(d)", "JSON.stringify(d, null, 2)", "JSON.stringify(d, function(k, v){ return v; })",
            "JSON.stringify({a: d}, ['a', 'k'])", "JSON.parse(JSON.stringify(d))", "String(d)", "d.toString()", "d.join && d.join()", "d.toLocaleString()", "Object.keys(d)",
            "Object.values(d)", "Object.entries(d)", "Object.assign({}, d)", "Object.freeze(d)", "d.zzz", "d.hasOwnProperty('zzz')", "'zzz' in d", "d.zzz = 1", "for (var k in d) {}",
            "d instanceof Array", "Array.prototype.isPrototypeOf(d)", "Object.getPrototypeOf(d)", "new Error(d)", "throw d", "console.log(d)", "console.error(d, d)", "parseInt(d)",
            "Number(d)", "new RegExp(d)", "'x'.split(d)", "'x'.replace('x', d)", "'x'.replace(/x/, function(){ return d; })", "[3, 1].sort(function(){ return d; })", "new Uint8Array(d)",
            "new Uint8Array(2).set(d)", "Array.from(d)", "Array.isArray(d)", "[d].indexOf(d)", "[d].includes(d)", "String.fromCharCode(d)", "Math.max(d)", "eval(d)", "new Function(d)",
            "(function(){ return arguments; })(d).length", "(function(x){ return x; }).apply(null, d)", "(function(x){ return x; }).bind(d)()", "d.constructor(d)"]


def deep_exprs(chk, found, gl):
    rnd = random.Random(core.shard_seed(chk.seed, "C04", "deep"))
    quick = chk.tier == "quick"
    out = []
    kinds = sorted(DEEP_VALUES)
    for kind in kinds:
        for op in DEEP_OPS:
            out.append(("var d = %s; %s" % (DEEP_VALUES[kind], op), "deep.%s.operator" % kind, "operator"))
    for rname, rexpr, member in found:
        ks = kinds if not quick else [rnd.choice(kinds[:2]), rnd.choice(kinds)]
        for kind in sorted(set(ks)):
            d = DEEP_VALUES[kind]
            out.append(("%s.%s(%s)" % (rexpr, member, d), "deep.%s.argument" % kind, "argument"))
            if not quick or rnd.random() < 0.4:
                out.append(("%s.%s(%s, %s)" % (rexpr, member, rnd.choice(ADV), d), "deep.%s.argument" % kind, "argument"))
            if rname in ("array", "empty-array", "object", "Object", "Array", "function", "error"):
                # the deep value as the receiver of the method
                out.append(("%s.%s.call(%s)" % (rexpr, member, d), "deep.%s.receiver" % kind, "receiver"))
                out.append(("%s.%s.call(%s, %s)" % (rexpr, member, d, rnd.choice(ADV[:12] + [d])), "deep.%s.receiver" % kind, "receiver"))
    for g in gl:
        for kind in kinds:
            d = DEEP_VALUES[kind]
            out.append(("%s(%s)" % (g, d), "deep.%s.global" % kind, "call"))
            out.append(("new %s(%s)" % (g, d), "deep.%s.global" % kind, "new"))
    return out


HUGE = re.compile(r"2147483648|4294967296|9007199254740992|1e21|1e300|Infinity")


def surface_cases(chk, found, gl):
    rnd = random.Random(core.shard_seed(chk.seed, "C04", "surface"))
    exprs = []
    quick = chk.tier == "quick"
    for rname, rexpr, member in found:
        forms = ["method", "call", "apply", "detached", "new"]
        # all singles, all pairs (quick: seeded sample of pairs), sample of triples
        vecs = [()] + [(a,) for a in ADV]
        pairs = [(a, b) for a in ADV for b in ADV]
        vecs += rnd.sample(pairs, 60 if quick else len(pairs))
        vecs += [tuple(rnd.choice(ADV) for _ in range(3)) for _ in range(20 if quick else 400)]
        for v in vecs:
            form = "method" if rnd.random() < 0.7 else rnd.choice(forms)
            exprs.append((call_exprs(rexpr, member, v, form), "%s.%s" % (rname, member), form))
    for g in gl:
        vecs = [()] + [(a,) for a in ADV] + [tuple(rnd.choice(ADV) for _ in range(2)) for _ in range(40 if quick else 600)]
        for v in vecs:
            for form in ("call", "new"):
                e = ("%s(%s)" if form == "call" else "new %s(%s)") % (g, ", ".join(v))
                exprs.append((e, "global." + g, form))
    return exprs


# ---------------------------------------------------------- atheris (thorough, optional)
_ATHERIS_SRC = r"""
import os, sys, signal
sys.path.insert(0, os.environ["VERIF_ROOT"])
import atheris
with atheris.instrument_imports(include=["microjs"]):
    import microjs
from checks.c04 import repair_depth

class Alarm(BaseException):
    pass
def _h(s, f):
    raise Alarm()
signal.signal(signal.SIGVTALRM, _h)

def one(data):
    try:
        src = data.decode("utf-8")
    except UnicodeDecodeError:
        src = data.decode("utf-8", "ignore")
    src = repair_depth(src)
    ctx = microjs.Context(time_limit=0.5, memory_limit=2000000)
    ctx.set("console", {"log": lambda *a: None})
    signal.setitimer(signal.ITIMER_VIRTUAL, 10.0, 1.0)
    try:
        try:
            ctx.eval(src)
        except microjs.JSError:
            return
        except MemoryError:
            return
    finally:
        signal.setitimer(signal.ITIMER_VIRTUAL, 0)

atheris.Setup(sys.argv, one)
atheris.Fuzz()
"""


def run_atheris(chk, corpus):
    """Coverage-guided campaign on eval(source) with the same class oracle (python3-vt + atheris)."""
    import shutil
    import subprocess
    import tempfile

    exe = shutil.which("python3-vt")
    env = dict(os.environ, PYTHONPATH=engine.SRC, PYTHONDONTWRITEBYTECODE="1", PYTHONHASHSEED="0", VERIF_ROOT=core.ROOT)
    ok = False
    if exe:
        try:
            ok = subprocess.run([exe, "-c", "import atheris"], env=env, capture_output=True, timeout=60).returncode == 0
        except Exception:
            ok = False
    if not ok:
        chk.extra["atheris"] = "skipped: python3-vt/atheris not available"
        return
    total = 0
    for label, seeded in (("seeded-corpus", True), ("empty-corpus", False)):
        d = tempfile.mkdtemp(prefix="c04-atheris-")
        try:
            script = os.path.join(d, "fuzz.py")
            with open(script, "w", encoding="utf-8") as f:
                f.write(_ATHERIS_SRC)
            cdir = os.path.join(d, "corpus")
            os.makedirs(cdir)
            if seeded:
                for i, src in enumerate(c for c in corpus if len(c) < 600):
                    with open(os.path.join(cdir, "c%04d" % i), "w", encoding="utf-8") as f:
                        f.write(src)
            cmd = [exe, script, cdir, "-runs=%d" % int(os.environ.get("VERIF_C04_ATHERIS_RUNS", "150000")), "-seed=%d" % (chk.seed & 0x7FFFFFFF or 1), "-max_len=400", "-timeout=60",
                   "-artifact_prefix=" + d + os.sep, "-print_final_stats=1", "-verbosity=0"]
            try:
                pr = subprocess.run(cmd, env=env, cwd=d, capture_output=True, timeout=1500)
            except subprocess.TimeoutExpired:
                chk.extra["atheris_" + label] = "truncated: campaign exceeded its wall budget"
                chk.truncated = True
                continue
            err = pr.stderr.decode("utf-8", "replace")
            done = [l for l in err.splitlines() if "stat::number_of_executed_units" in l]
            execs = int(done[0].split()[-1]) if done else 0
            total += execs
            chk.count(execs)
            chk.classify("atheris executions (%s)" % label, execs)
            chk.extra["atheris_" + label] = {"executions": execs, "returncode": pr.returncode}
            if pr.returncode != 0:
                arts = [fn for fn in os.listdir(d) if fn.startswith(("crash-", "timeout-", "oom-"))]
                data = b""
                if arts:
                    with open(os.path.join(d, arts[0]), "rb") as f:
                        data = f.read()
                src = repair_depth(data.decode("utf-8", "ignore"))
                # re-judge the saved input with the ordinary oracle (the saved input is the reproducible unit)
                (verdict, info, shift), = front_task([src])[1]
                if verdict in ("foreign", "hang", "badpos", "syntax-unpositioned") or shift is not None:
                    chk.violation("front|atheris|%s|%s" % (verdict, sig_of(info) if info else ""), {"sub": "front", "kind": "atheris-" + label, "src": src},
                                  "value or JSError", [verdict, info and info.get("cls"), info and (info.get("message") or "")[:100]], sub="front")
                else:
                    chk.extra["atheris_" + label]["note"] = "libFuzzer stopped on an input that the ordinary oracle accepts (%s)" % verdict
        finally:
            shutil.rmtree(d, ignore_errors=True)


# ------------------------------------------------------------------- the check
def sig_of(info):
    return "%s@%s" % (info["cls"], info.get("frame") or "?")


def main(chk):
    chk.rule = (
        "(a) sources from character soup, token soup over the real token vocabulary, 1-3 token-level mutations of corpus programs "
        "and random prefixes of corpus programs, all repaired to nesting depth <= 30; non-trivial = neither accepted-empty nor "
        "rejected at the first token (syntax error beyond column 1 / line 1, or a runtime outcome). (b) every discovered "
        "function-valued member of 37 receiver kinds and every global function x adversarial argument vectors x call forms; "
        "non-trivial = every such call (the call reaches the built-in inside try/catch). Distinct by source text / call expression. "
        "Families regex-backref / argconv / deep: generated from chk.seed, counted under 'surface family ...'."
    )
    chk.assumptions = ["nesting deeper than 30 is out of scope (README: the parser recurses)",
                       "MemoryError under the worker's address-space limit on a huge-operand request is counted resource_excluded (C01 scope note)"]
    for path, rec in core.saved_replays("C04"):
        r = replay(rec)
        chk.count()
        if r["fails"]:
            chk.violation("saved-replay|" + path, rec.get("case"), r["expected"], r["actual"], sub="replay")
    corpus = [c["src"] for c in json.load(open(CORPUS, encoding="utf-8"))]
    kw = keywords()
    quick = chk.tier == "quick"
    plan = [("char-soup", 30000 if quick else 400000), ("token-soup", 30000 if quick else 400000),
            ("corpus-mutation", 12000 if quick else 150000), ("prefix", 6000 if quick else 60000)]
    tasks, kinds = [], []
    for kind, n in plan:
        per = 250 if kind in ("char-soup", "token-soup") else 60
        for b in range(0, n, per):
            tasks.append(("gen", kind, core.shard_seed(chk.seed, "C04", kind, b), per))
            kinds.append(kind)
    if not quick:
        # every prefix of every small corpus program
        for src in corpus:
            if len(src) <= 400:
                tasks.append([repair_depth(src[:i]) for i in range(len(src) + 1)])
                kinds.append("every-prefix")
    # what eval has to hand back: every global by name, its prototype, and result shapes that are hard to convert
    names = sorted(set(GLOBAL_FUNCS + ["Math", "JSON", "console", "NaN", "Infinity", "undefined", "globalThis", "this"]))
    shapes = list(names) + ["%s.prototype" % n for n in names] + ["new %s()" % n for n in names] + [
        "var o = {}; o.self = o; o", "var a = []; a.push(a); a", "var o = {}; o.a = [o]; o", "var p = {}, q = {p: p}; p.q = q; [p, q]",
        "var a = []; for (var i = 0; i < 5000; i++) a = [a]; a", "var o = {}; for (var i = 0; i < 5000; i++) o = {k: o}; o",
        "var a = []; for (var i = 0; i < 200; i++) a = [a, a]; 0", "var a = []; for (var i = 0; i < 18; i++) a = [a, a]; a",
        "var a = []; for (var i = 0; i < 100000; i++) a.push(i); a", "(function(){ return arguments; })(1, 2)", "(function f(){ return f; })()",
        "var f = function(){}; f.self = f; f", "[function(){}, /a/g, new Error('e'), new Uint8Array(2), new ArrayBuffer(2), Math, JSON]",
        "var e = new Error('x'); e.cause = e; e", "var r = /a/; r.self = r; r", "var t = new Uint8Array(2); t.self = t; t",
        "Object.create(null)", "var o = Object.create(null); o.o = o; o", "var o = {}; Object.defineProperty(o, 'g', {get: function(){ return o; }, enumerable: true}); o",
        "var o = {get g(){ throw new Error('getter'); }}; o", "[1, 2, 3].map", "({}).toString", "eval", "Function.prototype", "(function(){}).bind(null)",
    ]
    tasks.append([repair_depth(x) for x in shapes])
    kinds.append("result-shapes")
    res = pool.run(front_task, tasks, timeout=900)
    for kind, task, rb in zip(kinds, tasks, res):
        if isinstance(rb, (pool.HANG, pool.CRASH)):
            # isolate (regenerate the batch here: generation is a pure function of the seed)
            srcs = gen_inputs(task[2], task[1], task[3], corpus, kw) if isinstance(task, tuple) else list(task)
            r1 = pool.run(front_task, [[s] for s in srcs], timeout=120)
            rb = []
            for s, r in zip(srcs, r1):
                rb.append(("hang" if isinstance(r, pool.HANG) else "crash", None, None) if isinstance(r, (pool.HANG, pool.CRASH)) else r[1][0])
        else:
            srcs, rb = rb
        for src, (verdict, info, shift) in zip(srcs, rb):
            chk.count()
            chk.classify("%s: %s" % (kind, verdict))
            case = {"sub": "front", "kind": kind, "src": src}
            if verdict in ("runtime", "resource") or (verdict == "syntax" and (info["line"] > 1 or info["column"] > 1)) or (verdict == "ok" and src.strip()):
                chk.nontrivial(src)
            if verdict == "foreign":
                chk.violation("front|foreign|" + sig_of(info), case, "value or JSError", [info["cls"], (info.get("message") or "")[:100], info.get("frame")], sub="front")
            elif verdict in ("hang", "crash"):
                chk.violation("front|" + verdict, case, "value or JSError", verdict, sub="front")
            elif verdict == "badpos":
                chk.violation("front|position-outside-source|" + (info.get("message") or "")[:30], case, "1 <= line <= lines+1, 1 <= column <= len+2",
                              [info.get("line"), info.get("column"), (info.get("message") or "")[:60]], sub="front")
            elif verdict == "syntax-unpositioned":
                chk.violation("front|syntax-error-without-position|" + re.sub(r"[\d'\"].*", "", info.get("message") or "")[:40], case, "line/column of the offending token",
                              [info.get("line"), info.get("column"), (info.get("message") or "")[:80]], sub="front")
            elif shift is not None:
                chk.violation("front|position-shift|%s|%s" % (shift[0], re.sub(r"[\d'\"].*", "", info.get("message") or "")[:30]), case,
                              "position shifts by %d with %d leading %ss" % (shift[1], shift[1], shift[0]),
                              {"base": [info["line"], info["column"]], "shifted": shift[2], "verdict": shift[3]}, sub="front")
            elif verdict == "syntax" and len(chk.samples) < 10 and info["line"] > 1:
                chk.sample({"kind": kind, "src": src[:120], "outcome": "JSSyntaxError", "line": info["line"], "column": info["column"]})
            elif verdict == "runtime":
                chk.sample({"kind": kind, "src": src[:120], "outcome": info["cls"] + ": " + (info.get("message") or "")[:40]}, cls="rt", per_class=4)
    if not quick:
        run_atheris(chk, corpus)
    else:
        chk.extra["atheris"] = "thorough tier only"
    # (b)
    found, gl = discover_surface()
    chk.extra["surface_members"] = len(found)
    chk.extra["surface_globals"] = gl
    exprs = surface_cases(chk, found, gl) + reentrant_exprs()
    # generated families (each batched with its own kind: the deep ones share one prelude per batch)
    families = [("regex-backref", regex_backref_exprs(chk)), ("argconv", argconv_exprs(chk, found)), ("deep", deep_exprs(chk, found, gl))]
    batches = pool.chunks(exprs, 150)
    for fam, fex in families:
        chk.classify("surface family %s" % fam, len(fex))
        if fam == "regex-backref":
            for _e, _m, form in fex:
                chk.classify("regex-backref: flags/subject %s" % form)
        # (the engine's front end is superlinear in the length of a script: long cases go in small batches)
        batches += pool.chunks(fex, {"regex-backref": 100, "argconv": 20, "deep": 60}[fam])
        exprs = exprs + fex
    res = pool.run(surface_task, [[e for e, _, _ in b] for b in batches], timeout=1200)
    for b, rb in zip(batches, res):
        for e, member, form in b:
            chk.count()
            chk.nontrivial(e)
        chk.classify("surface calls", len(b))
        if isinstance(rb, (pool.HANG, pool.CRASH)):
            r1 = pool.run(surface_task, [[e] for e, _, _ in b], timeout=120)
            rb = []
            for (e, _, _), r in zip(b, r1):
                if isinstance(r, (pool.HANG, pool.CRASH)):
                    rb.append((e, "hang" if isinstance(r, pool.HANG) else "crash"))
                else:
                    rb.extend(r)
        lookup = {e: (member, form) for e, member, form in b}
        for e, r in rb:
            member, form = lookup.get(e, ("?", "?"))
            case = {"sub": "surface", "expr": e, "member": member, "form": form}
            if r == "resource" or (r in ("hang", "crash") and HUGE.search(e)):
                chk.classify("surface: resource_excluded (huge operand)")
                continue
            if r in ("hang", "crash"):
                chk.violation("surface|%s|%s" % (r, member), case, "value or JSError", r, sub="surface")
                continue
            if r["cls"] == "MemoryError" and HUGE.search(e):
                chk.classify("surface: resource_excluded (huge operand)")
                continue
            where = r["cls"] if r["cls"] == "RecursionError" else sig_of(r)     # (the frame that overflows the host stack is arbitrary)
            chk.violation("surface|foreign|%s|%s" % (where, ".".join(member.split(".")[:2]) if member.split(".")[0] in ("deep", "argconv", "regex") else member.split(".")[0] if "." in member else member), case, "value or JSError",
                          [r["cls"], (r.get("message") or "")[:100], r.get("frame")], sub="surface")
    for e, member, form in exprs[:: max(1, len(exprs) // 8)]:
        chk.sample({"sub": "surface", "expr": e[:120], "outcome": "no host exception"}, cls="surf", per_class=8)
    chk.exhaustive = False


def replay(rec):
    case = rec["case"]
    if case.get("sub") == "surface":
        bad = surface_task([case["expr"]])
        return {"fails": bool(bad), "expected": "value or JSError", "actual": bad[0][1] if bad else "ok"}
    src = case["src"]
    (verdict, info, shift), = front_task([src])[1]
    fails = verdict in ("foreign", "hang", "badpos", "syntax-unpositioned") or shift is not None
    return {"fails": fails, "expected": "value or positioned JSError", "actual": [verdict, info, shift]}
