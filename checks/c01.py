"""C01 - time limit bounds every evaluation, whatever the script does.

Programs are wrap(site(spinner)): a never-terminating construct placed at
every place script code can run, optionally inside try/catch/finally.  They
run under a *virtual clock* (vf/vclock.py): each clock read advances time by
1 ms, so "T" is a number of clock reads and the oracle is exact:

 1. eval raises TimeLimitError (MemoryLimitError also accepted for recursion
    spinners when a memory limit is set); a value, another JSError or a host
    exception is a violation;
 2. clock reads during the eval <= T/delta + SLACK (the evaluation ended at
    the first poll after the deadline: a restarted clock, a nested interpreter
    with its own clock or a swallowed stop shows as extra reads);
 3. CPU time of the eval <= CPU_MARGIN beyond normal (unpolled native work);
 4. no hang (CPU alarm inside the worker, kill watchdog outside).
A subset is repeated with the real clock (clauses 1, 3, 4).
"""
import itertools
import time

from vf import core, engine, pool, vclock

SLACK_READS = 8
CPU_MARGIN = 4.0  # real clock: seconds of CPU beyond T for one eval
GAP_MAX = 2.0  # virtual clock: longest CPU stretch without a clock read (normal: ~0.005 s)
ALARM = 12.0

# --------------------------------------------------------------------- grammar
CATA = '"' + "a" * 26 + '"'  # near-miss subject for (a+)+b style patterns

SPINNERS = {
    # name: (statements, kind)
    "while": ("while(true){ hit(); }", "loop"),
    "while-body": ("var n = 0; while(true){ hit(); n = n + 1; if (n < 0) break; }", "loop"),
    "for": ("for(;;){ hit(); }", "loop"),
    "for-counter": ("for(var i = 0; i >= 0; i++){ hit(); var t = [i, {a: i}]; }", "loop"),
    "do": ("do { hit(); } while(true);", "loop"),
    "labelled-continue": ("L: while(true){ hit(); continue L; }", "loop"),
    "nested-break": ("while(true){ hit(); for(var j = 0; j < 3; j++){ if (j == 1) break; } }", "loop"),
    "switch-loop": ("while(true){ hit(); switch(1){ case 1: break; } }", "loop"),
    "try-loop": ("while(true){ hit(); try { throw 1; } catch(e1) {} finally {} }", "loop"),
    "forin-loop": ("while(true){ hit(); for (var k in {a:1,b:2}) {} }", "loop"),
    "string-grow": ("var s = ''; while(true){ hit(); s = (s + 'x').slice(-8); }", "loop"),
    "recursion": ("var rec = function(n){ hit(); return rec(n + 1) + 1; }; rec(0);", "recursion"),
    "mutual-recursion": ("var ra = function(n){ hit(); return rb(n + 1); }; var rb = function(n){ return ra(n + 1); }; ra(0);", "recursion"),
    "regex-loop-test": ("for(;;){ hit(); /(a+)+b/.test(%s); }" % CATA, "loop"),
    "regex-loop-exec": ("var re1 = /(a|aa)+$/; for(;;){ hit(); re1.exec(%s + '!'); }" % CATA, "loop"),
    "regex-loop-ctor": ("for(;;){ hit(); new RegExp('(a*)*b').test(%s); }" % CATA, "loop"),
    "regex-loop-match": ("for(;;){ hit(); %s.match(/(a+)+b/); }" % CATA, "loop"),
    "regex-loop-match-str": ("for(;;){ hit(); %s.match('(a+)+b'); }" % CATA, "loop"),
    "regex-loop-search": ("for(;;){ hit(); %s.search(/(a+)+b/); }" % CATA, "loop"),
    "regex-loop-search-str": ("for(;;){ hit(); %s.search('(a+)+b'); }" % CATA, "loop"),
    "regex-loop-replace": ("for(;;){ hit(); %s.replace(/(a+)+b/, 'x'); }" % CATA, "loop"),
    "regex-loop-replace-g": ("for(;;){ hit(); %s.replace(/(a+)+b/g, 'x'); }" % CATA, "loop"),
    "regex-loop-split": ("for(;;){ hit(); %s.split(/(a+)+b/); }" % CATA, "loop"),
    "regex-loop-lookahead": ("for(;;){ hit(); /(?=(a+)+b)/.test(%s); }" % CATA, "loop"),
    "regex-loop-lookbehind": ("for(;;){ hit(); /(?<=(a+)+)b/.test(%s); }" % CATA, "loop"),
    "array-method-loop": ("var big = []; for (var q = 0; q < 50; q++) big.push(q); for(;;){ hit(); big.map(function(x){ return x; }).filter(function(x){ return x > 1; }).indexOf(7); }", "loop"),
    "closure-loop": ("var mk = function(){ var c = 0; return function(){ c = c + 1; return c; }; }; var inc = mk(); while(inc() > 0){ hit(); }", "loop"),
    "callback-inner-loop": ("[1].forEach(function(){ while(true){ hit(); } });", "loop"),
    "getter-loop": ("var og = { get p(){ while(true){ hit(); } } }; og.p;", "loop"),
    "valueof-loop": ("var ov = { valueOf: function(){ while(true){ hit(); } } }; ov + 1;", "loop"),
    # many short-lived nested interpreters: no single one runs long enough to reach its own poll
    # (defined through the global eval so that the names are global wherever the spinner is placed)
    "eval-tree": ("eval(\"var dp = 0; var ft = function(){ hit(); if (dp < 30) { dp++; for (var i = 0; i < 4; i++) eval('ft()'); dp--; } };\"); ft();", "loop"),
    "function-ctor-tree": ("eval(\"var dq = 0; var fu = function(){ hit(); if (dq < 30) { dq++; for (var i = 0; i < 4; i++) new Function('fu()')(); dq--; } };\"); fu();", "loop"),
    "eval-storm": ("for(;;){ hit(); eval('1 + 1'); }", "loop"),
    "callback-recursion": ("var cr = function(n){ if (n > 150) { while(true){ hit(); } } [1].forEach(function(){ cr(n + 1); }); }; cr(0);", "loop"),
}

# Regexes that reach the evaluation from elsewhere, already used once (a matcher that remembers
# the clock of its first use keeps polling that one), and regexes whose lastIndex is a script
# accessor that throws when the built-in writes the previous value back (script code running
# while the stop unwinds through the built-in must not replace the stop).
LONG = '"' + "a" * 40 + '"'
REGEX_USES = {
    "test": "%(R)s.test(%(X)s)",
    "exec": "%(R)s.exec(%(X)s)",
    "search": "%(X)s.search(%(R)s)",
    "match": "%(X)s.match(%(R)s)",
    "replace": "%(X)s.replace(%(R)s, 'x')",
    "split": "%(X)s.split(%(R)s)",
}
for _api, _use in sorted(REGEX_USES.items()):
    # shared(): built and used in another Context that has no time limit
    SPINNERS["regex-shared-" + _api] = ("var sr = shared(); for(;;){ hit(); %s; }" % (_use % {"R": "sr", "X": CATA}), "loop")
    # mkre(): built and used by a re-entrant eval() of this context made by an exposed callable
    SPINNERS["regex-reentry-" + _api] = ("var rr = mkre(); for(;;){ hit(); %s; }" % (_use % {"R": "rr", "X": CATA}), "loop")
    # pre: a global regex built and used by an earlier eval() of this context
    SPINNERS["regex-earlier-" + _api] = ("for(;;){ hit(); %s; }" % (_use % {"R": "pre", "X": CATA}), "loop")
    # one unmatchable input, lastIndex (7) made an accessor whose setter throws for anything but 0: before the
    # match starts a built-in only ever writes 0 (String.prototype.search), so only a restore can throw
    for _fl in ("", "g"):
        SPINNERS["regex-hooked%s-%s" % (_fl, _api)] = (
            "var rh = /(a+)+b/%s; rh.lastIndex = 7; try { Object.defineProperty(rh, 'lastIndex', { get: function(){ return 7; }, "
            "set: function(v){ if (v !== 0) throw 'restore'; }, configurable: true }); } catch (e9) { } "
            "hit(); try { %s; } catch (e8) { }" % (_fl, _use % {"R": "rh", "X": LONG}), "loop")

# Sites: templates with %(S)s = spinner statements.  Every site *runs* the code.
SITES = {
    "top": "%(S)s",
    "function": "var f0 = function(){ %(S)s }; f0();",
    "declared-function": "function f1(){ %(S)s } f1();",
    "arrow": "var f2 = () => { %(S)s }; f2();",
    "constructor": "var C0 = function(){ %(S)s }; new C0();",
    "method": "var o0 = { m: function(){ %(S)s } }; o0.m();",
    "getter": "var o1 = { get p(){ %(S)s return 1; } }; o1.p;",
    "setter": "var o2 = { set p(v){ %(S)s } }; o2.p = 1;",
    "valueOf-plus": "var o3 = { valueOf: function(){ %(S)s return 1; } }; o3 + 1;",
    "valueOf-minus": "var o3 = { valueOf: function(){ %(S)s return 1; } }; o3 - 1;",
    "valueOf-mul": "var o3 = { valueOf: function(){ %(S)s return 1; } }; o3 * 2;",
    "toString-concat": "var o4 = { toString: function(){ %(S)s return 'x'; } }; '' + o4;",
    "call": "var f3 = function(){ %(S)s }; f3.call(null);",
    "apply": "var f4 = function(){ %(S)s }; f4.apply(null, []);",
    "bind": "var f5 = function(){ %(S)s }; f5.bind(null)();",
    "eval": "eval(%(Q)s);",
    "eval-nested": "eval(%(QQ)s);",
    "new-Function": "new Function(%(Q)s)();",
    "Function-closure": "var f6 = new Function('return function(){ ' + %(Q)s + ' }')(); f6();",
    "finally": "try { 1; } finally { %(S)s }",
    "catch": "try { throw 1; } catch (e0) { %(S)s }",
    "iife-in-expr": "var z = 1 + (function(){ %(S)s return 1; })() + 2;",
    "array-literal": "var z2 = [1, (function(){ %(S)s return 1; })(), 3];",
    "argument": "var id = function(a, b){ return b; }; id(1, (function(){ %(S)s })());",
    "for-in-body": "for (var k0 in {a: 1}) { %(S)s }",
    "for-of-body": "for (var v0 of [1]) { %(S)s }",
    "switch-case": "switch (1) { case 1: %(S)s }",
    "labelled-block": "B0: { %(S)s }",
    # an exposed Python callable re-entered eval() on the same context before the spinner starts
    "after-host-reentry": "reenter(); %(S)s",
    "host-reentry-in-callback": "[1].forEach(function(){ reenter(); }); %(S)s",
    "deep-call": "var d = function(n){ if (n == 0) { %(S)s } else { d(n - 1); } }; d(20);",
}

# Callback sites are built from the list of callback-taking built-ins that the
# engine actually has (discovered at run time).
CALLBACK_VOCAB = [
    "forEach", "map", "filter", "reduce", "reduceRight", "some", "every", "find", "findIndex",
    "findLast", "findLastIndex", "flatMap", "sort", "toSorted",
]

WRAPS = {
    "none": "%(P)s",
    "try-catch": "try { %(P)s } catch (ex) { }",
    "try-finally": "try { %(P)s } finally { }",
    "try-catch-finally": "try { %(P)s } catch (ex) { } finally { }",
    "catch-retry-loop": "while (true) { try { %(P)s } catch (ex) { } }",
    "in-function-try": "var w0 = function(){ try { %(P)s } catch (ex) { return 7; } return 8; }; w0();",
    "nested-try": "try { try { %(P)s } finally { } } catch (ex) { }",
    "catch-returns-value": "var w1 = function(){ try { %(P)s } catch (ex) { return 'swallowed'; } }; w1();",
}


def js_quote(s):
    from oracles.prims import js_string_literal

    return js_string_literal(s)


LATE_SITES = ["eval", "eval-nested", "new-Function", "Function-closure", "getter", "valueOf-plus", "call", "cb:sort", "cb:map", "method"]


def render(spinner, site_tpl, wrap_tpl, t_ms=None, late=False):
    S = SPINNERS[spinner][0]
    P = site_tpl % {"S": S, "Q": js_quote(S), "QQ": js_quote("eval(%s);" % js_quote(S))}
    if late:
        # spend ~60% of the budget *before* entering the site: a nested interpreter
        # that restarts the clock then overruns by more than the slack
        n = int(0.6 * t_ms * 1000 / 11)
        P = "var bw = 0; while (bw < %d) { bw = bw + 1; } %s" % (n, P)
    return wrap_tpl % {"P": P}


def discover_callbacks():
    """Which built-ins of the engine drive script callbacks (probe by calling)."""
    m = engine.load()
    found = []
    ctx = m.Context(time_limit=5)
    for name in CALLBACK_VOCAB:
        src = (
            "var called = 0; var r0 = 'no';"
            "try { if (typeof [][%(n)s] === 'function') { [3,1,2][%(n)s](function(a, b){ called++; return 0; }, 0); r0 = called; } } catch (e) { r0 = 'err'; } r0"
            % {"n": js_quote(name)}
        )
        try:
            with pool.cpu_alarm(10):
                r = ctx.eval(src)
        except BaseException:
            r = "exc"
        if isinstance(r, (int, float)) and r > 0:
            found.append(name)
    return found


def callback_sites(names):
    out = {}
    for n in names:
        if n in ("sort", "toSorted"):
            out["cb:" + n] = "[2, 1, 3].%s(function(a, b){ %%(S)s return 0; });" % n
        elif n in ("reduce", "reduceRight"):
            out["cb:" + n] = "[1, 2].%s(function(a, b){ %%(S)s return 0; }, 0);" % n
        else:
            out["cb:" + n] = "[1, 2].%s(function(x){ %%(S)s return 0; });" % n
    out["cb:nested-map-forEach"] = "[1].forEach(function(){ [1].map(function(){ %(S)s }); });"
    return out


# ------------------------------------------------------------------ worker side
def _init_virtual():
    vclock.install()


def run_case(case):
    """case = (src, T_ms, M, kind).  Runs under whichever clock the worker has."""
    src, t_ms, mem, _kind = case
    m = engine.load()
    clock = vclock.CLOCK
    flag = {"hit": 0}

    def hit():
        flag["hit"] += 1

    T = t_ms / 1000.0
    ctx = m.Context(memory_limit=mem, time_limit=T)
    ctx.set("hit", hit)
    ctx.set("reenter", lambda: ctx.eval("var reentered = 1; reentered + 1"))
    if "shared()" in src:
        shelf = {}
        other = m.Context()
        other.set("publish", lambda v: shelf.__setitem__("re", v))
        other.eval("var re0 = /(a+)+b/; re0.test('xaab'); re0.lastIndex = 0; publish(re0);")
        ctx.set("shared", lambda: shelf["re"])
    if "mkre()" in src:
        made = {}
        ctx.set("publish", lambda v: made.__setitem__("re", v))

        def mkre():
            ctx.eval("var re1 = /(a+)+b/; re1.test('xaab'); re1.lastIndex = 0; publish(re1);")
            return made["re"]

        ctx.set("mkre", mkre)
    if "pre" in src:
        ctx.eval("var pre = /(a+)+b/; pre.test('xaab'); pre.lastIndex = 0;")
    if clock:
        clock.reset()
    cpu0 = time.process_time()
    out = None
    try:
        with pool.cpu_alarm(ALARM):
            try:
                r = ctx.eval(src)
                out = ("value", engine.tv(r))
            except pool.HarnessTimeout:
                out = ("hang", None)
            except RecursionError as e:
                out = ("exc", engine.exc_info(e))
            except Exception as e:
                out = ("exc", engine.exc_info(e))
    except pool.HarnessTimeout:
        out = ("hang", None)
    cpu = time.process_time() - cpu0
    reads = clock.reads if clock else -1
    gap = clock.close() if clock else -1.0
    return (out, flag["hit"], reads, round(cpu, 3), round(gap, 3))


def run_cases(cases):
    return [run_case(c) for c in cases]


# ------------------------------------------------------------------- the check
def judge(chk, case, tags, res, virtual):
    src, t_ms, mem, kind = case
    key = "%s|T=%d|M=%s" % ("|".join(tags), t_ms, mem)
    chk.count()
    chk.classify("site " + tags[1])
    chk.classify("spinner " + tags[0])
    chk.classify("wrap " + tags[2])
    casej = {"src": src, "T_ms": t_ms, "M": mem, "kind": kind, "tags": list(tags), "virtual": virtual}
    if isinstance(res, pool.HANG):
        chk.violation("hang(watchdog)|%s|%s" % (tags[1], tags[0]), casej, "TimeLimitError", "HANG", sub="deadline")
        return
    if isinstance(res, pool.CRASH):
        chk.violation("worker-crash|%s|%s" % (tags[1], tags[0]), casej, "TimeLimitError", repr(res), sub="deadline")
        return
    out, hit, reads, cpu, gap = res
    min_hits = 1 if "regex" in tags[0] else (8 if "tree" in tags[0] else 3)
    if hit < min_hits:
        chk.classify("trivial (spinner not reached)")
        if out[0] == "exc" and not out[1]["family"]:
            # a host exception on the way to the spinner is still a host exception
            chk.classify("trivial with host exception")
        return
    ok_classes = {"TimeLimitError"}
    if mem is not None and kind == "recursion":
        ok_classes.add("MemoryLimitError")
    if out[0] == "hang":
        chk.violation("hang(cpu-alarm)|%s|%s" % (tags[1], tags[0]), casej, "TimeLimitError", "no return after %.0f CPU-s" % ALARM, sub="deadline")
        return
    if out[0] == "value":
        chk.violation("returned-value|%s|%s|%s" % (tags[2], tags[1], tags[0]), casej, "TimeLimitError", ["value", out[1]], sub="stop-class")
        return
    info = out[1]
    if info["cls"] not in ok_classes:
        chk.violation(
            "wrong-class:%s|%s|%s" % (info["cls"], tags[1], tags[0] if "regex" in tags[0] or "recursion" in tags[0] else ""),
            casej, sorted(ok_classes), [info["cls"], (info.get("message") or "")[:80], info.get("frame")], sub="stop-class")
        return
    bound = t_ms + 2 + SLACK_READS
    if virtual and reads >= 0:
        if reads > bound:
            chk.violation("late-reads|%s|%s" % (tags[1], tags[0] if "regex" in tags[0] else ""), casej,
                          "clock reads <= %d" % bound, reads, sub="overrun")
            return
        if reads >= t_ms:
            chk.nontrivial(key)
    else:
        chk.nontrivial(key)
    if virtual and gap > GAP_MAX:
        chk.violation("unpolled-stretch|%s|%s" % (tags[1], tags[0]), casej, "longest CPU stretch without a clock read <= %.1fs" % GAP_MAX, gap, sub="overrun")
        return
    if not virtual and cpu > CPU_MARGIN + t_ms / 1000.0:
        chk.violation("cpu-overrun|%s|%s" % (tags[1], tags[0]), casej, "cpu <= %.1fs" % CPU_MARGIN, cpu, sub="overrun")
        return
    chk.extra["max_unpolled_gap_s"] = max(chk.extra.get("max_unpolled_gap_s", 0.0), gap)
    chk.sample({"tags": list(tags), "T_ms": t_ms, "M": mem, "outcome": info["cls"], "clock_reads": reads, "cpu_s": cpu, "max_unpolled_gap_s": gap, "hits": hit, "src": src[:160]},
               cls=tags[1], per_class=1, total=24)


def all_sites():
    sites = dict(SITES)
    sites.update(callback_sites(discover_callbacks()))
    return sites


def build_cases(chk):
    sites = all_sites()
    chk.extra["callback_builtins_discovered"] = sorted(k for k in sites if k.startswith("cb:"))
    spinners = sorted(SPINNERS)
    wraps = sorted(WRAPS)
    site_items = sorted(sites.items())
    configs = [(20, None), (5, None), (50, 1000000), (20, 1000000)]
    cases = []

    def add(sp, sname, stpl, wname, cfg, late=False):
        src = render(sp, stpl, WRAPS[wname], cfg[0], late)
        cases.append(((src, cfg[0], cfg[1], SPINNERS[sp][1]), (sp, ("late:" if late else "") + sname, wname)))

    # late entry into nested interpreters / built-ins (T = 50 so that 60% of it exceeds the slack)
    for i, sp in enumerate(spinners):
        for j, sname in enumerate(LATE_SITES):
            if sname in sites and (chk.tier != "quick" or (i + j + chk.seed) % 3 == 0):
                add(sp, sname, sites[sname], wraps[(i + j) % len(wraps)], (50, None), late=True)

    if chk.tier == "quick":
        # every (spinner, site) pair once, wrap and configuration rotated (Latin-square
        # style) by position and seed; plus every (wrap, site) pair with two plain spinners
        for i, sp in enumerate(spinners):
            for j, (sname, stpl) in enumerate(site_items):
                add(sp, sname, stpl, wraps[(i + j + chk.seed) % len(wraps)], configs[(i + 2 * j + chk.seed) % len(configs)])
        for k, wname in enumerate(wraps):
            for j, (sname, stpl) in enumerate(site_items):
                add(["while", "recursion"][(j + k + chk.seed) % 2], sname, stpl, wname, configs[(j + k) % len(configs)])
    else:
        for i, sp in enumerate(spinners):
            for j, (sname, stpl) in enumerate(site_items):
                for k, wname in enumerate(wraps):
                    for cfg in (configs[:2] if (i + j + k) % 2 else configs[2:]):
                        add(sp, sname, stpl, wname, cfg)
    return cases


def nested_cases(chk):
    """Random nested compositions: site(site(site(spinner))) with wraps in between."""
    import random

    rnd = random.Random(core.shard_seed(chk.seed, "C01", "nested"))
    sites = all_sites()
    # nesting needs sites whose spinner slot accepts arbitrary statements
    nestable = sorted(k for k in sites if k not in ("eval", "eval-nested", "new-Function", "Function-closure"))
    n = 150 if chk.tier == "quick" else 3000
    out = []
    for _ in range(n):
        sp = rnd.choice(sorted(SPINNERS))
        depth = rnd.randint(2, 3)
        S = SPINNERS[sp][0]
        names = []
        for d in range(depth):
            sname = rnd.choice(nestable)
            # rename helper variables so that nested copies do not collide
            tpl = sites[sname].replace("%(S)s", "\x00")
            for v in ("f0", "f1", "f2", "f3", "f4", "f5", "C0", "o0", "o1", "o2", "o3", "o4", "id", "z2", "z", "d", "k0", "v0", "e0", "B0"):
                tpl = tpl.replace(v, "%s_%d" % (v, d))
            S = tpl.replace("\x00", S)
            if rnd.random() < 0.4:
                S = WRAPS[rnd.choice(sorted(WRAPS)[1:4])] % {"P": S}
            names.append(sname)
        wname = rnd.choice(sorted(WRAPS))
        src = WRAPS[wname] % {"P": S}
        t_ms, mem = rnd.choice([(20, None), (10, 1000000)])
        out.append(((src, t_ms, mem, SPINNERS[sp][1]), (sp, "nest:" + ">".join(reversed(names)), wname)))
    return out


def main(chk):
    chk.rule = (
        "programs wrap(site(spinner)) over %d spinners x all sites (incl. callbacks of every discovered callback-taking "
        "built-in) x %d try/catch/finally wraps x (T, memory_limit) configurations under a virtual clock (1 ms per read); "
        "non-trivial = the spinner was reached (host flag) and at least T/delta clock reads happened; distinct by "
        "(spinner, site, wrap, T, M)" % (len(SPINNERS), len(WRAPS))
    )
    chk.assumptions = [
        "the engine reads time only through time.monotonic/perf_counter (substituted before microjs is imported); if it read "
        "another clock the substitution would not be seen and only the CPU-time clause and the real-clock subset would judge",
        "unpolled native stretches are judged by CPU time with a margin of %.0f s" % CPU_MARGIN,
    ]
    for path, rec in core.saved_replays("C01"):
        r = replay(rec)
        chk.count()
        if r["fails"]:
            chk.violation("saved-replay|" + path, rec.get("case"), r["expected"], r["actual"], sub="replay")
    cases = build_cases(chk) + nested_cases(chk)
    # waves, so that a tree on which every case hangs ends after the first wave
    # (the first wave is small and spread over the whole case list)
    first = cases[:: max(1, len(cases) // 96)]
    rest = [c for c in cases if c not in first]
    waves = [first] + [rest[i : i + 480] for i in range(0, len(rest), 480)]
    seen = 0
    for part in waves:
        w0 = seen
        seen += len(part)
        batches = pool.chunks(part, 6)
        res = pool.run(_run_batch, [[c for c, _ in b] for b in batches], timeout=6 * ALARM + 30, init=_init_virtual)
        for b, rb in zip(batches, res):
            if isinstance(rb, (pool.HANG, pool.CRASH)):
                rs = pool.run(_run_batch, [[c] for c, _ in b], timeout=ALARM + 30, init=_init_virtual)
                for (c, tags), r1 in zip(b, rs):
                    judge(chk, c, tags, r1 if isinstance(r1, (pool.HANG, pool.CRASH)) else r1[0], True)
                continue
            for (c, tags), r1 in zip(b, rb):
                judge(chk, c, tags, r1, True)
        if chk.violation_count >= 40:
            chk.truncated = True
            chk.extra["stopped_early"] = "%d violations after %d of %d cases" % (chk.violation_count, seen, len(cases))
            return
    # real-clock subset: clauses 1, 3, 4
    step = max(1, len(cases) // (40 if chk.tier == "quick" else 300))
    sub = [(((c[0]), 100, c[2], c[3]), tags) for (c, tags) in cases[::step]]
    rs = pool.run(_run_batch, [[c] for c, _ in sub], timeout=ALARM + 30)
    for (c, tags), r1 in zip(sub, rs):
        judge(chk, c, (tags[0], tags[1], tags[2] + "/real"), r1 if isinstance(r1, (pool.HANG, pool.CRASH)) else r1[0], False)
    chk.exhaustive = False


def _run_batch(cases):
    return run_cases(cases)


def replay(rec):
    case = rec["case"]
    c = (case["src"], case["T_ms"], case.get("M"), case.get("kind", "loop"))
    virtual = case.get("virtual", True)
    rs = pool.run(_run_batch, [[c]], timeout=ALARM + 30, init=_init_virtual if virtual else None)
    chk = core.Check("C01", "replay", 0)
    r1 = rs[0]
    judge(chk, c, tuple(case.get("tags", ["?", "?", "?"])), r1 if isinstance(r1, (pool.HANG, pool.CRASH)) else r1[0], virtual)
    if chk.violations:
        v = list(chk.violations.values())[0]
        return {"fails": True, "expected": v["expected"], "actual": v["actual"]}
    return {"fails": False, "expected": "TimeLimitError within bounds", "actual": repr(r1)[:200]}
