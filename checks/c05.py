"""C05 - compiled control flow and closures mean what the source says.

Programs are generated as IR (gens/progs.py, gens/c05gen.py), printed to
JavaScript, run in the engine with one exposed host function log(tag, value),
and interpreted by the independent reference interpreter oracles/refjs.py
(ECMAScript strict mode under the restrictions of spec.md; validated against
node on > 20 000 of the same programs, oracle_validation/refjs.json).

Oracle: ordered log, completion value (typed) or uncaught error are equal.
Campaigns: exhaustive skeletons (inner construct x exit x enclosing construct x
expression context of the enclosing call x pending siblings), switch layouts,
closure capture matrix, ES completion values of non-expression last statements,
seeded random programs (failing ones are shrunk; failures bucketed by the kind
of difference and the construct tags of the shrunk program).
"""
import collections
import random

from checks import c05_stack, proglib
from gens import c05gen, progs
from vf import core, engine, pool

ID = "C05"

# ---------------------------------------------------------------- known-finding guards
# guard name -> predicate over the tag set of a program.  A guard is active only
# while a *known* finding names it and its repro still fails (see _active_guards).
GUARDS = {
    "c05.completion-es": lambda t: "completion-es" in t,
    "c05.arrow-arguments": lambda t: "arrow-arguments" in t,
}


def _layout(i):
    return progs.Layout(compact=(i % 3 == 1), parens=(i % 7 == 3))


def _layout_desc(i):
    return {"compact": i % 3 == 1, "parens": i % 7 == 3}


# ---------------------------------------------------------------------- worker side
_STACK = []  # [reason-or-None] once calibrated in this process


def stack_verifier_off():
    """None when the static stack-balance verifier is usable on this tree,
    otherwise the reason it switched itself off (fail-soft: it reads internals)."""
    if not _STACK:
        _STACK.append(c05_stack.calibrate())
    return _STACK[0]


def run_case(prog, layout=None, step_limit=200000):
    """-> (diff or None, exp, got, src); diff = (kind, detail); exp may be unmodelled.
    When the behaviour agrees, the compiled code is additionally checked by the
    static stack-balance verifier (kind "stack-balance")."""
    src = progs.to_js(prog, layout)
    exp = proglib.run_ref(prog, step_limit=step_limit)
    if "unmodelled" in exp:
        return ("unmodelled", exp["unmodelled"]), exp, None, src
    got = proglib.run_engine(src)
    diff = proglib.compare(exp, got)
    if diff is None and stack_verifier_off() is None:
        try:
            problems = c05_stack.verify_source(src)
        except Exception:  # undecodable after all: not a verdict
            problems = []
        if problems:
            diff = ("stack-balance", {"problems": [list(p) for p in problems[:3]], "result": got["result"]})
    return diff, exp, got, src


def _nontrivial(tags, loglen):
    if loglen < 3:
        return False
    for t in tags:
        if "-x-" in t or t in ("abrupt", "closure", "closure-in-loop", "closure-outlives"):
            return True
    return False


def eval_batch(task):
    """task = list of (index, desc).  Returns compact per-case records."""
    out = []
    for i, desc in task:
        p = c05gen.from_desc(desc)
        diff, exp, got, src = run_case(p, _layout(i))
        rec = {"i": i, "desc": desc, "sub": p["sub"], "tags": p["tags"], "id": p["id"]}
        if diff is not None and diff[0] == "unmodelled":
            rec["unmodelled"] = diff[1]
        else:
            rec["loglen"] = len(exp["log"])
            rec["steps"] = exp.get("steps", 0)
            if diff is not None:
                rec["diff"] = [diff[0], diff[1]]
                rec["exp_result"] = exp["result"]
                rec["got_result"] = got["result"]
            elif i % 997 == 0:
                rec["sample"] = {"src": src[:600], "log_len": len(exp["log"]), "result": exp["result"]}
        out.append(rec)
    return out


# --------------------------------------------------------------------------- shrinking
def _unblock(st):
    return list(st[1]) if st[0] == "block" else [st]


def _stmt_replacements(st):
    """Lists of statements that may stand in for st (its own parts)."""
    k = st[0]
    if k == "block":
        yield list(st[1])
    elif k == "if":
        yield _unblock(st[2])
        if st[3] is not None:
            yield _unblock(st[3])
            yield [("if", st[1], st[2], None)]
    elif k in ("while",):
        yield _unblock(st[2])
    elif k == "dowhile":
        yield _unblock(st[1])
    elif k == "for":
        yield ([st[1]] if st[1] is not None and st[1][0] == "var" else []) + _unblock(st[4])
    elif k in ("forin", "forof"):
        yield _unblock(st[3])
    elif k == "label":
        yield [st[2]]
    elif k == "try":
        yield list(st[1])
        if st[2] is not None:
            yield [("try", st[1], None, st[3])] if st[3] is not None else list(st[1])
        if st[3] is not None:
            yield list(st[3])
            if st[2] is not None:
                yield [("try", st[1], st[2], None)]
    elif k == "switch":
        for _, body in st[2]:
            yield [x for x in body if x[0] != "break"]
        for j in range(len(st[2])):
            yield [("switch", st[1], st[2][:j] + st[2][j + 1:])]
    elif k == "var" and len(st[1]) > 1:
        for j in range(len(st[1])):
            yield [("var", st[1][:j] + st[1][j + 1:])]


def _expr_variants(e):
    """e with one nested function body shrunk, or e replaced by a part."""
    if e is None:
        return
    k = e[0]
    if k == "fn":
        for b in _list_variants(list(e[3])):
            yield ("fn", e[1], e[2], b)
        return
    if k == "arrow":
        if not e[3]:
            for b in _list_variants(list(e[2])):
                yield ("arrow", e[1], b, False)
        return
    if k in ("bin", "logic"):
        yield e[2]
        yield e[3]
        for v in _expr_variants(e[2]):
            yield (k, e[1], v, e[3])
        for v in _expr_variants(e[3]):
            yield (k, e[1], e[2], v)
    elif k == "cond":
        yield e[2]
        yield e[3]
        for v in _expr_variants(e[1]):
            yield (k, v, e[2], e[3])
    elif k == "un":
        yield e[2]
    elif k in ("call", "new"):
        for j, a in enumerate(e[2]):
            for v in _expr_variants(a):
                yield (k, e[1], e[2][:j] + [v] + e[2][j + 1:])
            if a[0] not in ("num", "str", "fn", "arrow", "id"):
                yield (k, e[1], e[2][:j] + [("num", 1.0)] + e[2][j + 1:])
        for v in _expr_variants(e[1]):
            yield (k, v, e[2])
    elif k == "dot":
        for v in _expr_variants(e[1]):
            yield (k, v, e[2])
    elif k == "assign":
        for v in _expr_variants(e[3]):
            yield (k, e[1], e[2], v)
    elif k == "arr":
        for j in range(len(e[1])):
            yield (k, e[1][:j] + e[1][j + 1:])
    elif k == "seq":
        yield e[1][-1]


def _stmt_inner_variants(st):
    k = st[0]
    if k == "block":
        for b in _list_variants(list(st[1])):
            yield ("block", b)
    elif k == "if":
        for v in _stmt_inner_variants(st[2]):
            yield ("if", st[1], v, st[3])
        if st[3] is not None:
            for v in _stmt_inner_variants(st[3]):
                yield ("if", st[1], st[2], v)
        for v in _expr_variants(st[1]):
            yield ("if", v, st[2], st[3])
        if st[1][0] != "bool":
            yield ("if", ("bool", True), st[2], st[3])
    elif k == "while":
        for v in _stmt_inner_variants(st[2]):
            yield (k, st[1], v)
    elif k == "dowhile":
        for v in _stmt_inner_variants(st[1]):
            yield (k, v, st[2])
    elif k == "for":
        for v in _stmt_inner_variants(st[4]):
            yield (k, st[1], st[2], st[3], v)
    elif k in ("forin", "forof"):
        for v in _stmt_inner_variants(st[3]):
            yield (k, st[1], st[2], v)
    elif k == "label":
        for v in _stmt_inner_variants(st[2]):
            yield (k, st[1], v)
    elif k == "fdecl":
        for b in _list_variants(list(st[3])):
            yield (k, st[1], st[2], b)
    elif k == "try":
        for b in _list_variants(list(st[1])):
            yield (k, b, st[2], st[3])
        if st[2] is not None:
            for b in _list_variants(list(st[2][1])):
                yield (k, st[1], (st[2][0], b), st[3])
        if st[3] is not None:
            for b in _list_variants(list(st[3])):
                yield (k, st[1], st[2], b)
    elif k == "switch":
        for j, (test, body) in enumerate(st[2]):
            for b in _list_variants(list(body)):
                yield (k, st[1], st[2][:j] + [(test, b)] + st[2][j + 1:])
    elif k == "expr":
        for v in _expr_variants(st[1]):
            yield (k, v)
    elif k == "var":
        for j, d in enumerate(st[1]):
            for v in _expr_variants(d[1]):
                yield (k, st[1][:j] + [(d[0], v)] + st[1][j + 1:])
    elif k in ("return", "throw"):
        for v in _expr_variants(st[1]):
            yield (k, v)


def _list_variants(ss):
    n = len(ss)
    if n > 3:
        h = n // 2
        yield ss[h:]
        yield ss[:h]
    for i in range(n - 1, -1, -1):
        yield ss[:i] + ss[i + 1:]
    for i in range(n):
        for rep in _stmt_replacements(ss[i]):
            yield ss[:i] + list(rep) + ss[i + 1:]
    for i in range(n):
        for v in _stmt_inner_variants(ss[i]):
            yield ss[:i] + [v] + ss[i + 1:]


def same_failure(kind, diff):
    return diff is not None and diff[0] != "unmodelled" and diff[0].split(":")[0] == kind.split(":")[0]


def shrink(body, kind, layout=None, max_evals=700):
    """Greedy reduction of a failing program: drop statements, replace a node
    by its children, keep a candidate while it still fails the same way."""
    evals = 0

    def fails(b):
        nonlocal evals
        try:
            progs.validate(b)
        except (progs.Invalid, KeyError, IndexError, TypeError):
            return False
        evals += 1
        try:
            diff, _, _, _ = run_case({"body": b}, layout, step_limit=30000)
        except Exception:
            return False
        return same_failure(kind, diff)

    body = list(body)
    start = 0
    progress = True
    while progress and evals < max_evals:
        progress = False
        cands = list(_list_variants(body))
        n = len(cands)
        for off in range(n):
            j = (start + off) % n
            if evals >= max_evals:
                break
            if fails(cands[j]):
                body = cands[j]
                start = j
                progress = True
                break
    return body, evals


def shrink_task(task):
    desc, kind, li, max_evals = task
    p = c05gen.from_desc(desc)
    body, evals = shrink(p["body"], kind, _layout(li), max_evals)
    diff, exp, got, src = run_case({"body": body}, _layout(li))
    return {"desc": desc, "body": body, "evals": evals, "src": src, "diff": diff, "exp": exp, "got": got}


# ------------------------------------------------------------------------- parent side
def _select(chk):
    """[(index, desc)] for this tier and seed."""
    quick = chk.tier == "quick"
    cases = []
    skel = [c05gen.describe(p) for p in c05gen.skeletons()]
    if quick:
        # stratified: every (K, X, E) triple keeps its statement context and four
        # (context, pending) cells chosen by the seed; thorough runs the full product
        rnd = random.Random(core.shard_seed(chk.seed, ID, "skel-select"))
        groups = collections.OrderedDict()
        for d in skel:
            groups.setdefault((d[1], d[2], d[3]), []).append(d)
        skel = []
        for key, ds in groups.items():
            stmt = [d for d in ds if d[4] == "stmt"]
            rest = [d for d in ds if d[4] != "stmt"]
            skel.extend(stmt)
            skel.extend(rnd.sample(rest, min(len(rest), 9)))
    cases.extend(skel)
    chk.extra["skeletons"] = len(skel)
    sk2 = [c05gen.describe(p) for p in c05gen.skeletons2()]
    if quick:
        rnd = random.Random(core.shard_seed(chk.seed, ID, "skel2-select"))
        sk2 = rnd.sample(sk2, 1500)
    cases.extend(sk2)
    chk.extra["skeletons2"] = len(sk2)
    skh = [c05gen.describe(p) for p in c05gen.skeletons_head()]
    cases.extend(skh)
    chk.extra["skeletons_head"] = len(skh)
    for gen in (c05gen.switch_product(), c05gen.closure_matrix(), c05gen.closure_expr_sites(), c05gen.scoping_cases(), c05gen.completion_cases()):
        cases.extend(c05gen.describe(p) for p in gen)
    n_random = 2500 if quick else 60000
    chk.extra["random_programs"] = n_random
    for p_seed in range(n_random):
        cases.append(["random", core.shard_seed(chk.seed, ID, "random", p_seed) & 0xFFFFFFFFFFFF])
    return list(enumerate(cases))


def _active_guards(chk):
    """Guards of listed known findings whose repro still fails as recorded."""
    active = {}
    for name, entry in chk.guards.items():
        if name not in GUARDS:
            continue
        repro = entry.get("repro")
        still = True
        if repro:
            try:
                rec = core.load_json(repro if repro.startswith("/") else core.ROOT + "/" + repro)
                still = bool(replay(rec)["fails"])
            except Exception:
                still = True
        if still:
            active[name] = entry
            chk.known_hit(entry["id"], 0)
    return active


def main(chk):
    chk.rule = (
        "program whose log has >= 3 entries and that contains an abrupt exit (break/continue/return/throw, labelled or not) "
        "crossing at least one construct boundary, or a closure that shares or outlives its activation; distinct by program id"
    )
    chk.assumptions = [
        "oracles/refjs.py implements ECMAScript strict-mode semantics for the IR (agreement with node: oracle_validation/refjs.json)",
        "documented restrictions built into the reference: for-in visits own keys only; eval() shows undefined and null as None",
        "the message of an uncaught runtime error is implementation-defined (only user-thrown values/messages are compared)",
        "the static stack-balance verifier reads compiler internals and switches itself off when its calibration fails",
    ]
    for path, rec in core.saved_replays(ID):
        r = replay(rec)
        chk.count()
        if r["fails"]:
            chk.violation("saved-replay|" + path, rec.get("case"), r["expected"], r["actual"], sub="replay")
    guards = _active_guards(chk)
    todo = []
    for i, desc in _select(chk):
        todo.append((i, desc))
    batches = pool.chunks(todo, 40)
    res = pool.run(eval_batch, batches, timeout=300)
    failures = collections.OrderedDict()  # coarse bucket -> [rec]
    for batch, rb in zip(batches, res):
        if isinstance(rb, (pool.HANG, pool.CRASH)):
            # isolate: rerun one by one
            single = pool.run(eval_batch, [[c] for c in batch], timeout=60)
            rb = []
            for c, r1 in zip(batch, single):
                if isinstance(r1, (pool.HANG, pool.CRASH)):
                    chk.count()
                    chk.violation("%s|worker %r" % (c[1][0], r1), {"desc": c[1], "layout_index": c[0]}, None, repr(r1), sub=c[1][0])
                else:
                    rb.extend(r1)
        for rec in rb:
            tags = rec["tags"]
            gname = next((g for g in guards if GUARDS[g](tags)), None)
            if gname is not None:
                chk.excluded[guards[gname]["id"]] += 1
                if "diff" in rec:
                    chk.known_hit(guards[gname]["id"])
                continue
            if "unmodelled" in rec:
                chk.excluded["reference budget/unmodelled: " + rec["unmodelled"][:40]] += 1
                continue
            chk.count()
            chk.classify("sub:" + rec["sub"])
            for t in tags:
                if rec["sub"] == "random" or t[:2] in ("K:", "X:", "E:", "C:"):
                    chk.classify(t)
            if _nontrivial(tags, rec["loglen"]):
                chk.nontrivial(rec["id"])
            if "sample" in rec:
                chk.sample({"id": rec["id"], **rec["sample"]}, cls=rec["sub"], per_class=4)
            if "diff" in rec:
                kind = rec["diff"][0]
                if rec["sub"] in ("skel", "skel2", "skelhead"):
                    d = rec["desc"]
                    bucket = "%s|%s|X:%s|K:%s" % (rec["sub"], kind, d[2], d[1])
                elif rec["sub"] == "random":
                    bucket = "random|%s" % kind
                else:
                    bucket = "%s|%s|%s" % (rec["sub"], kind, rec["id"].split("|")[1])
                failures.setdefault(bucket, []).append(rec)
    # ---- shrink representatives of the random buckets, report everything
    per_bucket = 4 if chk.tier == "quick" else 12
    max_evals = 500 if chk.tier == "quick" else 1500
    shrink_tasks = []
    for bucket, recs in failures.items():
        if bucket.startswith("random|"):
            for rec in recs[:per_bucket]:
                shrink_tasks.append((rec["desc"], rec["diff"][0], rec["i"], max_evals))
    shrunk = pool.run(shrink_task, shrink_tasks, timeout=600) if shrink_tasks else []
    shrunk_desc = set()
    for t, r in zip(shrink_tasks, shrunk):
        if isinstance(r, (pool.HANG, pool.CRASH)) or r["diff"] is None:
            continue
        shrunk_desc.add(core.jdump(t[0]))
        tags = progs.tags_of(r["body"])
        sig = "random|%s|%s" % (r["diff"][0], ",".join(tags))
        chk.violation(sig, {"body": r["body"], "layout": _layout_desc(t[2]), "from": t[0], "src": r["src"]},
                      {"log": r["exp"]["log"][-12:], "result": r["exp"]["result"]},
                      {"log": (r["got"]["log"][-12:] if r["got"] else None), "result": r["got"]["result"] if r["got"] else None,
                       "diff": r["diff"][1]}, sub="random")
    for bucket, recs in failures.items():
        for rec in recs:
            if core.jdump(rec["desc"]) in shrunk_desc:
                continue
            chk.violation(bucket, {"desc": rec["desc"], "layout_index": rec["i"], "id": rec["id"], "tags": rec["tags"]},
                          rec["exp_result"], {"result": rec["got_result"], "diff": rec["diff"]}, sub=rec["sub"])
    off = stack_verifier_off()
    chk.extra["stack_balance_verifier"] = "on (calibrated on %d programs)" % len(c05_stack.CALIBRATION) if off is None else "OFF: " + off
    chk.exhaustive = chk.tier != "quick"
    chk.extra["guards_active"] = sorted(guards)


# ------------------------------------------------------------------------------ replay
def replay(rec):
    case = rec["case"]
    if "body" in case:
        p = {"body": case["body"]}
        lay = case.get("layout") or {}
        layout = progs.Layout(compact=bool(lay.get("compact")), parens=bool(lay.get("parens")))
    else:
        p = c05gen.from_desc(case["desc"])
        layout = _layout(case.get("layout_index", 0))
    diff, exp, got, src = run_case(p, layout)
    if diff is not None and diff[0] == "unmodelled":
        return {"fails": False, "expected": None, "actual": None, "note": "reference: " + diff[1]}
    return {
        "fails": diff is not None,
        "expected": {"log": exp["log"][-12:], "result": exp["result"]},
        "actual": {"log": got["log"][-12:], "result": got["result"], "diff": diff},
    }
