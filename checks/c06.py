"""C06 - operators and conversions on primitive values follow ECMAScript.

Exhaustive operator tables over the boundary grid (numbers in both host
representations) for every binary / unary / update / compound-assignment
operator and every assignment-target form, plus Hypothesis-generated random
expression trees.  Oracle: oracles/prims.py (typed comparison, sign of zero,
NaN-ness; an engine integer that no double can represent is a mismatch).
"""
import math

from gens import values as V
from oracles import prims as P
from vf import core, engine, pool

GRID = V.grid()  # (value, source, tag)
SRC2VAL = {s: v for v, s, _ in GRID}

TARGET_FORMS = ["global", "local", "cell", "free", "dot", "index", "elem", "param", "cellparam"]


# ---------------------------------------------------------------- worker side
def _script_binary(op, left_src, right_srcs):
    return (
        "var G = [%s]; var a = %s; var out = [];\n"
        "for (var i = 0; i < G.length; i++) { var r = (a %s G[i]); out.push(typeof r); out.push(r); }\n"
        "out" % (", ".join(right_srcs), left_src, op)
    )


def _script_unary(op, srcs):
    sp = " " if op.isalpha() else ""
    return (
        "var G = [%s]; var out = [];\n"
        "for (var i = 0; i < G.length; i++) { var r = (%s%s G[i]); out.push(typeof r); out.push(r); }\n"
        "out" % (", ".join(srcs), op, sp)
    )


def _script_ternary(left_src, srcs):
    return (
        "var G = [%s]; var a = %s; var out = [];\n"
        "for (var i = 0; i < G.length; i++) { var r = (G[i] ? a : 'N'); out.push(typeof r); out.push(r); }\n"
        "out" % (", ".join(srcs), left_src)
    )


def _target(form):
    """(prelude, lvalue expression, read-back expression, wrap-in-function?)"""
    if form == "global":
        return ("var x;", "x", "x", False)
    if form == "local":
        return ("var x;", "x", "x", True)
    if form == "cell":
        return ("var x; var rd = function(){ return x; };", "x", "rd()", True)
    if form == "free":
        return ("var x; var wr = function(b, k){ x = k; return __APPLY__; }; var rd = function(){ return x; };", "x", "rd()", True)
    if form == "dot":
        return ("var o = {p: 0};", "o.p", "o.p", False)
    if form == "index":
        return ("var o = {p: 0}; var k = 'p';", "o[k]", "o['p']", True)
    if form == "elem":
        return ("var arr = [0, 0];", "arr[1]", "arr[1]", False)
    if form == "param":  # a parameter of the enclosing function
        return ("", "x", "x", "param")
    if form == "cellparam":  # a parameter that an inner function also uses (lives in a closure cell)
        return ("var rd = function(){ return x; };", "x", "rd()", "param")
    raise KeyError(form)


def _wrap(s, wrap):
    if wrap == "param":
        return "(function(x){ %s return out; })(0)" % s
    if wrap:
        return "(function(){ %s return out; })()" % s
    return s + "out"


def _script_compound(op, form, left_src, right_srcs):
    prelude, lv, rd, wrap = _target(form)
    if form == "free":
        prelude = prelude.replace("__APPLY__", "(x %s b)" % op)
        body = "var r = wr(G[i], a);"
    else:
        body = "%s = a; var r = (%s %s G[i]);" % (lv, lv, op)
    s = (
        "var G = [%s]; var a = %s; var out = []; %s\n"
        "for (var i = 0; i < G.length; i++) { %s var v = %s; out.push(typeof r); out.push(r); out.push(typeof v); out.push(v); }\n"
        % (", ".join(right_srcs), left_src, prelude, body, rd)
    )
    return _wrap(s, wrap)


def _script_update(op, form, srcs):
    prelude, lv, rd, wrap = _target(form)
    expr = op.replace("x", lv)
    if form == "free":
        prelude = prelude.replace("__APPLY__", "(%s)" % op)
        body = "var r = wr(0, G[i]);"
    else:
        body = "%s = G[i]; var r = (%s);" % (lv, expr)
    s = (
        "var G = [%s]; var out = []; %s\n"
        "for (var i = 0; i < G.length; i++) { %s var v = %s; out.push(typeof r); out.push(r); out.push(typeof v); out.push(v); }\n"
        % (", ".join(srcs), prelude, body, rd)
    )
    return _wrap(s, wrap)


def _script_unary_form(op, form, srcs):
    """Unary operator applied to a variable / member of every target form (typeof and friends have
    their own compile paths per kind of operand)."""
    prelude, lv, rd, wrap = _target(form)
    sp = " " if op.isalpha() else ""
    if form == "free":
        prelude = prelude.replace("__APPLY__", "(%s%s x)" % (op, sp))
        body = "var r = wr(0, G[i]);"
    else:
        body = "%s = G[i]; var r = (%s%s %s);" % (lv, op, sp, lv)
    s = (
        "var G = [%s]; var out = []; %s\n"
        "for (var i = 0; i < G.length; i++) { %s out.push(typeof r); out.push(r); }\n"
        % (", ".join(srcs), prelude, body)
    )
    return _wrap(s, wrap)


def build_script(task):
    kind = task[0]
    if kind == "bin":
        return _script_binary(task[1], task[2], task[3]), 2
    if kind == "un":
        if len(task) > 4 and task[4]:
            return _script_unary_form(task[1], task[4], task[3]), 2
        return _script_unary(task[1], task[3]), 2
    if kind == "tern":
        return _script_ternary(task[2], task[3]), 2
    if kind == "cmp":
        return _script_compound(task[1], task[4], task[2], task[3]), 4
    if kind == "upd":
        return _script_update(task[1], task[4], task[3]), 4
    if kind == "lit":  # stand-alone expression with literal operands
        return task[1], 0
    raise KeyError(kind)


def _typed(lst, width):
    out = []
    for i in range(0, len(lst), width):
        row = []
        for j in range(0, width, 2):
            row.append([lst[i + j], engine.tv(lst[i + j + 1])])
        out.append(row)
    return out


def eval_task(task):
    """Run one batch; on a batch-level error re-run cell by cell."""
    m = engine.load()
    src, width = build_script(task)
    if width == 0:
        with pool.cpu_alarm(20):
            try:
                r = m.Context(time_limit=10).eval("var r = (%s); [typeof r, r]" % src)
                return ("ok", [[[r[0], engine.tv(r[1])]]])
            except pool.HarnessTimeout:
                return ("err", {"cls": "HANG", "family": False})
            except Exception as e:
                return ("err", engine.exc_info(e))
    try:
        with pool.cpu_alarm(60):
            r = m.Context(time_limit=30).eval(src)
        if not isinstance(r, list) or len(r) != width * len(task[3]):
            return ("bad", repr(r)[:200])
        return ("ok", _typed(r, width))
    except pool.HarnessTimeout:
        return ("err", {"cls": "HANG", "family": False})
    except Exception as e:
        if len(task[3]) == 1:
            return ("err", engine.exc_info(e))
    # cell by cell
    rows = []
    for rs in task[3]:
        t = list(task)
        t[3] = [rs]
        st, val = eval_task(tuple(t))
        rows.append(val[0] if st == "ok" else {"err": val})
    return ("ok", rows)


def eval_tasks(tasks):
    return [eval_task(t) for t in tasks]


# ---------------------------------------------------------------- oracle side
def exp_pair(v):
    return [P.typeof(v), P.tv(v)]


def expected_rows(task):
    kind, op, left_src, right_srcs = task[0], task[1], task[2], task[3]
    rows = []
    if kind == "bin":
        a = SRC2VAL[left_src]
        for rs in right_srcs:
            rows.append([exp_pair(P.binop(op, a, SRC2VAL[rs]))])
    elif kind == "un":
        for rs in right_srcs:
            rows.append([exp_pair(P.unop(op, SRC2VAL[rs]))])
    elif kind == "tern":
        a = SRC2VAL[left_src]
        for rs in right_srcs:
            rows.append([exp_pair(a if P.to_boolean(SRC2VAL[rs]) else "N")])
    elif kind == "cmp":
        a = SRC2VAL[left_src]
        for rs in right_srcs:
            r = P.binop(op[:-1], a, SRC2VAL[rs])
            rows.append([exp_pair(r), exp_pair(r)])
    elif kind == "upd":
        for rs in right_srcs:
            r, new = P.update(op, SRC2VAL[rs])
            rows.append([exp_pair(r), exp_pair(new)])
    return rows


def cell_key(task, rs):
    kind = task[0]
    form = task[4] if len(task) > 4 else ""
    return "%s|%s|%s|%s|%s" % (kind, form, task[1], task[2], rs)


def nontrivial_cell(a, b):
    if a is not None and b is not None and a is not P.UNDEF and b is not P.UNDEF:
        if P.js_type(a) != P.js_type(b):
            return True
    return V.is_boundary(a) or V.is_boundary(b)


# ------------------------------------------------------------------- the check
def table_tasks(chk):
    srcs = [s for _, s, _ in GRID]
    tasks = []
    for op in P.BINOPS:
        for ls in srcs:
            tasks.append(("bin", op, ls, srcs))
    for op in P.UNOPS:
        tasks.append(("un", op, "", srcs))
        for form in TARGET_FORMS:
            tasks.append(("un", op, "", srcs, form))
    for ls in ["1", '"abc"']:
        tasks.append(("tern", "?:", ls, srcs))
    forms = TARGET_FORMS
    if chk.tier == "quick":
        # two target forms rotated by seed (all seven in thorough)
        i = chk.seed % len(TARGET_FORMS)
        forms = [TARGET_FORMS[i], TARGET_FORMS[(i + 3) % len(TARGET_FORMS)]]
    chk.extra["target_forms"] = forms
    for form in forms:
        for op in P.COMPOUND:
            for ls in srcs:
                tasks.append(("cmp", op, ls, srcs, form))
    for form in TARGET_FORMS:
        for op in P.UPDATES:
            tasks.append(("upd", op, "", srcs, form))
    return tasks


def judge_rows(chk, task, got_rows, exp_rows):
    kind = task[0]
    a = SRC2VAL.get(task[2]) if task[2] else None
    for rs, got, exp in zip(task[3], got_rows, exp_rows):
        key = cell_key(task, rs)
        chk.count()
        b = SRC2VAL[rs]
        if nontrivial_cell(a if task[2] else b, b):
            chk.nontrivial(key)
        chk.classify("%s %s" % (kind, task[1]))
        case = {"kind": kind, "op": task[1], "left": task[2], "right": rs, "form": task[4] if len(task) > 4 else ""}
        sig = "%s|%s|%s" % (kind, task[1], case["form"])
        if isinstance(got, dict):  # error for this cell
            err = got["err"]
            actual = ["exception", err.get("cls"), err.get("name"), (err.get("message") or "")[:60]]
            chk.cell(key, exp, actual, case, sub="table", signature=sig + "|exc:" + str(err.get("cls")))
            continue
        ok = chk.cell(key, exp, got, case, sub="table", signature=sig + "|" + _diffclass(exp, got))
        if ok and len(chk.samples) < 12 and nontrivial_cell(a if task[2] else b, b) and (hash(key) % 9973 == chk.seed % 9973 or len(chk.samples) < 4):
            chk.sample({"cell": key, "expected": exp, "actual": got})


def _diffclass(exp, got):
    try:
        e, g = exp[0], got[0]
        if e[0] != g[0]:
            return "type %s->%s" % (e[0], g[0])
        if g[1][0] == "bigint":
            return "bigint"
        if e[1][0] == "n":
            ev, gv = e[1][1], g[1][1]
            if ev in ("NaN", "Infinity", "-Infinity", "0", "-0") or gv in ("NaN", "Infinity", "-Infinity", "0", "-0"):
                return "num %s->%s" % (ev if len(ev) < 10 else "x", gv if len(gv) < 10 else "y")
            return "num value"
        if e != g:
            return "value"
        return "second"
    except Exception:
        return "shape"


def run_tables(chk):
    tasks = table_tasks(chk)
    batches = pool.chunks(tasks, 8)
    res = pool.run(eval_tasks, batches, timeout=90)
    retry = []
    for batch, rb in zip(batches, res):
        if isinstance(rb, (pool.HANG, pool.CRASH)):
            retry.extend(batch)
            continue
        for task, (st, rows) in zip(batch, rb):
            _judge_task(chk, task, st, rows)
    if retry:
        # a batch hung or crashed the worker: isolate the cell(s) responsible
        res = pool.run(eval_task, retry, timeout=60)
        single = []
        for task, r in zip(retry, res):
            if isinstance(r, (pool.HANG, pool.CRASH)):
                for rs in task[3]:
                    t = list(task)
                    t[3] = [rs]
                    single.append(tuple(t))
            else:
                _judge_task(chk, task, r[0], r[1])
        res = pool.run(eval_task, single, timeout=15)
        for task, r in zip(single, res):
            if isinstance(r, (pool.HANG, pool.CRASH)):
                _judge_task(chk, task, "ok", [{"err": {"cls": repr(r), "family": False}}])
            else:
                _judge_task(chk, task, r[0], r[1])


def _judge_task(chk, task, st, rows):
    exp = expected_rows(task)
    if st != "ok":
        if len(task[3]) == 1 and isinstance(rows, dict):
            judge_rows(chk, task, [{"err": rows}], exp)
            return
        chk.violation("table-task|%s|%s" % (task[0], task[1]), {"task": list(task[:3])}, None, [st, rows], sub="table")
        return
    judge_rows(chk, task, rows, exp)


# ---- stand-alone literal expressions (constant folding / pooling paths)
def run_literals(chk):
    import random  # deterministic selection only (seeded), not inside a property

    rnd = random.Random(core.shard_seed(chk.seed, "C06", "lit"))
    srcs = [s for _, s, _ in GRID]
    n = 3000 if chk.tier == "quick" else 40000
    tasks = []
    for _ in range(n):
        op = rnd.choice(P.BINOPS)
        a, b = rnd.choice(srcs), rnd.choice(srcs)
        tasks.append(("lit", "%s %s %s" % (a, op, b), a, b, op))
    batches = pool.chunks(tasks, 200)
    res = pool.run(eval_tasks, batches, timeout=600)
    for batch, rb in zip(batches, res):
        if isinstance(rb, (pool.HANG, pool.CRASH)):
            raise engine.HarnessError("C06 literal batch %r" % rb)
        for task, (st, rows) in zip(batch, rb):
            _, src, a, b, op = task
            exp = [exp_pair(P.binop(op, SRC2VAL[a], SRC2VAL[b]))]
            # a stand-alone cell shares its identity with the table cell
            key = "bin||%s|%s|%s" % (op, a, b)
            chk.count()
            chk.classify("lit %s" % op)
            case = {"kind": "lit", "src": src}
            if st != "ok":
                actual = ["exception", rows.get("cls"), rows.get("name"), (rows.get("message") or "")[:60]]
                chk.cell(key, exp, actual, case, sub="literal", signature="lit|%s|exc:%s" % (op, rows.get("cls")))
            else:
                chk.cell(key, exp, rows[0], case, sub="literal", signature="lit|%s|%s" % (op, _diffclass(exp, rows[0])))


# ---- literals as operands of unary operators and as conditions (dead-branch / folding paths of a compiler)
LITCOND_FORMS = {
    "ternary": "var r = (%s ? 'T' : 'F');",
    "and": "var r = (%s && 'R');",
    "or": "var r = (%s || 'R');",
    "not": "var r = !%s;",
    "notnot": "var r = !!%s;",
    "if": "var r; if (%s) r = 'T'; else r = 'F';",
    "if-noelse": "var r = 'N'; if (%s) r = 'T';",
    "while": "var r = 'F'; while (%s) { r = 'T'; break; }",
    "for": "var r = 'F'; for (; %s; ) { r = 'T'; break; }",
    "dowhile": "var r = 0; do { r = r + 1; } while (%s && r < 2);",
    "and-call": "var hit = 0; var f = function(){ hit = hit + 1; return 'C'; }; var r0 = (%s && f()); var r = [r0 === 'C' ? 'C' : 'x', hit].join();",
    "or-call": "var hit = 0; var f = function(){ hit = hit + 1; return 'C'; }; var r0 = (%s || f()); var r = [r0 === 'C' ? 'C' : 'x', hit].join();",
}


def _litcond_expected(form, v):
    t = P.to_boolean(v)
    if form == "ternary":
        return "T" if t else "F"
    if form == "and":
        return "R" if t else v
    if form == "or":
        return v if t else "R"
    if form == "not":
        return not t
    if form == "notnot":
        return t
    if form in ("if", "while", "for"):
        return "T" if t else "F"
    if form == "if-noelse":
        return "T" if t else "N"
    if form == "dowhile":
        return 2.0 if t else 1.0
    if form == "and-call":
        return "C,1" if t else "x,0"
    if form == "or-call":
        return "x,0" if t else "C,1"
    raise KeyError(form)


def eval_litcond(tasks):
    m = engine.load()
    out = []
    for kind, form, src in tasks:
        if kind == "un":
            prog = "var r = (%s %s); [typeof r, r]" % (form, src)  # (a space: - -1, not --1)
        else:
            prog = (LITCOND_FORMS[form] % src) + " [typeof r, r]"
        if kind == "fn":
            prog = "(function(){ %s return [typeof r, r]; })()" % (LITCOND_FORMS[form] % src)
        try:
            with pool.cpu_alarm(20):
                r = m.Context(time_limit=10).eval(prog)
            out.append(("ok", [r[0], engine.tv(r[1])]))
        except pool.HarnessTimeout:
            out.append(("err", {"cls": "HANG", "family": False}))
        except Exception as e:
            out.append(("err", engine.exc_info(e)))
    return out


def run_litcond(chk):
    srcs = [s for _, s, _ in GRID] + [s for s in SMALL_LITERALS if s not in SRC2VAL and _lit_value(s) is not _MISSING]
    tasks = []
    for s_ in srcs:
        for op in P.UNOPS:
            tasks.append(("un", op, s_))
        for form in LITCOND_FORMS:
            tasks.append(("top", form, s_))
            tasks.append(("fn", form, s_))
    batches = pool.chunks(tasks, 400)
    res = pool.run(eval_litcond, batches, timeout=600)
    for batch, rb in zip(batches, res):
        if isinstance(rb, (pool.HANG, pool.CRASH)):
            raise engine.HarnessError("C06 litcond batch %r" % rb)
        for (kind, form, src), (st, row) in zip(batch, rb):
            v = _lit_value(src)
            exp = exp_pair(P.unop(form, v) if kind == "un" else _litcond_expected(form, v))
            key = "litcond|%s|%s|%s" % (kind, form, src)
            chk.count()
            chk.nontrivial(key)
            chk.classify("litcond %s" % (form if kind != "un" else "unary"))
            case = {"kind": "litcond", "place": kind, "form": form, "src": src}
            if st != "ok":
                actual = ["exception", row.get("cls"), row.get("name"), (row.get("message") or "")[:60]]
                chk.cell(key, exp, actual, case, sub="litcond", signature="litcond|%s|%s|exc" % (kind, form))
            else:
                chk.cell(key, exp, row, case, sub="litcond", signature="litcond|%s|%s|%s" % (kind, form, _diffclass([exp], [row])))


# ---- compound assignment / update with the right operand written as a literal
# (the table campaign feeds operands through variables; a compiler that special-cases
# `x += 1`, `x *= 2`, `x -= 0` ... keys on the literal in the source)
SMALL_LITERALS = ["0", "1", "2", "-1", "1.0", "0.5", "-0", "1e0", "0x1", "10", "'1'", "''", "'a'", "true", "false", "null", "undefined"]


def _script_cmplit(op, form, left_src, right_src):
    prelude, lv, rd, wrap = _target(form)
    if form == "free":
        prelude = prelude.replace("__APPLY__", "(x %s %s)" % (op, right_src))
        body = "var r = wr(0, a);"
    else:
        body = "%s = a; var r = (%s %s %s);" % (lv, lv, op, right_src)
    s = "var a = %s; %s %s var v = %s; var out = [typeof r, r, typeof v, v];" % (left_src, prelude, body, rd)
    return _wrap(s + " ", wrap)


def eval_cmplit(tasks):
    m = engine.load()
    out = []
    for op, form, ls, rs in tasks:
        src = _script_cmplit(op, form, ls, rs)
        try:
            with pool.cpu_alarm(20):
                r = m.Context(time_limit=10).eval(src)
            out.append(("ok", _typed(r, 4)[0]) if isinstance(r, list) and len(r) == 4 else ("bad", repr(r)[:200]))
        except pool.HarnessTimeout:
            out.append(("err", {"cls": "HANG", "family": False}))
        except Exception as e:
            out.append(("err", engine.exc_info(e)))
    return out


def run_cmplit(chk):
    import random  # deterministic selection only (seeded), not inside a property

    rnd = random.Random(core.shard_seed(chk.seed, "C06", "cmplit"))
    srcs = [s for _, s, _ in GRID]
    lits = [s for s in SMALL_LITERALS if _lit_value(s) is not _MISSING]
    tasks = []
    # dense: every operator x target form x small literal, against a left operand of every type
    typed_lefts = ["'a'", "'5'", "''", "7", "0.5", "true", "null", "undefined", "NaN", "-0"]
    typed_lefts = [s for s in typed_lefts if _lit_value(s) is not _MISSING]
    forms = TARGET_FORMS if chk.tier == "thorough" else [TARGET_FORMS[(chk.seed + j) % len(TARGET_FORMS)] for j in (0, 2, 4)]
    for form in forms:
        for op in P.COMPOUND:
            for rs in lits:
                for ls in typed_lefts:
                    tasks.append((op, form, ls, rs))
    n = 4000 if chk.tier == "quick" else 60000
    for _ in range(n):
        tasks.append((rnd.choice(P.COMPOUND), rnd.choice(TARGET_FORMS), rnd.choice(srcs), rnd.choice(srcs if rnd.random() < 0.5 else lits)))
    batches = pool.chunks(tasks, 300)
    res = pool.run(eval_cmplit, batches, timeout=600)
    for batch, rb in zip(batches, res):
        if isinstance(rb, (pool.HANG, pool.CRASH)):
            raise engine.HarnessError("C06 cmplit batch %r" % rb)
        for (op, form, ls, rs), (st, row) in zip(batch, rb):
            a, b = _lit_value(ls), _lit_value(rs)
            r = P.binop(op[:-1], a, b)
            exp = [exp_pair(r), exp_pair(r)]
            key = "cmplit|%s|%s|%s|%s" % (form, op, ls, rs)
            chk.count()
            if nontrivial_cell(a, b):
                chk.nontrivial(key)
            chk.classify("cmplit %s" % op)
            case = {"kind": "cmplit", "op": op, "form": form, "left": ls, "right": rs}
            if st != "ok":
                actual = ["exception", row.get("cls"), row.get("name"), (row.get("message") or "")[:60]] if isinstance(row, dict) else ["bad", row]
                chk.cell(key, exp, actual, case, sub="cmplit", signature="cmplit|%s|%s|exc" % (op, form))
            else:
                chk.cell(key, exp, row, case, sub="cmplit", signature="cmplit|%s|%s|%s" % (op, form, _diffclass(exp, row)))


_EXTRA_LITS = {"1.0": 1.0, "1e0": 1.0, "0x1": 1.0, "10": 10.0, "2": 2.0, "0.5": 0.5, "'1'": "1", "'5'": "5", "'a'": "a", "''": "", "7": 7.0,
               "-1": -1.0, "-0": -0.0, "0": 0.0, "1": 1.0}
_MISSING = object()


def _lit_value(src):
    """The ES value of a literal's source text (grid values first); _MISSING if unknown."""
    if src in SRC2VAL:
        return SRC2VAL[src]
    return _EXTRA_LITS.get(src, _MISSING)


# ---- random expression trees (Hypothesis)
def tree_to_js(t):
    k = t[0]
    if k == "v":
        return t[1]
    if k == "un":
        sp = " " if t[1].isalpha() else ""
        return "(%s%s%s)" % (t[1], sp, tree_to_js(t[2]))
    if k == "bin":
        return "(%s %s %s)" % (tree_to_js(t[2]), t[1], tree_to_js(t[3]))
    if k == "tern":
        return "(%s ? %s : %s)" % (tree_to_js(t[1]), tree_to_js(t[2]), tree_to_js(t[3]))
    raise KeyError(k)


class _Excluded(Exception):
    pass


def tree_eval(t, bad_values):
    k = t[0]
    if k == "v":
        return SRC2VAL[t[1]]
    if k == "un":
        return P.unop(t[1], tree_eval(t[2], bad_values))
    if k == "bin":
        a = tree_eval(t[2], bad_values)
        op = t[1]
        if op == "&&":
            return tree_eval(t[3], bad_values) if P.to_boolean(a) else a
        if op == "||":
            return a if P.to_boolean(a) else tree_eval(t[3], bad_values)
        b = tree_eval(t[3], bad_values)
        if (op, P.js_literal(a), P.js_literal(b)) in bad_values:
            raise _Excluded()
        return P.binop(op, a, b)
    if k == "tern":
        c = tree_eval(t[1], bad_values)
        return tree_eval(t[2] if P.to_boolean(c) else t[3], bad_values)
    raise KeyError(k)


def tree_program(t, style):
    """Render with intermediate results bound to variables (style 1) so that
    the engine's int/float representations and constant pool get mixed."""
    if style == 0:
        return "var r = %s; [typeof r, r]" % tree_to_js(t)
    decls = []

    def walk(n):
        if n[0] == "v":
            return n[1]
        if n[0] == "un":
            sp = " " if n[1].isalpha() else ""
            e = "(%s%s%s)" % (n[1], sp, walk(n[2]))
        elif n[0] == "bin":
            if n[1] in ("&&", "||"):
                e = "(%s %s %s)" % (walk(n[2]), n[1], tree_to_js(n[3]))
            else:
                e = "(%s %s %s)" % (walk(n[2]), n[1], walk(n[3]))
        else:
            return "(%s ? %s : %s)" % (walk(n[1]), tree_to_js(n[2]), tree_to_js(n[3]))
        name = "t%d" % len(decls)
        decls.append("var %s = %s;" % (name, e))
        return name

    top = walk(t)
    return "%s var r = %s; [typeof r, r]" % (" ".join(decls), top)


def eval_trees(progs):
    m = engine.load()
    out = []
    for src in progs:
        try:
            with pool.cpu_alarm(20):
                r = m.Context(time_limit=10).eval(src)
            out.append(("ok", [r[0], engine.tv(r[1])]))
        except pool.HarnessTimeout:
            out.append(("err", {"cls": "HANG", "family": False}))
        except Exception as e:
            out.append(("err", engine.exc_info(e)))
    return out


def run_trees(chk):
    import hypothesis
    from hypothesis import strategies as st, settings, HealthCheck

    srcs = [s for _, s, _ in GRID]
    leaf = st.sampled_from(srcs).map(lambda s: ("v", s))
    binops = [o for o in P.BINOPS]

    def ext(children):
        return st.one_of(
            st.tuples(st.just("bin"), st.sampled_from(binops), children, children),
            st.tuples(st.just("un"), st.sampled_from(P.UNOPS), children),
            st.tuples(st.just("tern"), children, children, children),
        )

    trees = st.recursive(leaf, ext, max_leaves=10)
    n = 4000 if chk.tier == "quick" else 60000
    # known deviating cells, by value: trees that pass through one are excluded by construction
    bad_values = set()
    for key in chk.known_cells:
        parts = key.split("|")
        if parts[0] == "bin" and parts[3] in SRC2VAL and parts[4] in SRC2VAL:
            bad_values.add((parts[2], P.js_literal(SRC2VAL[parts[3]]), P.js_literal(SRC2VAL[parts[4]])))
    cases = []

    @hypothesis.seed(core.shard_seed(chk.seed, "C06", "trees"))
    @settings(max_examples=n, database=None, deadline=None, derandomize=False,
              suppress_health_check=[HealthCheck.too_slow, HealthCheck.data_too_large],
              phases=[hypothesis.Phase.generate])
    @hypothesis.given(trees, st.integers(0, 1))
    def collect(t, style):
        cases.append((t, style))

    collect()
    progs, exps, kept = [], [], []
    for t, style in cases:
        try:
            v = tree_eval(t, bad_values)
        except _Excluded:
            chk.excluded["tree passes through a known deviating cell"] += 1
            continue
        progs.append(tree_program(t, style))
        exps.append(exp_pair(v))
        kept.append(t)
    batches = pool.chunks(progs, 100)
    res = pool.run(eval_trees, batches, timeout=600)
    flat = []
    for rb in res:
        if isinstance(rb, (pool.HANG, pool.CRASH)):
            raise engine.HarnessError("C06 tree batch %r" % rb)
        flat.extend(rb)
    for src, exp, t, (stt, got) in zip(progs, exps, kept, flat):
        chk.count()
        depth = _depth(t)
        chk.classify("tree depth %d" % min(depth, 6))
        if depth >= 2:
            chk.nontrivial("tree|" + src)
        if stt != "ok":
            # shrink: report the smallest failing subtree
            sub = _shrink_tree(t, bad_values)
            chk.violation("tree|exc:%s|%s" % (got.get("cls"), got.get("frame")), {"src": tree_program(sub, 0)},
                          None, ["exception", got.get("cls"), (got.get("message") or "")[:80]], sub="tree")
        elif got != exp:
            sub = _shrink_tree(t, bad_values)
            chk.violation("tree|%s" % _root_ops(sub), {"src": tree_program(sub, 0), "from": src[:300]}, exp, got, sub="tree")
        elif len(chk.samples) < 16 and depth >= 3:
            chk.sample({"tree": src, "expected": exp, "actual": got})


def _depth(t):
    if t[0] == "v":
        return 0
    return 1 + max(_depth(c) for c in t[1:] if isinstance(c, tuple))


def _root_ops(t):
    return t[1] if t[0] in ("bin", "un") else t[0]


def _fails(t, bad_values):
    try:
        exp = exp_pair(tree_eval(t, bad_values))
    except _Excluded:
        return False
    st, got = eval_trees([tree_program(t, 0)])[0]
    return st != "ok" or got != exp


def _shrink_tree(t, bad_values):
    """Smallest failing subtree (greedy descent)."""
    cur = t
    changed = True
    while changed:
        changed = False
        for c in cur[1:]:
            if isinstance(c, tuple) and c[0] != "v" and _fails(c, bad_values):
                cur = c
                changed = True
                break
    return cur


def main(chk):
    chk.rule = (
        "exhaustive operator tables over a %d-rendering grid of boundary primitives (numbers in int and float host "
        "representation) x every operator / target form, plus seeded stand-alone literal expressions and Hypothesis "
        "expression trees; a cell is non-trivial when its operands have different ES types or one is a boundary "
        "number / non-canonical numeric string; distinct by (table, operator, target form, operand spellings)" % len(GRID)
    )
    chk.assumptions = [
        "oracles/prims.py transcribes the ECMAScript abstract operations for primitives (validated against node at development time)",
        "eval() returns script numbers/strings/booleans unchanged (C11 checks that separately)",
    ]
    for path, rec in core.saved_replays("C06"):
        r = replay(rec)
        chk.count()
        if r["fails"]:
            chk.violation("saved-replay|" + path, rec.get("case"), r["expected"], r["actual"], sub="replay")
    run_tables(chk)
    run_literals(chk)
    run_litcond(chk)
    run_cmplit(chk)
    run_trees(chk)
    chk.exhaustive = False


def replay(rec):
    case = rec["case"]
    if "src" in case:
        exp = rec.get("expected") or rec.get("expected_js")
        src = case["src"]
        if not src.startswith("var "):
            src = "var r = (%s); [typeof r, r]" % src
        st, got = eval_trees([src])[0]
        if st != "ok":
            return {"fails": True, "expected": exp, "actual": got}
        if isinstance(exp, list) and len(exp) == 1 and isinstance(exp[0], list) and len(exp[0]) == 2 and isinstance(exp[0][0], str):
            exp = exp[0]
        return {"fails": exp is not None and got != exp, "expected": exp, "actual": got}
    kind = case["kind"]
    if kind == "lit":
        return replay({"case": {"src": case["src"]}, "expected": rec.get("expected")})
    if kind == "litcond":
        st, row = eval_litcond([(case["place"], case["form"], case["src"])])[0]
        v = _lit_value(case["src"])
        exp = exp_pair(P.unop(case["form"], v) if case["place"] == "un" else _litcond_expected(case["form"], v))
        return {"fails": st != "ok" or row != exp, "expected": exp, "actual": row}
    if kind == "cmplit":
        st, row = eval_cmplit([(case["op"], case["form"], case["left"], case["right"])])[0]
        r = P.binop(case["op"][:-1], _lit_value(case["left"]), _lit_value(case["right"]))
        exp = [exp_pair(r), exp_pair(r)]
        return {"fails": st != "ok" or row != exp, "expected": exp, "actual": row}
    task = (kind, case["op"], case["left"], [case["right"]]) + ((case["form"],) if case.get("form") else ())
    st, rows = eval_task(task)
    exp = expected_rows(task)[0]
    got = rows[0] if st == "ok" else rows
    return {"fails": got != exp, "expected": exp, "actual": got}
