"""C07 - exceptions unwind to the right handler; finally runs exactly once.

Programs are built from recipes (gens/c07gen.py): throw site x handler placement x try shape and exits x
expression context with pending operands.  Oracle for everything a program *does* (ordered log: every
finally logs once per entry, every catch logs the value it received - primitives as themselves, objects by
registry index; completion value or uncaught throw; operands pending around the handler function): the
reference interpreter oracles/refjs.py (+ oracles/refjs_c07.py for sites outside its built-ins), validated
against node (oracle_validation/c07.json).  On top of that:

  boundary   an uncaught throw must surface as microjs.JSError whose name is the error object's name and
             whose message contains the error's message (String(v) for thrown primitives)
  errobj     a runtime error caught in script is instanceof its constructor and of Error, has the right
             name / constructor / prototype and a non-empty string message (also through refjs: the handler
             logs these facts)
  location   metamorphic, no model: lineNumber / columnNumber of a caught error equal the position of the
             `throw` statement (for runtime errors: a position inside the statement that failed); k blank
             lines in front of the program / k spaces in front of that line / a statement in front of the
             program shift them by exactly that much

Built-ins that raise and built-ins that run callbacks are discovered at run time: a text site of
gens/c07gen.py takes part only if the engine's built-in raises at all (or calls its callback at all).
"""
import collections
import random

from checks import proglib
from gens import c07gen, progs
from oracles import refjs_c07
from vf import core, engine, pool

ID = "C07"


# ------------------------------------------------------------------- known-finding guards
# guard name -> predicate over (recipe, tags).  Active only while a *known* finding names it and its
# repro still fails.
def _g_conv_builtin(d, tags):
    s = d.get("site", "")
    return s.startswith("conv:") and s.split(":")[1] in BUILTIN_CONVERSIONS


BUILTIN_CONVERSIONS = {"Number", "isNaN", "Math.max", "Math.abs", "Math.floor", "Error-message"}

def _g_loc_runtime(d, tags):
    return d.get("c") == "location" and d.get("kind") == "runtime"


def _g_eval(d, tags):
    return d.get("site", "").startswith(("x:eval_", "x:function_"))


GUARDS = {
    "c07.conversion-in-builtin-arguments": _g_conv_builtin,  # if C07-10 is not merged
    "c07.runtime-error-location": _g_loc_runtime,  # if C07-09 is not merged
    "c07.nested-eval": _g_eval,  # if C07-03 / C07-11 are not merged
}


ENGINE_TIME_LIMIT = 0.6  # seconds; the programs finish in milliseconds, a hang is a finding
RETRY_TIME_LIMIT = 6.0  # second attempt after a TimeLimitError (wall-clock limit, loaded machine)
EARLY_STOP_FAILURES = 400  # a tree this broken is not explored further (evidence says "truncated")


def _layout(i):
    return progs.Layout(compact=(i % 3 == 1), parens=(i % 7 == 3))


# --------------------------------------------------------------------------- comparison
def boundary_diff(exp_result, got_result):
    """JSError at the Python boundary describes the thrown value (only called when both sides threw)."""
    desc = exp_result[1]
    got = got_result[1]
    gname, gmsg = got.get("name"), got.get("message")
    if not isinstance(gmsg, str) or not isinstance(gname, str):
        return "uncaught-shape", {"expected": desc, "actual": got}
    k = desc.get("kind")
    if k == "error":
        n = desc.get("name")
        if n and n[0] == "s" and gname != n[1]:
            return "uncaught-name", {"expected": n[1], "actual": got}
        if not desc.get("internal"):
            m = desc.get("message")
            if m and m[0] == "s" and m[1] not in gmsg:
                return "uncaught-message", {"expected": m[1], "actual": got}
        elif gmsg == "":
            return "uncaught-message", {"expected": "non-empty message", "actual": got}
    elif k == "prim":
        want = proglib.expected_message(desc)
        if want is not None and want not in gmsg:
            return "uncaught-message", {"expected": want, "actual": got}
    return None


def compare7(exp, got):
    diff = proglib.compare(exp, got, check_message=False)
    if diff is None and exp["result"][0] == "throw":
        diff = boundary_diff(exp["result"], got["result"])
    return diff


_RETRIES = [2]


def run_case(prog, layout=None, step_limit=200000):
    src = c07gen.to_source(prog, layout)
    exp = refjs_c07.run(prog, step_limit=step_limit)
    if "unmodelled" in exp:
        return ("unmodelled", exp["unmodelled"]), exp, None, src
    got = proglib.run_engine(src, time_limit=ENGINE_TIME_LIMIT, cpu_seconds=6)
    if got["result"][:2] == ["exception", "TimeLimitError"] and _RETRIES[0] > 0:
        # the engine's limit is wall-clock: on a loaded machine a long program may run into the short
        # limit.  Only a program that still does not finish with a generous limit counts as hanging
        # (at most two second attempts per batch: a tree where everything hangs stays affordable).
        _RETRIES[0] -= 1
        got = proglib.run_engine(src, time_limit=RETRY_TIME_LIMIT, cpu_seconds=15)
    return compare7(exp, got), exp, got, src


def _caught_message(sname):
    """e.message of the site's error as script code sees it in this engine (None when not a string)."""
    site = c07gen.SITES[sname]
    if site["e"] is None:
        return None
    P = progs
    body = c07gen.prelude() + site["setup"] + [
        P.var("q", "qo2", ("qo", P.obj())),
        P.try_([P.expr(site["e"])], ("e", [P.log("msg", P.dot(P.id_("e"), "message"))]), None),
        P.expr(P.num(0)),
    ]
    got = proglib.run_engine(c07gen.to_source({"body": body}), time_limit=RETRY_TIME_LIMIT, cpu_seconds=15)
    for t, v in got["log"]:
        if t == "msg":
            return v[1] if v[0] == "s" else None
    return None


def _diff_focus(diff, exp):
    """Short, stable description of where the outcomes part (for bucketing)."""
    kind, detail = diff
    if kind.startswith("log-"):
        e, a = detail.get("expected"), detail.get("actual")
        et = e[0] if e else "<end>"
        at = a[0] if a else "<end>"
        if kind == "log-value" and e and a and e[1][0] == "a" and a[1][0] == "a" and e[1][1][:1] == a[1][1][:1]:
            return "%s@%s:%s" % (kind, et, e[1][1][0][1] if e[1][1] else "")
        return "%s@%s/%s" % (kind, _tagclass(et), _tagclass(at))
    return kind


def _tagclass(t):
    return "".join(ch for ch in str(t) if not ch.isdigit())


def eval_batch(task):
    out = []
    _RETRIES[0] = 2
    for i, desc in task:
        p = c07gen.from_desc(desc)
        diff, exp, got, src = run_case(p, _layout(i))
        if diff is None and p["sub"] == "uncaught" and desc["site"] != "dyn" and exp["result"][0] == "throw" and exp["result"][1].get("internal"):
            # no model of the wording: the JSError must carry the message script code would have seen
            m = _caught_message(desc["site"])
            if m is not None and m not in got["result"][1]["message"]:
                diff = ("uncaught-message", {"expected": m, "actual": got["result"][1]})
        rec = {"i": i, "desc": desc, "sub": p["sub"], "tags": p["tags"], "id": p["id"]}
        if diff is not None and diff[0] == "unmodelled":
            rec["unmodelled"] = diff[1]
        else:
            rec["loglen"] = len(exp["log"])
            rec["uncaught"] = exp["result"][0] == "throw"
            if diff is not None:
                rec["diff"] = [diff[0], diff[1]]
                rec["focus"] = _diff_focus(diff, exp)
                rec["exp_result"] = exp["result"]
                rec["got_result"] = got["result"]
            elif i % 499 == 0:
                rec["sample"] = {"src": src[:900], "expected_log_tail": exp["log"][-6:], "result": exp["result"]}
        out.append(rec)
    return out


# ---------------------------------------------------------------------------- discovery
def _discovery_program(sname):
    site = c07gen.SITES[sname]
    body = c07gen.prelude() + site["setup"] + [
        progs.var("q", ("qo", progs.obj()), ("out", progs.s_("none"))),
        progs.try_([progs.expr(site["e"]), progs.expr(progs.assign(progs.id_("out"), progs.s_("no-throw")))],
                   ("e", [progs.expr(progs.assign(progs.id_("out"), progs.s_("caught")))]), None),
        progs.expr(progs.id_("out")),
    ]
    return {"body": body}


def discoverable(sname):
    """Sites that only take part when the engine's built-in raises / calls back at all."""
    site = c07gen.SITES[sname]
    if sname.startswith(("x:", "tcb:")):
        return True
    if site["kind"] == "builtin":
        return True
    return sname in ("acc:getter-Object.values", "acc:getter-Object.assign", "acc:getter-JSON.stringify", "cf:apply-arraylike-getter")


def discover_task(names):
    """-> {site: "raises" | "escapes" | "no-raise"} by running the site once in the engine."""
    out = {}
    for sname in names:
        probe = c07gen.TEXT_SITE_EXISTS.get(sname[2:]) if sname.startswith("x:") else None
        if probe is not None:
            r = proglib.run_engine("var out = 'absent'; try { out = " + probe + "; } catch (e) { } out")["result"]
            if r != ["value", ["s", "function"]]:
                out[sname] = "no-raise"
                continue
        got = proglib.run_engine(c07gen.to_source(_discovery_program(sname)), time_limit=RETRY_TIME_LIMIT, cpu_seconds=15)
        r = got["result"]
        tags = [t for t, _ in got["log"]]
        if sname.startswith("tcb:"):
            out[sname] = "raises" if "tcb" in tags else "no-raise"
        elif sname.startswith("acc:"):
            out[sname] = "raises" if "get" in tags else "no-raise"
        elif sname == "cf:apply-arraylike-getter":
            out[sname] = "raises" if "al" in tags else "no-raise"
        elif r[0] == "value":
            out[sname] = "raises" if r[1] == ["s", "caught"] else "no-raise"
        elif r[0] == "throw":
            out[sname] = "escapes"
        else:
            out[sname] = "raises"  # host exception / hang: a finding of the campaigns, not an exclusion
    return out


# ------------------------------------------------------------ raising built-ins (surface)
def surface_exprs(chk):
    """Method calls of every built-in function the engine has (checks/c04.py's discovery) on no argument
    and on each adversarial argument; thorough adds seeded pairs."""
    from checks import c04

    found, gl = c04.discover_surface()
    rnd = random.Random(core.shard_seed(chk.seed, ID, "surface"))
    out = []
    for rname, rexpr, member in found:
        if rname == "console" or (member in ("call", "apply", "bind") and rname not in ("function",)):
            continue  # console.log writes to the terminal
        vecs = [()] + [(a,) for a in c04.ADV]
        vecs += [tuple(rnd.choice(c04.ADV) for _ in range(2)) for _ in range(4 if chk.tier == "quick" else 40)]
        for v in vecs:
            out.append(("%s.%s" % (rname, member), c04.call_exprs(rexpr, member, v, "method")))
    for g in gl:
        for v in [()] + [(a,) for a in c04.ADV]:
            out.append(("global." + g, "%s(%s)" % (g, ", ".join(v))))
            out.append(("global.new " + g, "new %s(%s)" % (g, ", ".join(v))))
    return out


def surface_task(items):
    """-> [(key, expr, outcome)]; outcome: value | caught:<name> | escapes:<class>:<name>:<message> | foreign | hang."""
    m = engine.load()
    out = []
    for key, e in items:
        ctx = m.Context(time_limit=2.0)
        src = ("var out; try { %s; out = 'value'; } catch (e) { out = 'caught:' + (e !== null && typeof e === 'object' && typeof e.name === 'string' ? e.name : '?'); } out" % e)
        try:
            with pool.cpu_alarm(6):
                r = ctx.eval(src)
            r = r if isinstance(r, str) else "value"
        except pool.HarnessTimeout:
            r = "hang"
        except m.JSError as ex:
            cls = type(ex).__name__
            r = "limit" if cls in ("TimeLimitError", "MemoryLimitError") else "escapes:%s:%s:%s" % (cls, getattr(ex, "name", ""), str(getattr(ex, "message", ""))[:80])
        except RecursionError:
            r = "foreign"
        except Exception:
            r = "foreign"  # a host exception: C04's finding
        out.append((key, e, r))
    return out


# ----------------------------------------------------------------------------- location
def _scan_statement_end(src, i):
    """Index of the ';' that ends the statement starting at i (brackets and strings skipped)."""
    depth = 0
    n = len(src)
    while i < n:
        ch = src[i]
        if ch in "\"'":
            i = c07gen._skip_string(src, i)
            continue
        if ch in "([{":
            depth += 1
        elif ch in ")]}":
            depth -= 1
        elif ch == ";" and depth == 0:
            return i
        i += 1
    return n - 1


def _scan_brace(src, i):
    """Index of the first '{' after i outside string literals."""
    n = len(src)
    while i < n:
        ch = src[i]
        if ch in "\"'":
            i = c07gen._skip_string(src, i)
            continue
        if ch == "{":
            return i
        i += 1
    return n - 1


def _linecol(src, off):
    line = src.count("\n", 0, off) + 1
    col = off - (src.rfind("\n", 0, off) + 1) + 1
    return [line, col]


def loc_sources(desc):
    """[(variant, source, (dl, dc))], marker offsets -> positions are computed per source."""
    p = c07gen.location_program(desc)
    lay = desc.get("lay", 0)
    layout = progs.Layout(compact=(lay == 1), indent="    " if lay == 2 else "  ")
    base = c07gen.to_source(p, layout)
    if desc["kind"] == "throw":
        anchor = "throw ev;" if desc["v"] == "var" else None
        at = base.index(anchor) if anchor else base.rindex("throw", 0, base.index('"' + c07gen.LOC_MARK + '"'))
    elif desc.get("form") == "for-update":
        at = base.index("for (" + c07gen.LOC_MARK + " = 0")
    else:
        at = base.index(c07gen.LOC_MARK + " = ")
    ls = base.rfind("\n", 0, at) + 1
    variants = [("base", base, at), ("lines+2", "\n\n" + base, at + 2), ("cols+3", base[:ls] + "   " + base[ls:], at + 3),
                ("stmt+1", "var pad0 = [1, 2, 3];\n" + base, at + len("var pad0 = [1, 2, 3];\n"))]
    out = []
    for name, src, off in variants:
        if desc.get("form") == "for-update":
            end = _scan_brace(src, off)  # the position must lie in the loop head, before the body
        else:
            end = _scan_statement_end(src, off)
        out.append((name, src, _linecol(src, off), _linecol(src, end)))
    return out


def _loc_of(got):
    for t, v in got["log"]:
        if t == "loc":
            return v
    return None


def loc_case(desc):
    """-> list of (kind-of-failure, expected, actual, source) for one location recipe."""
    fails = []
    seen = {}
    for name, src, start, end in loc_sources(desc):
        got = proglib.run_engine(src, time_limit=RETRY_TIME_LIMIT, cpu_seconds=15)
        loc = _loc_of(got)
        pos = None
        if loc is not None and loc[0] == "a" and len(loc[1]) == 2 and all(x[0] == "n" for x in loc[1]):
            pos = [int(float(x[1])) for x in loc[1]]
        seen[name] = (pos, start, end, loc if loc is not None else {"no-loc-logged": got["result"], "log": got["log"][-3:]})
        if name == "base":
            if desc["kind"] == "throw":
                ok = pos == start
                want = start
            else:
                ok = pos is not None and start <= pos <= end
                want = {"from": start, "to": end}
            if not ok:
                fails.append(("absolute", want, seen[name][3], src))
    bpos, bstart = seen["base"][0], seen["base"][1]
    if bpos is not None:
        for name in ("lines+2", "cols+3", "stmt+1"):
            pos, start, _end, raw = seen[name]
            want = [bpos[0] + start[0] - bstart[0], bpos[1] + start[1] - bstart[1]]
            if pos != want:
                fails.append(("shift:" + name, want, raw, loc_sources(desc)[["base", "lines+2", "cols+3", "stmt+1"].index(name)][1]))
    return fails


def loc_batch(task):
    out = []
    for desc in task:
        fails = loc_case(desc)
        out.append({"desc": desc, "fails": [[k, w, a, s[:1500]] for k, w, a, s in fails]})
    return out


# ---------------------------------------------------------------------------- shrinking
def _simpler(d):
    """Recipes simpler than d (one step), most drastic first."""
    def w(**kw):
        n = dict(d)
        n.update(kw)
        return n

    if d.get("hn"):
        yield w(hn=None)
    if d.get("top"):
        yield w(top=0)
    if d.get("pl", "same") != "same":
        yield w(pl="same")
        if d["pl"] in ("native2", "nativecaller"):
            yield w(pl="native1")
        if d["pl"] == "caller2":
            yield w(pl="caller")
    sh = d.get("sh")
    if sh:
        if sh.get("in"):
            yield w(sh=sh["in"])
            outer = dict(sh)
            outer["in"] = None
            outer["spos"] = "try" if sh["ipos"] != "try" and False else sh["ipos"]
            if c07gen.shape_valid(outer):
                yield w(sh=outer)
            if sh["in"].get("in"):
                mid = dict(sh)
                mid["in"] = sh["in"]["in"]
                mid["ipos"] = sh["in"]["ipos"]
                if c07gen.shape_valid(mid):
                    yield w(sh=mid)
        chain = []
        cur = sh
        while cur:
            chain.append(cur)
            cur = cur.get("in")
        for depth, node in enumerate(chain):
            for key, val in (("cx", "n"), ("fx", "n"), ("tx", "n")):
                if node.get(key, val) != val:
                    yield w(sh=_replace_level(sh, depth, {key: val}))
            if node["k"] == "CF":
                for k2 in ("C", "F"):
                    cand = _replace_level(sh, depth, {"k": k2})
                    if c07gen.shape_valid(cand):
                        yield w(sh=cand)
    if d.get("p", 0):
        yield w(p=0)
    if d.get("x", "stmt") != "stmt":
        yield w(x="stmt", p=0)
    if d.get("twice", 1):
        yield w(twice=0)
    if d.get("oc", 0):
        yield w(oc=0)
    if d.get("lk", "for") != "for":
        yield w(lk="for")
    if d.get("nk", "forEach") != "forEach":
        yield w(nk="forEach")
    if d.get("nk2", "map") != "map":
        yield w(nk2="map")


def _replace_level(sh, depth, upd):
    n = dict(sh)
    if depth == 0:
        n.update(upd)
    else:
        n["in"] = _replace_level(sh["in"], depth - 1, upd)
    return n


def shrink_desc(desc, kind, li, max_evals=60):
    evals = 0
    cur = desc
    progress = True
    while progress and evals < max_evals:
        progress = False
        for cand in _simpler(cur):
            if evals >= max_evals:
                break
            evals += 1
            try:
                p = c07gen.from_desc(cand)
                progs.validate(p["body"])
                diff, _, _, _ = run_case(p, _layout(li), step_limit=60000)
            except Exception:
                continue
            if diff is not None and diff[0] != "unmodelled" and diff[0].split(":")[0] == kind.split(":")[0]:
                cur = cand
                progress = True
                break
    return cur, evals


def shrink_task(task):
    desc, kind, li = task
    small, evals = shrink_desc(desc, kind, li)
    p = c07gen.from_desc(small)
    diff, exp, got, src = run_case(p, _layout(li))
    return {"from": desc, "desc": small, "evals": evals, "src": src, "diff": diff, "exp": exp, "got": got, "tags": p["tags"], "id": p["id"]}


# -------------------------------------------------------------------------- parent side
def _select(chk, disc):
    """[(index, recipe)] of the model campaigns for this tier and seed; recipes whose site the
    discovery excluded are counted in chk.excluded."""
    quick = chk.tier == "quick"
    cases = []

    def keep(d):
        if d["site"] == "dyn":
            return True
        st = disc.get(d["site"])
        if st == "no-raise":
            chk.excluded["built-in does not raise / call back in this engine: " + d["site"]] += 1
            return False
        return True

    sites = [d for d in c07gen.sites_product() if keep(d)]
    if quick:
        rnd = random.Random(core.shard_seed(chk.seed, ID, "sites-select"))
        groups = collections.OrderedDict()
        for d in sites:
            groups.setdefault((d["site"], d["pl"], d.get("top", 0)), []).append(d)
        sites = [rnd.choice(ds) for ds in groups.values()]
    cases.extend(sites)
    chk.extra["sites_product"] = len(sites)
    for name, gen, nquick in (("shapes", c07gen.shapes_product(), 1500), ("shapes2", c07gen.shapes2_product(), 800), ("shapes3", c07gen.shapes3_product(), 400)):
        ds = [d for d in gen if keep(d)]
        if quick:
            rnd = random.Random(core.shard_seed(chk.seed, ID, name + "-select"))
            ds = rnd.sample(ds, min(len(ds), nquick))
        cases.extend(ds)
        chk.extra[name + "_product"] = len(ds)
    for name, gen in (("repeat", c07gen.repeat_product()), ("uncaught", c07gen.uncaught_cases()), ("errobj", c07gen.errobj_cases())):
        ds = [d for d in gen if keep(d)]
        cases.extend(ds)
        chk.extra[name + "_cases"] = len(ds)
    # raising built-ins found in this engine: each becomes the throw site of one unwinding recipe and
    # one error-object recipe (the reference raises an error of the constructor the engine showed)
    raisers = chk.extra.pop("_raisers", [])
    rnd = random.Random(core.shard_seed(chk.seed, ID, "raisers-select"))
    if quick:
        raisers = rnd.sample(raisers, min(len(raisers), 250))
    for k, (key, text, ctor) in enumerate(raisers):
        d = c07gen.random_desc(core.shard_seed(chk.seed, ID, "raiser", k) & 0xFFFFFFFFFFFF, site="dyn")
        d.update(c="raisers", text=text, ctor=ctor)
        cases.append(d)
        cases.append({"c": "errobj", "site": "dyn", "text": text, "ctor": ctor, "pl": ("same", "caller", "native1")[k % 3], "x": c07gen.XCTX[k % 13], "p": k % 3, "nk": c07gen.NATIVE_KINDS[k % 10]})
    chk.extra["raising_builtins_used"] = len(raisers)
    n_random = 2000 if quick else 100000
    nr = 0
    k = 0
    while nr < n_random:
        d = c07gen.random_desc(core.shard_seed(chk.seed, ID, "random", k) & 0xFFFFFFFFFFFF)
        k += 1
        if keep(d):
            cases.append(d)
            nr += 1
    chk.extra["random_programs"] = n_random
    return list(enumerate(cases))


def _active_guards(chk):
    active = {}
    for name, entry in chk.guards.items():
        if name not in GUARDS:
            continue
        repro = entry.get("repro")
        still = True
        if repro:
            try:
                rec = core.load_json(repro if repro.startswith("/") else core.ROOT + "/" + repro)
                still = bool(replay(rec)["fails"])
            except Exception:
                still = True
        if still:
            active[name] = entry
            chk.known_hit(entry["id"], 0)
    return active


def _site_kind(desc):
    if desc.get("site") == "dyn":
        return "dyn"
    s = desc.get("site") or ("throw" if desc.get("kind") == "throw" else "?")
    return s.split(":")[0]


def main(chk):
    chk.rule = (
        "program whose log has >= 3 entries and whose throw crosses at least one function or native frame, or at least one "
        "finally block, or happens with pending operands (location: every case); distinct by recipe id"
    )
    chk.assumptions = [
        "oracles/refjs.py (+ refjs_c07.py for text sites) implements ECMAScript strict-mode semantics for the IR (agreement with node: oracle_validation/c07.json)",
        "documented restriction built into the reference: an array write past the end is a TypeError",
        "the message text of runtime errors is implementation-defined (only its type / non-emptiness is compared)",
        "location of a runtime error: any position from the start to the end of the statement that failed is accepted; shifts must be exact",
        "a built-in that does not raise (or never calls its callback) in this engine is left out, counted in excluded_by_finding",
    ]
    for path, rec in core.saved_replays(ID):
        r = replay(rec)
        chk.count()
        if r["fails"]:
            chk.violation("saved-replay|" + path, rec.get("case"), r["expected"], r["actual"], sub="replay")
    guards = _active_guards(chk)
    # ---- discovery
    names = [s for s in c07gen.SITES if discoverable(s)]
    disc = {}
    for r in pool.run(discover_task, pool.chunks(names, 12), timeout=120):
        if isinstance(r, (pool.HANG, pool.CRASH)):
            continue
        disc.update(r)
    chk.extra["discovery"] = {"candidates": len(names), "raising": sorted(k for k, v in disc.items() if v != "no-raise"),
                              "not_raising": sorted(k for k, v in disc.items() if v == "no-raise")}
    # ---- built-ins that raise: every call must be catchable; the raising ones become throw sites
    try:
        items = surface_exprs(chk)
    except Exception as e:  # checks/c04.py changed its interface: the campaign is left out, loudly
        items = []
        chk.extra["surface"] = "skipped: %r" % (e,)
    outcomes = collections.Counter()
    raisers = collections.OrderedDict()
    for batch, rb in zip(pool.chunks(items, 150), pool.run(surface_task, pool.chunks(items, 150), timeout=300)):
        if isinstance(rb, (pool.HANG, pool.CRASH)):
            outcomes["worker " + repr(rb)] += len(batch)
            continue
        for key, e, r in rb:
            chk.count()
            kind = r.split(":")[0]
            outcomes[kind] += 1
            if kind == "escapes":
                chk.violation("raisers|uncatchable error|%s" % key, {"expr": e}, "value or an exception the script can catch", r, sub="raisers")
            elif kind == "caught" and r[7:] in c07gen.ERROR_CTORS:
                raisers.setdefault((key, r[7:]), (key, e, r[7:]))
    if items:
        chk.extra["surface"] = {"calls": len(items), "outcomes": dict(outcomes), "raising (function, constructor) pairs": len(raisers)}
    chk.classify("sub:raisers-surface", len(items))
    chk.extra["_raisers"] = list(raisers.values())
    # ---- model campaigns
    todo = []
    for i, desc in _select(chk, disc):
        p_tags = None
        gname = None
        for g in guards:
            if GUARDS[g](desc, p_tags):
                gname = g
                break
        if gname is not None:
            chk.excluded[guards[gname]["id"]] += 1
            continue
        todo.append((i, desc))
    # a seeded tenth first: when that alone fails massively the tree is broken beyond exploring
    rnd = random.Random(core.shard_seed(chk.seed, ID, "phase"))
    first = set(rnd.sample(range(len(todo)), max(1, len(todo) // 10)))
    phase1 = pool.chunks([t for k, t in enumerate(todo) if k in first], 40)
    phase2 = pool.chunks([t for k, t in enumerate(todo) if k not in first], 40)
    res1 = pool.run(eval_batch, phase1, timeout=300)
    bad = sum(1 for rb in res1 if isinstance(rb, (pool.HANG, pool.CRASH)) for _ in range(40)) + sum(
        1 for rb in res1 if not isinstance(rb, (pool.HANG, pool.CRASH)) for rec in rb if "diff" in rec)
    if bad >= EARLY_STOP_FAILURES:
        chk.truncated = True
        chk.extra["early_stop"] = "%d of the first %d programs failed: the remaining %d were not run" % (bad, sum(map(len, phase1)), sum(map(len, phase2)))
        phase2 = []
    batches = phase1 + phase2
    res = res1 + (pool.run(eval_batch, phase2, timeout=300) if phase2 else [])
    failures = collections.OrderedDict()
    for batch, rb in zip(batches, res):
        if isinstance(rb, (pool.HANG, pool.CRASH)):
            single = pool.run(eval_batch, [[c] for c in batch], timeout=60)
            rb = []
            for c, r1 in zip(batch, single):
                if isinstance(r1, (pool.HANG, pool.CRASH)):
                    chk.count()
                    chk.violation("%s|worker %r|site=%s" % (c[1].get("c"), r1, _site_kind(c[1])), {"desc": c[1], "layout_index": c[0]}, None, repr(r1), sub=c[1].get("c", ""))
                else:
                    rb.extend(r1)
        for rec in rb:
            if "unmodelled" in rec:
                chk.excluded["reference budget/unmodelled: " + rec["unmodelled"][:40]] += 1
                continue
            chk.count()
            chk.classify("sub:" + rec["sub"])
            for t in rec["tags"]:
                if t.split(":")[0] in ("site", "pl", "depth", "outer", "x", "p"):
                    chk.classify(t)
            if rec["uncaught"]:
                chk.classify("uncaught-at-boundary")
            if "nontrivial" in rec["tags"] and rec["loglen"] >= 3:
                chk.nontrivial(rec["id"])
            if "sample" in rec:
                chk.sample({"id": rec["id"], **rec["sample"]}, cls=rec["sub"], per_class=3)
            if "diff" in rec:
                d = rec["desc"]
                bucket = "%s|%s|site=%s|pl=%s" % (rec["sub"], rec["focus"], _site_kind(d), d.get("pl", "same"))
                failures.setdefault(bucket, []).append(rec)
    # ---- shrink one representative per bucket, report
    shrink_tasks = []
    for bucket, recs in failures.items():
        if recs[0]["sub"] != "errobj":
            shrink_tasks.append((recs[0]["desc"], recs[0]["diff"][0], recs[0]["i"]))
    if chk.truncated:
        shrink_tasks = shrink_tasks[:10]
    shrink_tasks = shrink_tasks[:40]
    shrunk = pool.run(shrink_task, shrink_tasks, timeout=600) if shrink_tasks else []
    small = {}
    for t, r in zip(shrink_tasks, shrunk):
        if isinstance(r, (pool.HANG, pool.CRASH)) or r["diff"] is None or r["diff"][0] == "unmodelled":
            continue
        small[core.jdump(t[0])] = r
    for bucket, recs in failures.items():
        for n, rec in enumerate(recs):
            case = {"desc": rec["desc"], "layout_index": rec["i"], "id": rec["id"]}
            expected = rec["exp_result"]
            actual = {"result": rec["got_result"], "diff": rec["diff"]}
            r = small.get(core.jdump(rec["desc"])) if n == 0 else None
            if r is not None:
                case = {"desc": r["desc"], "layout_index": rec["i"], "id": r["id"], "from": rec["desc"], "src": r["src"]}
                expected = {"log": r["exp"]["log"][-10:], "result": r["exp"]["result"]}
                actual = {"log": r["got"]["log"][-10:], "result": r["got"]["result"], "diff": r["diff"]}
            chk.violation(bucket, case, expected, actual, sub=rec["sub"])
    # ---- location (engine only)
    locs = list(c07gen.location_cases())
    if chk.tier == "quick":
        rnd = random.Random(core.shard_seed(chk.seed, ID, "loc-select"))
        throws = [d for d in locs if d["kind"] == "throw"]
        runt = [d for d in locs if d["kind"] == "runtime" and disc.get(d["site"]) != "no-raise"]
        locs = throws + rnd.sample(runt, min(len(runt), 160))
    else:
        locs = [d for d in locs if d["kind"] == "throw" or disc.get(d["site"]) != "no-raise"]
    kept = []
    for d in locs:
        gname = next((g for g in guards if GUARDS[g](d, None)), None)
        if gname is not None:
            chk.excluded[guards[gname]["id"]] += 1
        else:
            kept.append(d)
    locs = kept
    chk.extra["location_cases"] = len(locs)
    lres = pool.run(loc_batch, pool.chunks(locs, 12), timeout=300)
    for batch, rb in zip(pool.chunks(locs, 12), lres):
        if isinstance(rb, (pool.HANG, pool.CRASH)):
            chk.violation("location|worker %r" % rb, {"descs": batch}, None, repr(rb), sub="location")
            continue
        for rec in rb:
            d = rec["desc"]
            chk.count(4)
            chk.classify("sub:location-" + d["kind"])
            chk.nontrivial("loc|" + core.jdump(d))
            for kind, want, actual, src in rec["fails"]:
                chk.violation("location-%s|%s|pl=%s" % (d["kind"], kind, d["pl"]), {"desc": d, "src": src}, want, actual, sub="location-" + d["kind"])
    chk.exhaustive = chk.tier != "quick"
    chk.extra["guards_active"] = sorted(guards)


# ------------------------------------------------------------------------------- replay
def replay(rec):
    case = rec["case"]
    if "expr" in case:  # a built-in call that raised something the script could not catch
        r = surface_task([("replay", case["expr"])])[0][2]
        return {"fails": r.startswith("escapes") or r in ("foreign", "hang"), "expected": "value or an exception the script can catch", "actual": r}
    d = case["desc"]
    if d.get("c") == "location":
        fails = loc_case(d)
        if not fails:
            return {"fails": False, "expected": None, "actual": None}
        k, want, actual, _src = fails[0]
        return {"fails": True, "expected": {"kind": k, "location": want}, "actual": actual}
    p = c07gen.from_desc(d)
    diff, exp, got, src = run_case(p, _layout(case.get("layout_index", 0)))
    if diff is not None and diff[0] == "unmodelled":
        return {"fails": False, "expected": None, "actual": None, "note": "reference: " + diff[1]}
    return {
        "fails": diff is not None,
        "expected": {"log": exp["log"][-10:], "result": exp["result"]},
        "actual": {"log": got["log"][-10:], "result": got["result"], "diff": diff},
    }
