"""C14 - program size never changes meaning: big programs run right or are refused.

Shape templates with a scale parameter n and a closed-form result, swept across
the encoding boundaries of the instruction format (8-bit operands: 255/256;
16-bit absolute jump targets: 65535/65536 and beyond).  Each shape runs at top
level, inside a function and inside a callback (second decoder).

Oracle: eval returns exactly the closed form, OR raises a JSError whose
message says the program is too large - and then nothing may have executed
(`started()` host flag unset).  Wrong value, host exception, hang: violation.
"""
import re

from vf import core, engine, pool

SIZE_WORDS = re.compile(r"too (large|many|long|big)|limit|exceed", re.I)

def _dense():
    ns = set([1, 2, 3, 64, 100, 200, 300, 400, 1000, 1500, 2000])
    for centre in (128, 255, 256, 510, 512, 765, 768, 1020, 1024, 1275, 1280, 2040, 2048):
        ns.update(range(centre - 3, centre + 4))
    return sorted(n for n in ns if n > 0)


OPERAND_NS = _dense()
OPERAND_NS_QUICK = [n for n in OPERAND_NS if n <= 3 or 125 <= n <= 131 or 252 <= n <= 259 or 507 <= n <= 515 or 762 <= n <= 771 or 1017 <= n <= 1027 or n in (300, 1000)]
BYTE_BOUNDS_QUICK = [256, 65536]
BYTE_BOUNDS_THOROUGH = [256, 32768, 65536, 70000, 131072, 200000]


# ------------------------------------------------------------------ shapes
# operand-indexed shapes: (name) -> fn(n) -> (body_statements, result_expr, expected)
def sh_locals(n):
    decl = " ".join("var v%d = %d;" % (i, i) for i in range(n))
    return (decl + " var r = v0 + v%d + v%d;" % (n // 2, n - 1), "r", float(0 + n // 2 + n - 1), True)


def sh_params(n):
    ps = ", ".join("p%d" % i for i in range(n))
    args = ", ".join(str(i + 1) for i in range(n))
    return ("var fp = function(%s){ return arguments.length * 1000000 + p0 * 1000 + p%d; }; var r = fp(%s);" % (ps, n - 1, args),
            "r", float(n * 1000000 + 1000 + n), False)


def sh_args(n):
    args = ", ".join(str(i + 1) for i in range(n))
    return ("var fa = function(){ var s = 0; for (var i = 0; i < arguments.length; i++) s = s + arguments[i]; return s * 1000 + arguments.length; }; var r = fa(%s);" % args,
            "r", float(n * (n + 1) // 2 * 1000 + n), False)


def sh_array(n):
    els = ", ".join(str(i + 1) for i in range(n))
    return ("var a = [%s]; var s = 0; for (var i = 0; i < a.length; i++) s = s + a[i]; var r = a.length * 1000000 + s * 1 + a[%d] * 0;" % (els, n - 1),
            "r", float(n * 1000000 + n * (n + 1) // 2), False)


def sh_array_same(n):
    # few distinct constants: the element count is the only large dimension
    els = ", ".join(str(i % 5 + 1) for i in range(n))
    tot = sum(i % 5 + 1 for i in range(n))
    return ("var a = [%s]; var s = 0; for (var i = 0; i < a.length; i++) s = s + a[i]; var r = a.length * 1000000 + s + a[%d] * 0;" % (els, n - 1),
            "r", float(n * 1000000 + tot), False)


def sh_array_nested(n):
    els = ", ".join("[%d]" % (i % 3) for i in range(n))
    tot = sum(i % 3 for i in range(n))
    return ("var a = [%s]; var s = 0; for (var i = 0; i < a.length; i++) s = s + a[i][0] + a[i].length; var r = a.length * 1000000 + s;" % els,
            "r", float(n * 1000000 + tot + n), False)


def sh_args_same(n):
    args = ", ".join(str(i % 4 + 1) for i in range(n))
    tot = sum(i % 4 + 1 for i in range(n))
    return ("var fa = function(){ var s = 0; for (var i = 0; i < arguments.length; i++) s = s + arguments[i]; return s * 1000 + arguments.length; }; var r = fa(%s);" % args,
            "r", float(tot * 1000 + n), False)


def sh_new_args_same(n):
    args = ", ".join(str(i % 4 + 1) for i in range(n))
    return ("var C = function(){ this.n = arguments.length; this.last = arguments[arguments.length - 1]; }; var o = new C(%s); var r = o.n * 10 + o.last;" % args,
            "r", float(n * 10 + ((n - 1) % 4 + 1)), False)


def sh_method_args_same(n):
    args = ", ".join(str(i % 4 + 1) for i in range(n))
    return ("var o = { m: function(){ return arguments.length * 10 + arguments[0]; } }; var r = o.m(%s) + [].concat(%s).length * 100000;" % (args, args),
            "r", float(n * 10 + 1 + n * 100000), False)


def sh_object_same_values(n):
    props = ", ".join("k%d: %d" % (i, i % 3) for i in range(n))
    return ("var o = {%s}; var r = Object.keys(o).length * 1000 + o.k%d;" % (props, n - 1), "r", float(n * 1000 + (n - 1) % 3), False)


def sh_object(n):
    props = ", ".join("k%d: %d" % (i, i + 1) for i in range(n))
    return ("var o = {%s}; var ks = Object.keys(o); var r = ks.length * 1000000 + o.k0 * 1000 + o.k%d;" % (props, n - 1),
            "r", float(n * 1000000 + 1000 + n), False)


def sh_num_consts(n):
    body = " ".join("s = s + %d;" % (1000 + i) for i in range(n))
    return ("var s = 0; " + body, "s", float(sum(1000 + i for i in range(n))), False)


def sh_str_consts(n):
    body = " ".join("s = s + 'c%d'.length;" % i for i in range(n))
    return ("var s = 0; " + body + " var last = 'c%d';" % (n - 1), "s * 1 + (last === 'c%d' ? 0.5 : 0)" % (n - 1),
            float(sum(len("c%d" % i) for i in range(n))) + 0.5, False)


def sh_globals(n):
    decl = " ".join("g%d = %d;" % (i, i) for i in range(n))
    return ("var " + ", ".join("g%d" % i for i in range(n)) + "; " + decl + " var r = g0 + g%d + g%d;" % (n // 2, n - 1),
            "r", float(n // 2 + n - 1), "toponly")


def sh_functions(n):
    decl = " ".join("var fn%d = function(){ return %d; };" % (i, i + 1) for i in range(n))
    return (decl + " var r = fn0() * 1000000 + fn%d() * 1000 + fn%d();" % (n // 2, n - 1), "r",
            float(1000000 + (n // 2 + 1) * 1000 + n), False)


def sh_captured(n):
    decl = " ".join("var c%d = %d;" % (i, i + 1) for i in range(n))
    used = " + ".join("c%d" % i for i in range(n))
    return ("var mk = function(){ %s return function(){ return %s; }; }; var r = mk()();" % (decl, used), "r", float(n * (n + 1) // 2), False)


def sh_regexes(n):
    body = " ".join("s = s + (/a%d/.test('xa%dx') ? 1 : 0);" % (i, i) for i in range(n))
    return ("var s = 0; " + body, "s", float(n), False)


def sh_switch(n):
    cases = " ".join("case %d: r = %d; break;" % (i, i + 100) for i in range(n))
    return ("var r = -1; var pick = function(k){ switch (k) { %s default: r = -2; } return r; }; var r2 = pick(0) * 1 + pick(%d) * 1000 + pick(%d) * 1000000 + pick(-5);" % (cases, n // 2, n - 1),
            "r2", float(100 + (n // 2 + 100) * 1000 + (n - 1 + 100) * 1000000 - 2), False)


def sh_consts_then_inner(n):
    """n pooled constants in the enclosing code, then inner functions of every kind that use constants of the
    enclosing pool (first, middle, last) next to constants of their own: each function has its own pool, an index
    looked up in the wrong pool shows as a wrong operand."""
    body = " ".join("s = s + %d;" % (1000 + i) for i in range(n))
    a, b, c = 1000, 1000 + n // 2, 1000 + n - 1
    inner = (" var ar = () => %d + 7777 + 'qq'.length; var ar2 = (v) => { return v + %d + 6666; }; var fe = function(){ return %d + 8888 + 'w'.length; };"
             " var cb = [1, 2].map(x => x + %d + 9999)[1]; var nest = function(){ return (() => %d + 5555 + %d)(); };" % (a, b, c, b, c, a))
    exp = float(sum(1000 + i for i in range(n))) + (a + 7779.0) + (1 + b + 6666.0) + (c + 8889.0) + (2 + b + 9999.0) + (c + 5555.0 + a)
    return ("var s = 0; " + body + inner, "s + ar() + ar2(1) + fe() + cb + nest()", exp, False)


def sh_typeof_undeclared(n):
    """typeof of an identifier that is mentioned nowhere else, as the very last thing after n pooled constants: its
    name is the next pool entry and nothing after it can run into the pool limit first."""
    body = " ".join("s = s + %d;" % (1000 + i) for i in range(n))
    return ("var s = 0; " + body, "typeof zzNeverDeclared%d" % n, "undefined", False)


OPERAND_SHAPES = {
    "constants-then-inner-functions": sh_consts_then_inner, "typeof-undeclared-after-constants": sh_typeof_undeclared,
    "locals": sh_locals, "params": sh_params, "args": sh_args, "array-literal": sh_array, "object-literal": sh_object,
    "numeric-constants": sh_num_consts, "string-constants": sh_str_consts, "global-names": sh_globals,
    "functions": sh_functions, "captured-vars": sh_captured, "regex-literals": sh_regexes, "switch-cases": sh_switch,
    "array-literal-few-constants": sh_array_same, "array-literal-nested": sh_array_nested, "args-few-constants": sh_args_same,
    "new-args-few-constants": sh_new_args_same, "method-args-few-constants": sh_method_args_same, "object-literal-few-values": sh_object_same_values,
}


# byte-offset shapes: fn(k) with k filler statements
FILL = "x = x + 1;"


def by_straight(k):
    return ("var x = 0; " + FILL * k, "x", float(k))


def by_if_then(k):
    return ("var x = 0; if (x === 0) { " + FILL * k + " } else { x = -1; } x = x + 1000000;", "x", float(k + 1000000))


def by_if_else(k):
    return ("var x = 0; if (x !== 0) { x = -1; } else { " + FILL * k + " } x = x + 1000000;", "x", float(k + 1000000))


def by_while(k):
    return ("var x = 0; var i = 0; while (i < 2) { i = i + 1; " + FILL * k + " } x = x + 1000000;", "x", float(2 * k + 1000000))


def by_for_continue(k):
    return ("var x = 0; for (var i = 0; i < 3; i = i + 1) { if (i === 1) continue; " + FILL * k + " } x = x + 1000000;", "x", float(2 * k + 1000000))


def by_do_break(k):
    return ("var x = 0; var i = 0; do { i = i + 1; " + FILL * k + " if (i === 2) break; } while (true); x = x + 1000000;", "x", float(2 * k + 1000000))


def by_after_filler_loop(k):
    # the loop sits *after* the filler: its own (backward and forward) targets are large
    return ("var x = 0; " + FILL * k + " var i = 0; while (i < 3) { i = i + 1; x = x + 1000000; }", "x", float(k + 3000000))


def by_do_continue(k):
    return ("var x = 0; var i = 0; do { i = i + 1; if (i === 2) continue; " + FILL * k + " } while (i < 3); x = x + 1000000;", "x", float(2 * k + 1000000))


def by_while_continue(k):
    return ("var x = 0; var i = 0; while (i < 3) { i = i + 1; if (i === 2) continue; " + FILL * k + " } x = x + 1000000;", "x", float(2 * k + 1000000))


def by_for_notest_throw(k):
    # a for loop without test clause, left by an exception (no break)
    return ("var x = 0; try { for (var i = 0; ; i = i + 1) { if (i === 1) continue; if (i === 3) throw 5; " + FILL * k + " } } catch (e) { x = x + 1000000 * e; }", "x", float(2 * k + 5000000))


def by_labelled_continue(k):
    return ("var x = 0; L: for (var i = 0; i < 2; i = i + 1) { for (var j = 0; j < 2; j = j + 1) { if (j === 1) continue L; " + FILL * k + " } } x = x + 1000000;", "x", float(2 * k + 1000000))


def by_forin_body(k):
    return ("var x = 0; for (var key in {a: 1, b: 2, c: 3}) { if (key === 'b') continue; " + FILL * k + " if (key === 'c') break; } x = x + 1000000;", "x", float(2 * k + 1000000))


def by_forof_body(k):
    return ("var x = 0; for (var v of [1, 2, 3]) { if (v === 2) continue; " + FILL * k + " } x = x + 1000000;", "x", float(2 * k + 1000000))


def by_try_finally_loop(k):
    return ("var x = 0; for (var i = 0; i < 3; i = i + 1) { try { if (i === 1) continue; " + FILL * k + " if (i === 2) break; } finally { x = x + 0.25; } } x = x + 1000000;", "x", float(2 * k + 1000000) + 0.75)


def by_nested_ifs(k):
    half = k // 2
    return ("var x = 0; if (x === 0) { " + FILL * half + " if (x > 0 || " + str(half) + " === 0) { " + FILL * (k - half) + " } else { x = -1; } } x = x + 1000000;", "x", float(k + 1000000))


def by_ternary_big_arm(k):
    return ("var x = 0; var f = function(){ " + FILL * k + " return 7; }; var r = (x === 0) ? f() : -1; var r2 = x + r;", "r2", float(k + 7))


def by_try_throw(k):
    return ("var x = 0; try { " + FILL * k + " throw 7; } catch (e) { x = x + 1000000 * e; } x = x + 0.5;", "x", float(k + 7000000) + 0.5)


def by_try_after(k):
    return ("var x = 0; " + FILL * k + " try { throw 3; } catch (e) { x = x + 1000000 * e; } finally { x = x + 0.5; }", "x", float(k + 3000000) + 0.5)


def by_logical_chain(k):
    return ("var x = 1; var r = " + " && ".join(["x"] * k) + " && 7;", "r", 7.0)


def by_or_chain(k):
    return ("var z = 0; var r = " + " || ".join(["z"] * k) + " || 9;", "r", 9.0)


def by_ternary_chain(k):
    expr = "5"
    # x === i ? i : (...)  nested k deep, hit at the innermost default
    return ("var x = -1; var r = " + "".join("x === %d ? %d : " % (i, i) for i in range(min(k, 400))) + "5;" + (" var y = 0; " + "y = y + 1;" * max(0, k - 400) if k > 400 else ""),
            "r", 5.0)


def by_switch_body(k):
    return ("var x = 0; switch (1) { case 0: x = -1; break; case 1: " + FILL * k + " break; default: x = -2; } x = x + 1000000;", "x", float(k + 1000000))


def by_string_literal(k):
    n = k * 10
    return ("var s = '" + "a" * n + "'; var r = s.length;", "r", float(n))


def by_plus_chain(k):
    return ("var r = " + " + ".join(["1"] * max(1, k)) + ";", "r", float(max(1, k)))


BYTE_SHAPES = {
    "straight-line": by_straight, "if-then": by_if_then, "if-else": by_if_else, "while-body": by_while,
    "for-continue": by_for_continue, "do-break": by_do_break, "loop-after-filler": by_after_filler_loop,
    "try-throw": by_try_throw, "try-after-filler": by_try_after, "and-chain": by_logical_chain, "or-chain": by_or_chain,
    "switch-body": by_switch_body, "string-literal": by_string_literal, "plus-chain": by_plus_chain,
    "do-continue": by_do_continue, "while-continue": by_while_continue, "for-notest-throw": by_for_notest_throw,
    "labelled-continue": by_labelled_continue, "forin-body": by_forin_body, "forof-body": by_forof_body,
    "try-finally-loop": by_try_finally_loop, "nested-ifs": by_nested_ifs, "function-body-call": by_ternary_big_arm,
}

PLACEMENTS = ["top", "function", "callback", "arrow"]


def place(body, result, placement):
    if placement == "top":
        return "started(); %s (%s)" % (body, result)
    if placement == "function":
        return "var main = function(){ started(); %s return (%s); }; main()" % (body, result)
    if placement == "callback":
        return "[1].map(function(){ started(); %s return (%s); })[0]" % (body, result)
    if placement == "arrow":
        return "var mainA = () => { started(); %s return (%s); }; mainA()" % (body, result)
    raise KeyError(placement)


# ------------------------------------------------------------- typed twins
# Literal tables (and scalar operands) that are pairwise equal for the HOST (Python: True == 1 == 1.0,
# False == 0 == -0.0) but different JavaScript values, side by side in one function: whatever the engine does
# with a big literal or a full constant pool (pooling, folding, sharing), every element keeps its own
# typeof / String() / sign of zero, and every evaluation of a literal yields a fresh array.
ENC_JS = ("var enc1 = function(x){ var ty = typeof x; return ty.charAt(0) + String(x) + "
          "(ty === 'number' && x === 0 && 1 / x < 0 ? '-' : ''); }; "
          "var encT = function(t){ var s = []; for (var i = 0; i < t.length; i++) s.push(enc1(t[i])); "
          "return t.length + ':' + s.join(' '); }; ")

# variant -> (source text, expected code) for pattern values 0, 1, 2
TWIN_VARIANTS = {
    "num": (("0", "n0"), ("1", "n1"), ("null", "onull")),
    "bool": (("false", "bfalse"), ("true", "btrue"), ("null", "onull")),
    "float": (("0.0", "n0"), ("1.0", "n1"), ("null", "onull")),
    "negz": (("-0", "n0-"), ("1", "n1"), ("null", "onull")),
    "str": (("'0'", "s0"), ("'1'", "s1"), ("'null'", "snull")),
}
TWIN_KINDS = {
    "num+bool": ("num", "bool"), "bool+num": ("bool", "num"), "num+float+bool": ("num", "float", "bool"),
    "bool+float": ("bool", "float"), "bool+negz": ("bool", "negz"), "negz+num": ("negz", "num"),
    "num+str": ("num", "str"), "mixA+mixB": ("mixA", "mixB"), "mixB+float+mixA": ("mixB", "float", "mixA"),
    "num+num": ("num", "num"),
}
TWIN_HOLDERS = ["vars", "object", "nested", "args", "inner-fns", "twice"]
TWIN_NS_QUICK = [1, 2, 3, 127, 128, 129, 253, 254, 255, 256, 257, 258, 300, 511, 512, 513, 1000, 1023, 1024, 1025, 3000]
TWIN_NS_EXTRA = [3000, 5000, 20000, 66000]


def twin_pattern(n, pat):
    """Pattern values per position: pat 0 = alternating 1/0 (the 'flags' table), otherwise seeded (with a few nulls)."""
    if pat == 0:
        return [1 - i % 2 for i in range(n)], [i % 3 == 0 for i in range(n)]
    import random
    rnd = random.Random(pat * 1000003 + n)
    return [rnd.choice((0, 1, 0, 1, 0, 1, 1, 2)) for _ in range(n)], [rnd.random() < 0.5 for _ in range(n)]


def twin_table(variant, vals, mask):
    """(literal source, expected encT output) of one table."""
    texts, codes = [], []
    for v, m in zip(vals, mask):
        var = variant
        if variant == "mixA":
            var = "bool" if m else "num"
        elif variant == "mixB":
            var = "num" if m else "bool"
        t, c = TWIN_VARIANTS[var][v]
        texts.append(t)
        codes.append(c)
    return "[" + ", ".join(texts) + "]", "%d:%s" % (len(vals), " ".join(codes)), codes[0]


def twin_tables(kind, holder, n, pat):
    """(body, result expression, expected string) - two or three typed twin tables of n elements held in one
    function (or, holder 'inner-fns', one per inner function: the control)."""
    vals, mask = twin_pattern(n, pat)
    tabs = [twin_table(v, vals, mask) for v in TWIN_KINDS[kind]]
    lits = [t[0] for t in tabs]
    if holder == "vars":
        make = " ".join("var t%d = %s;" % (i, l) for i, l in enumerate(lits)) + " var ts = [%s];" % ", ".join("t%d" % i for i in range(len(lits)))
    elif holder == "object":
        make = "var o = {%s}; var ts = [%s];" % (", ".join("k%d: %s" % (i, l) for i, l in enumerate(lits)), ", ".join("o.k%d" % i for i in range(len(lits))))
    elif holder == "nested":
        make = "var ts = [%s];" % ", ".join(lits)
    elif holder == "args":
        make = "var pack = function(x, y, z){ return z === undefined ? [x, y] : [x, y, z]; }; var ts = pack(%s);" % ", ".join(lits)
    elif holder == "inner-fns":
        make = " ".join("var m%d = function(){ return %s; };" % (i, l) for i, l in enumerate(lits)) + " var ts = [%s];" % ", ".join("m%d()" % i for i in range(len(lits)))
    elif holder == "twice":
        # one function holding every table, each literal evaluated twice: the second evaluation is a fresh array too
        make = ("var mk = function(w){ " + " ".join("if (w === %d) return %s;" % (i, l) for i, l in enumerate(lits)) + " return null; }; var ts = [%s];"
                % ", ".join("mk(%d)" % i for i in list(range(len(lits))) * 2))
        tabs = tabs * 2
    else:
        raise KeyError(holder)
    body = (ENC_JS + make + " var out = []; for (var q = 0; q < ts.length; q++) out.push(encT(ts[q]));"
            " var same = 0; for (var i1 = 0; i1 < ts.length; i1++) for (var j1 = i1 + 1; j1 < ts.length; j1++) if (ts[i1] === ts[j1]) same++;"
            " ts[0][0] = 'mut'; var heads = []; for (q = 0; q < ts.length; q++) heads.push(enc1(ts[q][0]));"
            " var r = out.join('|') + '|same=' + same + '|' + heads.join(' ');")
    expected = "|".join(t[1] for t in tabs) + "|same=0|" + " ".join(["smut"] + [t[2] for t in tabs[1:]])
    return body, "r", expected


# scalar twins as operands of one function whose constant pool holds n other constants
TWIN_OPERAND_GROUPS = {
    "bools": [("true", "btrue"), ("false", "bfalse"), ("null", "onull"), ("true + true", "n2"), ("false || 0", "n0"), ("!false", "btrue")],
    "nums": [("1", "n1"), ("0", "n0"), ("-0", "n0-"), ("1.0", "n1"), ("0.0", "n0"), ("1 + true", "n2"), ("0 || false", "bfalse"),
             ("0 === false", "bfalse"), ("1 == true", "btrue"), ("0 * -1", "n0-"), ("[0, false, -0, true, 1].length", "n5")],
    "strs": [("'1'", "s1"), ("'0'", "s0"), ("'true'", "strue"), ("'false'", "sfalse"), ("'1' + 0", "s10"), ("'' + true + 1", "strue1")],
    "small-tables": [("encT([true, 1, 1.0, false, 0, -0, '1', null])", "s8:btrue n1 n1 bfalse n0 n0- s1 onull"),
                     ("encT([1, true, 0, false, -0, 0, '0', 0.0])", "s8:n1 btrue n0 bfalse n0- n0 s0 n0")],
}
TWIN_OPERAND_ORDERS = [("bools", "nums", "strs", "small-tables"), ("nums", "bools", "small-tables", "strs"), ("strs", "small-tables", "nums", "bools"),
                       ("small-tables", "strs", "bools", "nums"), ("nums", "strs", "bools", "small-tables"), ("bools", "small-tables", "strs", "nums")]


def twin_operands(order, n):
    """n distinct filler constants spread between four groups of twin operands (order = index of the group order)."""
    groups = TWIN_OPERAND_ORDERS[order % len(TWIN_OPERAND_ORDERS)]
    cuts = [0, n // 3, n // 2, n - n // 4, n]
    parts, codes = [ENC_JS + "var s = 0; var k = [];"], []
    for gi, g in enumerate(groups):
        parts.append(" ".join("s = s + %d;" % (1000 + i) for i in range(cuts[gi], cuts[gi + 1])))
        for text, code in TWIN_OPERAND_GROUPS[g]:
            parts.append("k.push(enc1(%s));" % text)
            codes.append(code)
    parts.append("var r = k.join(',') + '|' + s;")
    return " ".join(parts), "r", ",".join(codes) + "|%d" % sum(1000 + i for i in range(n))


def twin_build(shape, n, pat):
    """shape = 'tables:<kind>/<holder>' or 'operands:<order>' -> (body, result, expected)"""
    what, _, rest = shape.partition(":")
    if what == "tables":
        kind, _, holder = rest.partition("/")
        return twin_tables(kind, holder, n, pat)
    return twin_operands(int(rest), n)


def twin_cases(chk):
    import random
    quick = chk.tier == "quick"
    rnd = random.Random(core.shard_seed(chk.seed, "C14", "twins"))
    seeded_pat = 1 + rnd.randrange(1 << 20)
    rot = rnd.randrange(1 << 10)
    out = []
    ns = TWIN_NS_QUICK if quick else sorted(set(OPERAND_NS + TWIN_NS_EXTRA))
    idx = 0
    for kind in sorted(TWIN_KINDS):
        for n in ns:
            placements = PLACEMENTS
            if quick or n > 5000:
                placements = [PLACEMENTS[(idx + rot) % 4]]
            for pi, placement in enumerate(placements):
                idx += 1
                holder = TWIN_HOLDERS[(idx * 5 + rot // 4 + pi) % len(TWIN_HOLDERS)]
                pat = 0 if (idx + rot // 64) % 3 == 0 else seeded_pat
                shape = "tables:%s/%s" % (kind, holder)
                body, result, expected = twin_tables(kind, holder, n, pat)
                out.append(((shape, placement, "twins"), n, place(body, result, placement), expected,
                            any(abs(n - b) <= 3 for b in (128, 256, 512)) or n > 256, {"pat": pat}))
    ons = OPERAND_NS_QUICK if quick else OPERAND_NS
    for n in ons:
        for placement in ([PLACEMENTS[(idx + rot) % 4]] if quick else PLACEMENTS):
            idx += 1
            order = (idx + rot) % len(TWIN_OPERAND_ORDERS)
            shape = "operands:%d" % order
            body, result, expected = twin_operands(order, n)
            out.append(((shape, placement, "twins"), n, place(body, result, placement), expected,
                        any(abs(n - b) <= 3 for b in (128, 256, 512)) or n > 256, {"pat": 0}))
    return out


def _first_diff(exp, val):
    """Long string results: report the neighbourhood of the first difference instead of the whole strings."""
    if exp[0] == "s" and isinstance(val, list) and len(val) == 2 and val[0] == "s" and isinstance(val[1], str) and len(exp[1]) + len(val[1]) > 400:
        a, b = exp[1], val[1]
        i = 0
        m = min(len(a), len(b))
        while i < m and a[i] == b[i]:
            i += 1
        lo = max(0, i - 60)
        return (["s", "len %d; at %d: ...%s..." % (len(a), i, a[lo:i + 100])], ["s", "len %d; at %d: ...%s..." % (len(b), i, b[lo:i + 100])])
    return exp, val


# ---------------------------------------------------------------- measurement
def bytes_per_unit(shape_fn, placement):
    """Bytecode bytes added per filler unit, measured through the compiler when it
    can be imported (fail-soft: None)."""
    try:
        m = engine.load()
        from microjs.parser import Parser
        from microjs.compiler import Compiler

        def total(k):
            b, r, _ = shape_fn(k)
            c = Compiler().compile(Parser(place(b, r, placement)).parse())
            seen, todo, n = set(), [c], 0
            while todo:
                f = todo.pop()
                if id(f) in seen:
                    continue
                seen.add(id(f))
                n = max(n, len(f.bytecode))
                for k2 in getattr(f, "constants", []):
                    if hasattr(k2, "bytecode"):
                        todo.append(k2)
            return n

        a, b = total(20), total(60)
        per = (b - a) / 40.0
        base = a - 20 * per
        return per, base
    except Exception:
        return None


def byte_ks(shape_fn, placement, bounds):
    """Unit counts that put the largest function's bytecode just below / at / above
    every bound (+-3 units), computed from the measured bytes per unit."""
    mp = bytes_per_unit(shape_fn, placement)
    ks = set([1, 2, 5])
    if mp is None or mp[0] <= 0:
        per, base = 10.0, 30.0
        spread = range(-40, 41, 4)
    else:
        per, base = mp
        spread = range(-3, 4)
    for bnd in bounds:
        k0 = int((bnd - base) / per)
        for d in spread:
            if k0 + d > 0:
                ks.add(k0 + d)
    return sorted(ks)


# ------------------------------------------------------------------ worker
def run_case(case):
    src, = case
    m = engine.load()
    flag = {"started": 0}

    def started():
        flag["started"] += 1

    ctx = m.Context(time_limit=120)
    ctx.set("started", started)
    try:
        with pool.cpu_alarm(150):
            try:
                r = ctx.eval(src)
                return ("value", engine.tv(r), flag["started"])
            except pool.HarnessTimeout:
                return ("hang", None, flag["started"])
            except RecursionError as e:
                return ("exc", engine.exc_info(e), flag["started"])
            except Exception as e:
                return ("exc", engine.exc_info(e), flag["started"])
    except pool.HarnessTimeout:
        return ("hang", None, flag["started"])


def judge(chk, tags, n, src, expected, res, boundary, extra=None):
    shape, placement, family = tags
    key = "%s|%s|%d" % (shape, placement, n)
    chk.count()
    chk.classify("%s %s" % (family, shape))
    if boundary:
        chk.nontrivial(key)
    case = {"shape": shape, "placement": placement, "n": n, "family": family, "src_len": len(src), "src_head": src[:200]}
    if extra:
        case.update(extra)
    exp = ["s", expected] if isinstance(expected, str) else ["n", engine.numkey(expected)]
    sig = "%s|%s|%s" % (family, shape, placement)
    if family == "twins":
        # coarse: the kind of twins (tables: which typed variants; operands), not holder / placement / group order
        sig = "twins|%s" % shape.split("/")[0].split(":")[0 if shape.startswith("operands") else 1]
        sig = sig.replace("twins|", "twins|tables ") if shape.startswith("tables:") else sig
    if isinstance(res, (pool.HANG, pool.CRASH)):
        chk.violation(sig + "|" + repr(res), case, exp, repr(res), sub=family)
        return
    kind, val, started = res
    if kind == "value":
        if val != exp:
            exp, val = _first_diff(exp, val)
            chk.violation(sig + "|wrong-value", case, exp, val, sub=family)
        else:
            chk.sample({"shape": shape, "placement": placement, "n": n, "result": val, "outcome": "ran"}, cls=sig, per_class=1, total=30)
        return
    if kind == "hang":
        chk.violation(sig + "|hang", case, exp, "hang", sub=family)
        return
    info = val
    if not info["family"]:
        chk.violation(sig + "|host:%s" % info["cls"], case, "value or JSError(too large)", [info["cls"], (info.get("message") or "")[:80], info.get("frame")], sub=family)
        return
    msg = "%s %s" % (info.get("name") or "", info.get("message") or "")
    if not SIZE_WORDS.search(msg):
        chk.violation(sig + "|jserror-not-about-size", case, "value or JSError(too large)", [info["cls"], msg[:100]], sub=family)
        return
    if started:
        chk.violation(sig + "|refused-after-start", case, "refusal before anything runs", [info["cls"], msg[:100], "started=%d" % started], sub=family)
        return
    chk.classify("refused up front")
    chk.sample({"shape": shape, "placement": placement, "n": n, "outcome": "refused: " + msg[:80]}, cls=sig + "refused", per_class=1, total=30)


POSITION_NS = [10, 255, 256, 32767, 32768, 65534, 65535, 65536, 65537, 70000, 131071, 131072, 131073, 200000]
MARK = 'throw new Error("pos")'
# (function/arrow placements: throws inside functions carry a position since fix C07-07 function-source-maps)
POSITION_PLACEMENTS = ("top", "function", "arrow")


def position_cases(quick):
    """Source positions are sizes too: a throw far to the right on its line (after a long literal on the same
    line) or far down the file must report exactly its line and column."""
    out = []
    ns = [n for n in POSITION_NS if not quick or n in (10, 256, 65535, 65536, 65537, 131072)]
    for n in ns:
        for kind in ("column", "line", "column-comment"):
            for placement in POSITION_PLACEMENTS:
                if kind == "column":
                    body = 'var pad = "%s"; var r; try { %s; } catch (e) { r = e.lineNumber * 10000000 + e.columnNumber; }' % ("a" * n, MARK)
                elif kind == "column-comment":
                    body = '/* %s */ var r; try { %s; } catch (e) { r = e.lineNumber * 10000000 + e.columnNumber; }' % ("c" * n, MARK)
                else:
                    body = 'var r; %s try { %s; } catch (e) { r = e.lineNumber * 10000000 + e.columnNumber; }' % ("\n" * n, MARK)
                src = place(body, "r", placement)
                i = src.index(MARK)
                line = src.count("\n", 0, i) + 1
                col = i - (src.rfind("\n", 0, i) + 1) + 1
                out.append((("position-" + kind, placement, "position"), n, src, float(line * 10000000 + col), True))
    return out


def build(chk):
    cases = []
    quick = chk.tier == "quick"
    cases.extend(position_cases(quick))
    for shape, fn in sorted(OPERAND_SHAPES.items()):
        for placement in PLACEMENTS:
            ns = OPERAND_NS
            if quick:
                ns = OPERAND_NS_QUICK
            for n in ns:
                body, result, expected, toponly = fn(n)
                if toponly == "toponly" and placement != "top":
                    continue
                src = place(body, result, placement)
                cases.append(((shape, placement, "operand"), n, src, expected, any(abs(n - b) <= 3 for b in (128, 256, 512)) or n > 256))
    bounds = BYTE_BOUNDS_QUICK if quick else BYTE_BOUNDS_THOROUGH
    for shape, fn in sorted(BYTE_SHAPES.items()):
        for pi, placement in enumerate(PLACEMENTS):
            if quick and (pi + sorted(BYTE_SHAPES).index(shape) + chk.seed) % 4 != 0:
                continue  # one placement per shape in quick, rotated by seed
            ks = byte_ks(fn, placement, bounds)
            mp = bytes_per_unit(fn, placement)
            for k in ks:
                body, result, expected = fn(k)
                src = place(body, result, placement)
                if len(src) > 3500000:
                    continue
                est = (mp[1] + mp[0] * k) if mp else None
                near = est is None or any(abs(est - b) <= 4 * (mp[0] if mp else 10) for b in bounds) or (est or 0) > 65536
                cases.append(((shape, placement, "bytes"), k, src, expected, near))
    return cases


def main(chk):
    chk.rule = (
        "%d operand-indexed shapes x n swept over {.., 254, 255, 256, 257, .., 1000} and %d byte-offset shapes sized (from the "
        "measured bytecode bytes per filler statement) to put the largest function just below/at/above each jump-encoding "
        "boundary, each at top level / in a function / in a callback; non-trivial = n or byte size within +-3 units of an "
        "encoding boundary or beyond it; distinct by (shape, placement, n)" % (len(OPERAND_SHAPES), len(BYTE_SHAPES))
        + "; typed twins: %d kinds of two or three n-element literal tables whose elements are host-equal but different JavaScript "
        "values (true/1/1.0, false/0/-0, strings as control) held in one function by %d holder forms, and twin scalar operands "
        "around n pooled constants, judged element by element (typeof, String(), sign of zero, array identity)" % (len(TWIN_KINDS), len(TWIN_HOLDERS))
    )
    chk.assumptions = ["closed-form expected values are computed by the check itself; the bytes-per-statement measurement uses the compiler when importable and otherwise falls back to a wide sweep"]
    for path, rec in core.saved_replays("C14"):
        r = replay(rec)
        chk.count()
        if r["fails"]:
            chk.violation("saved-replay|" + path, rec.get("case"), r["expected"], r["actual"], sub="replay")
    cases = build(chk)
    cases.extend(twin_cases(chk))
    res = pool.run(run_case, [(c[2],) for c in cases], timeout=400)
    for c, r in zip(cases, res):
        tags, n, src, expected, boundary = c[:5]
        judge(chk, tags, n, src, expected, r, boundary, c[5] if len(c) > 5 else None)
    chk.exhaustive = False


def replay(rec):
    case = rec["case"]
    if "src" in case:
        src, expected = case["src"], case["expected_value"]
    elif case.get("family") == "twins":
        out = twin_build(case["shape"], case["n"], case.get("pat", 0))
        src, expected = place(out[0], out[1], case["placement"]), out[2]
    else:
        fn = OPERAND_SHAPES.get(case["shape"]) or BYTE_SHAPES[case["shape"]]
        out = fn(case["n"])
        src, expected = place(out[0], out[1], case["placement"]), out[2]
    chk = core.Check("C14", "replay", 0)
    r = pool.run(run_case, [(src,)], timeout=400)[0]
    judge(chk, (case.get("shape", "?"), case.get("placement", "?"), case.get("family", "?")), case.get("n", 0), src, expected, r, True)
    if chk.violations:
        v = list(chk.violations.values())[0]
        return {"fails": True, "expected": v["expected"], "actual": v["actual"]}
    return {"fails": False, "expected": expected, "actual": repr(r)[:200]}
