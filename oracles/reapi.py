"""Reference model of the RegExp *API* layer (C20): the lastIndex protocol and
the regex-driven string methods, transcribed from ECMA-262 (2023 edition,
non-unicode mode, no named groups, no subclassing / Symbol overrides):

  22.2.7.2  RegExpBuiltinExec          -> builtin_exec
  22.2.6.2  RegExp.prototype.exec      -> Regex.exec
  22.2.6.16 RegExp.prototype.test      -> Regex.test
  22.2.6.8  RegExp.prototype[@@match]  -> sym_match
  22.2.6.11 RegExp.prototype[@@replace] + 22.1.3.19.1 GetSubstitution -> sym_replace, get_substitution
  22.2.6.12 RegExp.prototype[@@search] -> sym_search
  22.2.6.14 RegExp.prototype[@@split]  -> sym_split
  22.1.3.20 String.prototype.replaceAll (regex argument) -> replace_all

The matcher itself is oracles/reref.py.  Independent of the engine.

Values are the primitives of oracles/prims.py (UNDEF, None = null, bool, float,
str), Python lists for arrays and MatchArray for exec results.  `lastIndex` is
an ordinary writable data property: the model stores whatever the script
assigned (any primitive) and only g/y regexes ever overwrite it.
"""
import math

from oracles import prims as P
from oracles import reref

UNDEF = P.UNDEF
MAX_SAFE = float(2 ** 53 - 1)


class JSThrow(Exception):
    """A JavaScript exception thrown by the modelled operation."""

    def __init__(self, name, message=""):
        Exception.__init__(self, name, message)
        self.name = name
        self.message = message


class MatchArray(list):
    """The array RegExpBuiltinExec returns: elements + index + input."""

    def __init__(self, elems, index, input_):
        list.__init__(self, elems)
        self.index = index
        self.input = input_


def to_length(v):
    """7.1.20 ToLength for a primitive."""
    n = P.to_integer_or_inf(P.to_number(v))
    if n <= 0:
        return 0.0
    return float(min(n, MAX_SAFE))


def to_string(v):
    """ToString for primitives and (flat) arrays of primitives."""
    if isinstance(v, list):
        return ",".join("" if (x is UNDEF or x is None) else to_string(x) for x in v)
    if isinstance(v, RawValue):
        return v.string
    return P.to_string(v)


class RawValue:
    """A non-primitive script value the model only needs the ToString of
    (an object / array literal returned by a function replacer)."""

    def __init__(self, source, string):
        self.source = source
        self.string = string


class Regex:
    """A RegExp instance: [[OriginalSource]], [[OriginalFlags]], lastIndex."""

    def __init__(self, pattern, flags=""):
        self.pattern = pattern  # pattern text or AST (gens/patterns.py)
        self.flags = flags
        self.last_index = 0.0
        self._prog = reref.compile(pattern, "".join(c for c in flags if c in "ims"))

    # 22.2.6.2
    def exec(self, s):
        return builtin_exec(self, s)

    # 22.2.6.16
    def test(self, s):
        return builtin_exec(self, s) is not None


def builtin_exec(R, S):
    """22.2.7.2 RegExpBuiltinExec(R, S) -> MatchArray | None (null)."""
    length = len(S)
    last_index = to_length(R.last_index)  # step 2 (read for every regex)
    glob = "g" in R.flags
    sticky = "y" in R.flags
    if not glob and not sticky:
        last_index = 0.0
    # steps 10-12: the matcher loop
    if last_index > length:
        if glob or sticky:
            R.last_index = 0.0
        return None
    li = int(last_index)
    if sticky:
        r = R._prog.match_at(S, li)
    else:
        r = R._prog.search(S, li)
    if r is None:
        # a non-sticky search that runs off the end reaches lastIndex > length
        if glob or sticky:
            R.last_index = 0.0
        return None
    index, end, caps = r
    if glob or sticky:
        R.last_index = float(end)
    elems = [S[index:end]] + [UNDEF if c is None else c for c in caps]
    return MatchArray(elems, float(index), S)


def advance_string_index(S, index):
    """22.2.7.3 AdvanceStringIndex, non-unicode."""
    return index + 1.0


# --------------------------------------------------------------------------- @@match
def sym_match(rx, S):
    if "g" not in rx.flags:
        return builtin_exec(rx, S)
    rx.last_index = 0.0
    A = []
    while True:
        result = builtin_exec(rx, S)
        if result is None:
            return None if not A else A
        match_str = to_string(result[0])
        A.append(match_str)
        if match_str == "":
            this_index = to_length(rx.last_index)
            rx.last_index = advance_string_index(S, this_index)


# --------------------------------------------------------------------------- @@replace
def get_substitution(matched, s, position, captures, named_captures, template):
    """22.1.3.19.1 GetSubstitution (captures: list of str | UNDEF; named_captures UNDEF)."""
    string_length = len(s)
    match_length = len(matched)
    tail_pos = position + match_length
    m = len(captures)
    result = []
    t = template
    i = 0
    n = len(t)
    while i < n:
        ref = t[i]
        ref_replacement = ref
        two = t[i : i + 2]
        if two == "$$":
            ref = "$$"
            ref_replacement = "$"
        elif two == "$`":
            ref = two
            ref_replacement = s[:position]
        elif two == "$&":
            ref = two
            ref_replacement = matched
        elif two == "$'":
            ref = two
            ref_replacement = s[min(tail_pos, string_length) :]
        elif t[i] == "$" and i + 1 < n and t[i + 1] in "0123456789":
            digit_count = 2 if (i + 2 < n and t[i + 2] in "0123456789") else 1
            digits = t[i + 1 : i + 1 + digit_count]
            index = int(digits)
            if index > m and digit_count == 2:
                digit_count = 1
                digits = digits[:1]
                index = int(digits)
            ref = t[i : i + 1 + digit_count]
            if 1 <= index <= m:
                capture = captures[index - 1]
                ref_replacement = "" if capture is UNDEF else capture
            else:
                ref_replacement = ref
        elif two == "$<":
            if named_captures is UNDEF:
                ref = "$<"
                ref_replacement = ref
            else:  # pragma: no cover - no named groups in this model
                raise NotImplementedError("named captures")
        result.append(ref_replacement)
        i += len(ref)
    return "".join(result)


def sym_replace(rx, S, replace_value):
    """replace_value: a primitive (ToString'd) or a Python callable
    fn(args: list) -> value standing for a script function."""
    length_s = len(S)
    functional = callable(replace_value)
    if not functional:
        replace_value = to_string(replace_value)
    glob = "g" in rx.flags
    if glob:
        rx.last_index = 0.0
    results = []
    while True:
        result = builtin_exec(rx, S)
        if result is None:
            break
        results.append(result)
        if not glob:
            break
        match_str = to_string(result[0])
        if match_str == "":
            this_index = to_length(rx.last_index)
            rx.last_index = advance_string_index(S, this_index)
    accumulated = []
    next_source_position = 0
    for result in results:
        n_captures = max(len(result) - 1, 0)
        matched = to_string(result[0])
        match_length = len(matched)
        position = int(max(min(P.to_integer_or_inf(result.index), length_s), 0))
        captures = []
        for n in range(1, n_captures + 1):
            cap_n = result[n]
            captures.append(cap_n if cap_n is UNDEF else to_string(cap_n))
        named_captures = UNDEF
        if functional:
            replacer_args = [matched] + captures + [float(position), S]
            repl_value = replace_value(replacer_args)
            replacement = to_string(repl_value)
        else:
            replacement = get_substitution(matched, S, position, captures, named_captures, replace_value)
        if position >= next_source_position:
            accumulated.append(S[next_source_position:position])
            accumulated.append(replacement)
            next_source_position = position + match_length
    if next_source_position >= length_s:
        return "".join(accumulated)
    return "".join(accumulated) + S[next_source_position:]


def replace_all(rx, S, replace_value):
    """22.1.3.20 String.prototype.replaceAll with a RegExp searchValue."""
    if "g" not in rx.flags:
        raise JSThrow("TypeError", "replaceAll must be called with a global RegExp")
    return sym_replace(rx, S, replace_value)


# --------------------------------------------------------------------------- @@search
def same_value(a, b):
    if type(a) is not type(b):
        return False
    if isinstance(a, float):
        if a != a and b != b:
            return True
        return a == b and math.copysign(1.0, a) == math.copysign(1.0, b)
    return a == b or (a is b)


def sym_search(rx, S):
    previous = rx.last_index
    if not same_value(previous, 0.0):
        rx.last_index = 0.0
    result = builtin_exec(rx, S)
    current = rx.last_index
    if not same_value(current, previous):
        rx.last_index = previous
    if result is None:
        return -1.0
    return result.index


# --------------------------------------------------------------------------- @@split
MISSING = object()


def sym_split(rx, S, limit=UNDEF):
    """limit: UNDEF (or MISSING) = no limit, else any primitive (ToUint32)."""
    flags = rx.flags
    new_flags = flags if "y" in flags else flags + "y"
    splitter = Regex(rx.pattern, new_flags)  # Construct(C, [rx, newFlags]): lastIndex 0, rx untouched
    A = []
    if limit is MISSING or limit is UNDEF:
        lim = 2 ** 32 - 1
    else:
        lim = P.to_uint32(limit)
    if lim == 0:
        return A
    if S == "":
        z = builtin_exec(splitter, S)
        if z is not None:
            return A
        A.append(S)
        return A
    size = len(S)
    p = 0
    q = p
    while q < size:
        splitter.last_index = float(q)
        z = builtin_exec(splitter, S)
        if z is None:
            q = q + 1
            continue
        e = int(min(to_length(splitter.last_index), size))
        if e == p:
            q = q + 1
            continue
        A.append(S[p:q])
        if len(A) == lim:
            return A
        p = e
        number_of_captures = max(len(z) - 1, 0)
        for i in range(1, number_of_captures + 1):
            A.append(z[i])
            if len(A) == lim:
                return A
        q = p
    A.append(S[p:size])
    return A


# --------------------------------------------------------------------------- String.prototype entry points
def string_method(name, S, rx, *args):
    """S.<name>(rx, ...args) for a RegExp first argument."""
    if name == "match":
        return sym_match(rx, S)
    if name == "replace":
        return sym_replace(rx, S, args[0] if args else UNDEF)
    if name == "replaceAll":
        return replace_all(rx, S, args[0] if args else UNDEF)
    if name == "search":
        return sym_search(rx, S)
    if name == "split":
        return sym_split(rx, S, args[0] if args else UNDEF)
    raise KeyError(name)


# --------------------------------------------------------------------------- encoding shared with the scripts
def numkey(f):
    return P.numkey(f)


def enc(v):
    """Typed, JSON-able rendering; the scripts' E() produces the same shape
    (after checks.c20.norm)."""
    if v is UNDEF:
        return ["U"]
    if v is None:
        return ["N"]
    if isinstance(v, bool):
        return ["b", 1 if v else 0]
    if isinstance(v, float):
        return ["n", numkey(v)]
    if isinstance(v, int):
        return ["n", numkey(float(v))]
    if isinstance(v, str):
        return ["s", v]
    if isinstance(v, MatchArray):
        return ["A", [enc(x) for x in v], enc(v.index), enc(v.input)]
    if isinstance(v, list):
        return ["A", [enc(x) for x in v], ["U"], ["U"]]
    raise TypeError(repr(v))
