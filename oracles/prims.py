"""ECMAScript abstract operations and operators on *primitive* values.

Reference model for C06 (and shared by the other oracles).  Independent of
the engine.  Values: UNDEF (undefined), None (null), bool, float (every
number), str.
"""
import decimal
import math
import re


class _Undef:
    def __repr__(self):
        return "undefined"


UNDEF = _Undef()

# WhiteSpace and LineTerminator of ECMAScript (StrWhiteSpaceChar)
WS = (
    "\t\n\v\f\r \u00a0\u1680\u2000\u2001\u2002\u2003\u2004\u2005\u2006\u2007\u2008\u2009\u200a"
    "\u2028\u2029\u202f\u205f\u3000\ufeff"
)

_DEC = re.compile(r"^[+-]?(?:Infinity|(?:[0-9]+\.?[0-9]*|\.[0-9]+)(?:[eE][+-]?[0-9]+)?)$")
_HEX = re.compile(r"^0[xX][0-9a-fA-F]+$")
_OCT = re.compile(r"^0[oO][0-7]+$")
_BIN = re.compile(r"^0[bB][01]+$")


def js_type(v):
    if v is UNDEF:
        return "undefined"
    if v is None:
        return "null"
    if isinstance(v, bool):
        return "boolean"
    if isinstance(v, float):
        return "number"
    if isinstance(v, str):
        return "string"
    raise TypeError("not a primitive: %r" % (v,))


def typeof(v):
    t = js_type(v)
    return "object" if t == "null" else t


def int_to_double(n):
    """Exact integer -> nearest double (ties to even), inf on overflow."""
    try:
        return float(n)
    except OverflowError:
        return math.inf if n > 0 else -math.inf


def str_to_number(s):
    s = s.strip(WS)
    if s == "":
        return 0.0
    if _HEX.match(s):
        return int_to_double(int(s[2:], 16))
    if _OCT.match(s):
        return int_to_double(int(s[2:], 8))
    if _BIN.match(s):
        return int_to_double(int(s[2:], 2))
    if _DEC.match(s):
        t = s
        if t.endswith("Infinity"):
            return -math.inf if t[0] == "-" else math.inf
        return float(t)  # correctly rounded; overflow -> inf, underflow -> 0
    return math.nan


def to_number(v):
    if v is UNDEF:
        return math.nan
    if v is None:
        return 0.0
    if isinstance(v, bool):
        return 1.0 if v else 0.0
    if isinstance(v, float):
        return v
    if isinstance(v, str):
        return str_to_number(v)
    raise TypeError(v)


def digits_exp(x):
    """Shortest round-trip decimal digits of finite x > 0: (digits, n) with
    value = 0.digits * 10**n  (ES Number::toString's k = len(digits), n)."""
    d = decimal.Decimal(repr(x))
    sign, digs, exp = d.as_tuple()
    digs = list(digs)
    while len(digs) > 1 and digs[-1] == 0:
        digs.pop()
        exp += 1
    while len(digs) > 1 and digs[0] == 0:
        digs.pop(0)
    s = "".join(map(str, digs))
    return s, exp + len(s)


def num_to_str(x):
    """Number::toString(x, 10)."""
    if x != x:
        return "NaN"
    if x == 0:
        return "0"
    if x < 0:
        return "-" + num_to_str(-x)
    if x == math.inf:
        return "Infinity"
    s, n = digits_exp(x)
    k = len(s)
    if k <= n <= 21:
        return s + "0" * (n - k)
    if 0 < n <= 21:
        return s[:n] + "." + s[n:]
    if -6 < n <= 0:
        return "0." + "0" * (-n) + s
    e = n - 1
    sign = "+" if e >= 0 else "-"
    if k == 1:
        return s + "e" + sign + str(abs(e))
    return s[0] + "." + s[1:] + "e" + sign + str(abs(e))


def to_string(v):
    if v is UNDEF:
        return "undefined"
    if v is None:
        return "null"
    if isinstance(v, bool):
        return "true" if v else "false"
    if isinstance(v, float):
        return num_to_str(v)
    if isinstance(v, str):
        return v
    raise TypeError(v)


def to_boolean(v):
    if v is UNDEF or v is None:
        return False
    if isinstance(v, bool):
        return v
    if isinstance(v, float):
        return not (v != v or v == 0)
    if isinstance(v, str):
        return len(v) > 0
    raise TypeError(v)


def to_integer_or_inf(x):
    x = to_number(x) if not isinstance(x, float) else x
    if x != x or x == 0:
        return 0
    if x in (math.inf, -math.inf):
        return x
    return math.trunc(x)


def to_uint32(v):
    x = to_number(v)
    if x != x or x in (math.inf, -math.inf) or x == 0:
        return 0
    return math.trunc(x) % (1 << 32)


def to_int32(v):
    n = to_uint32(v)
    return n - (1 << 32) if n >= (1 << 31) else n


def strict_equals(a, b):
    ta, tb = js_type(a), js_type(b)
    if ta != tb:
        return False
    if ta == "number":
        return a == b  # NaN != NaN, +0 == -0
    return a == b if ta in ("string", "boolean") else True


def loose_equals(a, b):
    ta, tb = js_type(a), js_type(b)
    if ta == tb:
        return strict_equals(a, b)
    if ta in ("null", "undefined") and tb in ("null", "undefined"):
        return True
    if ta == "number" and tb == "string":
        return loose_equals(a, to_number(b))
    if ta == "string" and tb == "number":
        return loose_equals(to_number(a), b)
    if ta == "boolean":
        return loose_equals(to_number(a), b)
    if tb == "boolean":
        return loose_equals(a, to_number(b))
    return False


def _code_units(s):
    b = s.encode("utf-16-le", "surrogatepass")
    return [b[i] | (b[i + 1] << 8) for i in range(0, len(b), 2)]


def less_than(a, b):
    """IsLessThan(a, b) for primitives: True / False / None (undefined)."""
    if isinstance(a, str) and isinstance(b, str):
        return _code_units(a) < _code_units(b)
    x, y = to_number(a), to_number(b)
    if x != x or y != y:
        return None
    return x < y


def js_mod(n, d):
    if n != n or d != d or n in (math.inf, -math.inf):
        return math.nan
    if d in (math.inf, -math.inf):
        return n
    if d == 0:
        return math.nan
    if n == 0:
        return n
    r = math.fmod(n, d)  # exact, sign of dividend
    if r == 0:
        return math.copysign(0.0, n)
    return r


def js_div(a, b):
    if a != a or b != b:
        return math.nan
    if b == 0:
        if a == 0:
            return math.nan
        neg = (math.copysign(1, a) < 0) != (math.copysign(1, b) < 0)
        return -math.inf if neg else math.inf
    try:
        return a / b
    except OverflowError:
        neg = (a < 0) != (b < 0)
        return -math.inf if neg else math.inf


def js_mul(a, b):
    try:
        return a * b
    except OverflowError:  # cannot happen for floats, kept for safety
        return math.nan


def js_pow(b, e):
    """Number::exponentiate."""
    if e != e:
        return math.nan
    if e == 0:
        return 1.0
    if b != b:
        return math.nan
    inf = math.inf
    if e in (inf, -inf):
        ab = abs(b)
        if ab == 1:
            return math.nan
        if e == inf:
            return inf if ab > 1 else 0.0
        return 0.0 if ab > 1 else inf
    odd_int = float(e).is_integer() and abs(e) < 2 ** 53 and int(e) % 2 == 1
    if b == inf:
        return inf if e > 0 else 0.0
    if b == -inf:
        if e > 0:
            return -inf if odd_int else inf
        return -0.0 if odd_int else 0.0
    if b == 0:
        neg = math.copysign(1, b) < 0
        if e > 0:
            return -0.0 if (neg and odd_int) else 0.0
        return -inf if (neg and odd_int) else inf
    if b < 0 and not float(e).is_integer():
        return math.nan
    try:
        return math.pow(b, e)
    except OverflowError:
        if b < 0 and odd_int:
            return -inf
        return inf
    except ValueError:
        return math.nan


def add(a, b):
    if isinstance(a, str) or isinstance(b, str):
        return to_string(a) + to_string(b)
    return to_number(a) + to_number(b)


def _shift_count(b):
    return to_uint32(b) & 31


BINOPS = [
    "+", "-", "*", "/", "%", "**", "&", "|", "^", "<<", ">>", ">>>",
    "<", "<=", ">", ">=", "==", "!=", "===", "!==", "&&", "||", ",",
]
UNOPS = ["-", "+", "!", "~", "typeof", "void"]
UPDATES = ["++x", "x++", "--x", "x--"]
COMPOUND = ["+=", "-=", "*=", "/=", "%=", "&=", "|=", "^=", "<<=", ">>=", ">>>="]


def binop(op, a, b):
    if op == "+":
        return add(a, b)
    if op == "-":
        return to_number(a) - to_number(b)
    if op == "*":
        return js_mul(to_number(a), to_number(b))
    if op == "/":
        return js_div(to_number(a), to_number(b))
    if op == "%":
        return js_mod(to_number(a), to_number(b))
    if op == "**":
        return js_pow(to_number(a), to_number(b))
    if op == "&":
        return float(to_int32(a) & to_int32(b))
    if op == "|":
        return float(to_int32(a) | to_int32(b))
    if op == "^":
        return float(to_int32(a) ^ to_int32(b))
    if op == "<<":
        r = (to_int32(a) << _shift_count(b)) % (1 << 32)
        return float(r - (1 << 32) if r >= (1 << 31) else r)
    if op == ">>":
        return float(to_int32(a) >> _shift_count(b))
    if op == ">>>":
        return float(to_uint32(a) >> _shift_count(b))
    if op == "<":
        return less_than(a, b) is True
    if op == ">":
        return less_than(b, a) is True
    if op == "<=":
        return less_than(b, a) is False
    if op == ">=":
        return less_than(a, b) is False
    if op == "==":
        return loose_equals(a, b)
    if op == "!=":
        return not loose_equals(a, b)
    if op == "===":
        return strict_equals(a, b)
    if op == "!==":
        return not strict_equals(a, b)
    if op == "&&":
        return b if to_boolean(a) else a
    if op == "||":
        return a if to_boolean(a) else b
    if op == ",":
        return b
    raise KeyError(op)


def unop(op, a):
    if op == "-":
        return -to_number(a)
    if op == "+":
        return to_number(a)
    if op == "!":
        return not to_boolean(a)
    if op == "~":
        return float(~to_int32(a))
    if op == "typeof":
        return typeof(a)
    if op == "void":
        return UNDEF
    raise KeyError(op)


def update(op, a):
    """Returns (expression value, new value of the variable)."""
    old = to_number(a)
    new = old + 1 if "++" in op else old - 1
    return (new if op[-1] == "x" else old), new


# --------------------------------------------------------------------------
# typed rendering compatible with vf.engine.tv  (what eval() hands back)

def numkey(f):
    if f != f:
        return "NaN"
    if f == 0:
        return "-0" if math.copysign(1.0, f) < 0 else "0"
    if f in (math.inf, -math.inf):
        return "Infinity" if f > 0 else "-Infinity"
    return repr(float(f))


def tv(v):
    """Typed rendering of a primitive as eval() would return it.
    undefined and null both arrive as Python None -> callers pair the value
    with its typeof to keep them apart."""
    if v is UNDEF or v is None:
        return ["nil"]
    if isinstance(v, bool):
        return ["b", 1 if v else 0]
    if isinstance(v, float):
        return ["n", numkey(v)]
    if isinstance(v, str):
        return ["s", v]
    raise TypeError(v)


def js_literal(v):
    """JavaScript source text denoting primitive v (cannot be mis-lexed)."""
    if v is UNDEF:
        return "undefined"
    if v is None:
        return "null"
    if isinstance(v, bool):
        return "true" if v else "false"
    if isinstance(v, float):
        if v != v:
            return "NaN"
        if v == math.inf:
            return "Infinity"
        if v == -math.inf:
            return "(-Infinity)"
        if v == 0 and math.copysign(1, v) < 0:
            return "(-0)"
        if v < 0:
            return "(-" + js_literal(-v) + ")"
        if v.is_integer() and v < 1e21:
            return str(int(v))
        return repr(v)
    if isinstance(v, str):
        return js_string_literal(v)
    raise TypeError(v)


def js_string_literal(s, raw_astral=False):
    """JavaScript string literal for s.  Non-BMP characters are written as surrogate-pair
    escapes by default; with raw_astral they are written raw (the engine keeps strings as
    code points, so only the raw spelling denotes the same Python string there)."""
    out = ['"']
    for ch in s:
        o = ord(ch)
        if ch == '"':
            out.append('\\"')
        elif ch == "\\":
            out.append("\\\\")
        elif ch == "\n":
            out.append("\\n")
        elif ch == "\r":
            out.append("\\r")
        elif ch == "\t":
            out.append("\\t")
        elif o < 0x20 or o == 0x7F or o in (0x2028, 0x2029) or 0xD800 <= o <= 0xDFFF or o == 0xFEFF:
            out.append("\\u%04x" % o)
        elif o > 0xFFFF and raw_astral:
            out.append(ch)
        elif o > 0xFFFF:
            o -= 0x10000
            out.append("\\u%04x\\u%04x" % (0xD800 + (o >> 10), 0xDC00 + (o & 0x3FF)))
        else:
            out.append(ch)
    out.append('"')
    return "".join(out)
