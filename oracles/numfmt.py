"""Number.prototype.toFixed / toExponential / toPrecision / toString(radix).

Reference model for C18, independent of the engine.  Everything is computed
in exact rational arithmetic (fractions.Fraction of the double); nothing here
rounds in binary.  Results:

    ("s", text)              the one text ECMAScript specifies
    ("throw", "RangeError")  the call must throw a RangeError
    ("pred", radix, x)       toString(radix) where the specification only says
                             "implementation-approximated": judge the engine's
                             text with radix_text_ok()

Arguments follow the specification's coercions: the digit / radix argument is
a primitive (P.UNDEF, None, bool, float, str) and goes through
ToIntegerOrInfinity.
"""
import math
from fractions import Fraction

from oracles import prims as P

DIGITS = "0123456789abcdefghijklmnopqrstuvwxyz"
INF = math.inf


def _to_int_or_inf(v):
    x = P.to_number(v)
    if x != x or x == 0:
        return 0
    if x in (INF, -INF):
        return x
    return math.trunc(x)


def _round_half_up(q):
    """Integer n closest to the non-negative rational q; ties -> larger n."""
    return math.floor(q + Fraction(1, 2))


def _pow10(k):
    return Fraction(10) ** k


def _exp10(x):
    """e with 10**e <= x < 10**(e+1) for a positive rational x (exact)."""
    e = len(str(x.numerator)) - len(str(x.denominator))
    while _pow10(e) > x:
        e -= 1
    while _pow10(e + 1) <= x:
        e += 1
    return e


def sig_digits(x, p):
    """(e, digits) with 10**(p-1) <= n < 10**p, n * 10**(e-p+1) - x as close
    to zero as possible, ties to the larger n (x a positive Fraction)."""
    e = _exp10(x)
    n = _round_half_up(x / _pow10(e - p + 1))
    if n >= 10 ** p:  # 9.99.. rounded up to the next power of ten
        e += 1
        n = _round_half_up(x / _pow10(e - p + 1))
    return e, str(n)


def _exp_text(m, e):
    if len(m) > 1:
        m = m[0] + "." + m[1:]
    return m + "e" + ("+" if e >= 0 else "-") + str(abs(e))


def to_fixed(x, fd=P.UNDEF):
    f = _to_int_or_inf(fd)
    if f in (INF, -INF) or f < 0 or f > 100:
        return ("throw", "RangeError")
    if x != x or x in (INF, -INF):
        return ("s", P.num_to_str(x))
    if abs(x) >= 1e21:
        return ("s", P.num_to_str(x))
    s = ""
    if x < 0:  # -0 is not < 0
        s = "-"
        x = -x
    n = _round_half_up(Fraction(x) * 10 ** f)
    m = str(n)
    if f:
        if len(m) <= f:
            m = "0" * (f + 1 - len(m)) + m
        m = m[:-f] + "." + m[-f:]
    return ("s", s + m)


def to_exponential(x, fd=P.UNDEF):
    f = _to_int_or_inf(fd)
    if x != x or x in (INF, -INF):
        return ("s", P.num_to_str(x))
    if f in (INF, -INF) or f < 0 or f > 100:
        return ("throw", "RangeError")
    s = ""
    if x < 0:
        s = "-"
        x = -x
    if x == 0:
        return ("s", s + _exp_text("0" * (f + 1), 0))
    if fd is P.UNDEF:
        digs, n = P.digits_exp(x)  # as many digits as necessary
        return ("s", s + _exp_text(digs, n - 1))
    e, m = sig_digits(Fraction(x), f + 1)
    return ("s", s + _exp_text(m, e))


def to_precision(x, prec=P.UNDEF):
    if prec is P.UNDEF:
        return ("s", P.num_to_str(x))
    p = _to_int_or_inf(prec)
    if x != x or x in (INF, -INF):
        return ("s", P.num_to_str(x))
    if p in (INF, -INF) or p < 1 or p > 100:
        return ("throw", "RangeError")
    s = ""
    if x < 0:
        s = "-"
        x = -x
    if x == 0:
        m, e = "0" * p, 0
    else:
        e, m = sig_digits(Fraction(x), p)
        if e < -6 or e >= p:
            return ("s", s + _exp_text(m, e))
    if e == p - 1:
        return ("s", s + m)
    if e >= 0:
        return ("s", s + m[: e + 1] + "." + m[e + 1 :])
    return ("s", s + "0." + "0" * (-(e + 1)) + m)


# ---------------------------------------------------------------- toString(radix)
def _int_text(n, radix):
    if n == 0:
        return "0"
    out = []
    while n:
        n, d = divmod(n, radix)
        out.append(DIGITS[d])
    return "".join(reversed(out))


def exact_radix_text(x, radix):
    """Exact expansion of a finite double in `radix`, or None when it does not
    terminate (non-dyadic radix with a fractional part)."""
    fr = Fraction(abs(x))
    ip = fr.numerator // fr.denominator
    frac = fr - ip
    text = _int_text(ip, radix)
    if frac:
        if radix & (radix - 1):
            return None
        out = []
        while frac:
            frac *= radix
            d = frac.numerator // frac.denominator
            out.append(DIGITS[d])
            frac -= d
        text += "." + "".join(out)
    return ("-" if x < 0 else "") + text


def to_string_radix(x, radix=P.UNDEF):
    if radix is P.UNDEF:
        r = 10
    else:
        r = _to_int_or_inf(radix)
    if r in (INF, -INF) or r < 2 or r > 36:
        return ("throw", "RangeError")
    if r == 10 or x != x or x in (INF, -INF) or x == 0:
        return ("s", P.num_to_str(x))
    pow2 = (r & (r - 1)) == 0
    if pow2 or (float(x).is_integer() and abs(x) <= 2 ** 53):
        # finite expansion that is also the shortest text identifying x
        return ("s", exact_radix_text(x, r))
    return ("pred", r, x)


def parse_radix_text(text, radix):
    """Exact rational value of `text` written in `radix` (sign, digits,
    optional '.' digits), or None if it is not of that form."""
    t = text
    neg = t.startswith("-")
    if neg:
        t = t[1:]
    ip, dot, fp = t.partition(".")
    if not ip or (dot and not fp):
        return None
    if len(ip) > 1 and ip[0] == "0":
        return None
    val = Fraction(0)
    for ch in ip:
        d = DIGITS.find(ch)
        if d < 0 or d >= radix:
            return None
        val = val * radix + d
    scale = Fraction(1)
    for ch in fp:
        d = DIGITS.find(ch)
        if d < 0 or d >= radix:
            return None
        scale /= radix
        val += d * scale
    return -val if neg else val


def ulp(x):
    x = abs(x)
    if x == INF or x != x:
        return INF
    return Fraction(math.ulp(x))


def radix_text_ok(text, radix, x):
    """Validity predicate for the implementation-approximated cases: the text
    is a plain radix-`radix` numeral with the sign of x and reads back to
    within one ulp of x; a fraction carries no more digits than a double can
    hold (no runaway expansion)."""
    if not isinstance(text, str):
        return False
    v = parse_radix_text(text, radix)
    if v is None:
        return False
    if (v < 0) != (x < 0) and v != 0:
        return False
    if abs(v - Fraction(x)) > ulp(x):
        return False
    if len(text) > 1200:
        return False
    # "shortest round-tripping digits" (property text), with slack: the fraction carries at most
    # SURPLUS_DIGITS more digits than the fewest that still read back as x
    _, dot, fp = text.partition(".")
    if dot and len(fp) > SURPLUS_DIGITS:
        if len(fp) > min_fraction_digits(x, radix) + SURPLUS_DIGITS:
            return False
    return True


SURPLUS_DIGITS = 3


def min_fraction_digits(x, radix):
    """Fewest radix-`radix` fraction digits k such that some numeral with k fraction digits lies within half an
    ulp of x (so that it reads back as x).  Monotone in k, found by bisection."""
    fx = abs(Fraction(x))
    half = ulp(x) / 2

    def enough(k):
        scale = radix ** k
        m = round(fx * scale)
        return abs(Fraction(m, scale) - fx) <= half

    lo, hi = 0, 1200
    if enough(0):
        return 0
    while hi - lo > 1:
        mid = (lo + hi) // 2
        if enough(mid):
            hi = mid
        else:
            lo = mid
    return hi
