"""Reference model of ECMAScript's JSON.parse / JSON.stringify (C19).

Independent of the engine and of Python's json module.

Model values
    UNDEF (undefined), None (null), bool, float (every number), str,
    list (Array), dict (ordinary object, insertion ordered), FUNC (a function;
    when called it returns its first argument), ToJSON(result) (an object whose toJSON method returns `result`;
    with by_key=True it returns "key:" + the key it was called with).
Strings are Python str; a JavaScript string is a sequence of UTF-16 code
units, so `norm_str` maps every str to the canonical Python spelling of its
code-unit sequence (a high+low surrogate pair becomes one astral character).

parse(text)       JSON.parse(text): value or JSONSyntaxError
stringify(v, replacer, space)   JSON.stringify: str, UNDEF, or JSONTypeError (cycle)
canonical(text)   stringify(parse(text))
"""
import math

from oracles.prims import UNDEF, num_to_str


class JSONSyntaxError(Exception):
    pass


class JSONTypeError(Exception):
    pass


class _Func:
    def __repr__(self):
        return "function"


FUNC = _Func()  # the identity function: called as toJSON(key) it returns the key
OTHER_FUNC = _Func()  # some other function


class ProtoDict(dict):
    """Ordinary object (own properties = the dict) with enumerable inherited properties
    `proto`: only a property-list replacer can see those (it reads with Get)."""

    proto = {}


class ToJSON:
    """Object with a toJSON method returning `result` (by_key: "key:" + key) and further
    own properties `props`; those only show when the object is itself a toJSON result."""

    def __init__(self, result=None, by_key=False, props=None):
        self.result = result
        self.by_key = by_key
        self.as_object = {"toJSON": OTHER_FUNC}
        self.as_object.update(props or {})

    def __repr__(self):
        return "ToJSON(%r,%r)" % (self.result, self.by_key)


def norm_str(s):
    """Canonical Python str for the UTF-16 code-unit sequence of s."""
    for ch in s:
        if 0xD800 <= ord(ch) <= 0xDFFF:
            return s.encode("utf-16-le", "surrogatepass").decode("utf-16-le", "surrogatepass")
    return s


# =========================================================================
# JSON.parse

_WS = " \t\n\r"
_DIGITS = "0123456789"
_HEXD = "0123456789abcdefABCDEF"
_SHORT = {'"': '"', "\\": "\\", "/": "/", "b": "\b", "f": "\f", "n": "\n", "r": "\r", "t": "\t"}


class _Parser:
    def __init__(self, text):
        self.t = text
        self.i = 0
        self.n = len(text)

    def fail(self, why):
        raise JSONSyntaxError("%s at %d" % (why, self.i))

    def ws(self):
        t, n = self.t, self.n
        while self.i < n and t[self.i] in _WS:
            self.i += 1

    def top(self):
        self.ws()
        v = self.value()
        self.ws()
        if self.i != self.n:
            self.fail("text after the value")
        return v

    def value(self):
        if self.i >= self.n:
            self.fail("end of text")
        c = self.t[self.i]
        if c == "{":
            return self.obj()
        if c == "[":
            return self.arr()
        if c == '"':
            return self.string()
        if c == "-" or c in _DIGITS:
            return self.number()
        for word, val in (("true", True), ("false", False), ("null", None)):
            if self.t.startswith(word, self.i):
                self.i += len(word)
                return val
        self.fail("unexpected character")

    def obj(self):
        self.i += 1
        out = {}
        self.ws()
        if self.i < self.n and self.t[self.i] == "}":
            self.i += 1
            return out
        while True:
            self.ws()
            if self.i >= self.n or self.t[self.i] != '"':
                self.fail("property name expected")
            k = self.string()
            self.ws()
            if self.i >= self.n or self.t[self.i] != ":":
                self.fail("colon expected")
            self.i += 1
            self.ws()
            v = self.value()
            out[k] = v  # duplicate: last value wins, first position kept (CreateDataProperty)
            self.ws()
            if self.i >= self.n:
                self.fail("unterminated object")
            c = self.t[self.i]
            self.i += 1
            if c == "}":
                return out
            if c != ",":
                self.i -= 1
                self.fail("comma or } expected")

    def arr(self):
        self.i += 1
        out = []
        self.ws()
        if self.i < self.n and self.t[self.i] == "]":
            self.i += 1
            return out
        while True:
            self.ws()
            out.append(self.value())
            self.ws()
            if self.i >= self.n:
                self.fail("unterminated array")
            c = self.t[self.i]
            self.i += 1
            if c == "]":
                return out
            if c != ",":
                self.i -= 1
                self.fail("comma or ] expected")

    def string(self):
        t, n = self.t, self.n
        self.i += 1
        out = []
        while True:
            if self.i >= n:
                self.fail("unterminated string")
            c = t[self.i]
            self.i += 1
            if c == '"':
                return norm_str("".join(out))
            if ord(c) < 0x20:
                self.i -= 1
                self.fail("control character in string")
            if c != "\\":
                out.append(c)
                continue
            if self.i >= n:
                self.fail("unterminated escape")
            e = t[self.i]
            self.i += 1
            if e in _SHORT:
                out.append(_SHORT[e])
            elif e == "u":
                h = t[self.i : self.i + 4]
                if len(h) != 4 or any(x not in _HEXD for x in h):
                    self.fail("bad unicode escape")
                out.append(chr(int(h, 16)))
                self.i += 4
            else:
                self.i -= 1
                self.fail("bad escape")

    def number(self):
        t, n = self.t, self.n
        s = self.i
        if t[self.i] == "-":
            self.i += 1
        if self.i >= n or t[self.i] not in _DIGITS:
            self.fail("digit expected")
        if t[self.i] == "0":
            self.i += 1
        else:
            while self.i < n and t[self.i] in _DIGITS:
                self.i += 1
        if self.i < n and t[self.i] == ".":
            self.i += 1
            if self.i >= n or t[self.i] not in _DIGITS:
                self.fail("digit expected after the point")
            while self.i < n and t[self.i] in _DIGITS:
                self.i += 1
        if self.i < n and t[self.i] in "eE":
            self.i += 1
            if self.i < n and t[self.i] in "+-":
                self.i += 1
            if self.i >= n or t[self.i] not in _DIGITS:
                self.fail("digit expected in the exponent")
            while self.i < n and t[self.i] in _DIGITS:
                self.i += 1
        # the matched text is pure ASCII JSON number syntax: float() rounds it
        # correctly (overflow -> inf, underflow -> signed zero), as StringToNumber does
        return float(t[s : self.i])


def parse(text):
    return _Parser(text).top()


def accepts(text):
    try:
        parse(text)
        return True
    except JSONSyntaxError:
        return False


# =========================================================================
# JSON.stringify

def quote(s):
    """QuoteJSONString."""
    s = norm_str(s)
    out = ['"']
    for ch in s:
        o = ord(ch)
        if ch == '"':
            out.append('\\"')
        elif ch == "\\":
            out.append("\\\\")
        elif ch == "\b":
            out.append("\\b")
        elif ch == "\f":
            out.append("\\f")
        elif ch == "\n":
            out.append("\\n")
        elif ch == "\r":
            out.append("\\r")
        elif ch == "\t":
            out.append("\\t")
        elif o < 0x20 or 0xD800 <= o <= 0xDFFF:  # after norm_str a surrogate is a lone one
            out.append("\\u%04x" % o)
        else:
            out.append(ch)
    out.append('"')
    return "".join(out)


def is_array_index(k):
    """Canonical numeric string of an integer in [0, 2^32 - 2]."""
    if not k or len(k) > 10 or any(c not in _DIGITS for c in k):
        return False
    if len(k) > 1 and k[0] == "0":
        return False
    return int(k) <= 4294967294


def own_keys(d):
    """OrdinaryOwnPropertyKeys order: array indices ascending, then insertion order."""
    idx = sorted((k for k in d if is_array_index(k)), key=int)
    return idx + [k for k in d if not is_array_index(k)]


def _is_obj(v):
    return isinstance(v, (list, dict, ToJSON))


def _gap(space):
    if isinstance(space, bool):
        return ""
    if isinstance(space, float):
        if space != space:
            return ""
        n = 10 if space > 10 else (0 if space < 1 else int(space))
        return " " * n
    if isinstance(space, str):
        return space[:10]
    return ""


def _property_list(replacer):
    out = []
    for e in replacer:
        if isinstance(e, str):
            k = e
        elif isinstance(e, float) and not isinstance(e, bool):
            k = num_to_str(e)
        else:
            continue
        if k not in out:
            out.append(k)
    return out


class _State:
    def __init__(self, fn, plist, gap):
        self.fn = fn
        self.plist = plist
        self.gap = gap
        self.indent = ""
        self.stack = []


def _ser_property(st, key, holder_get):
    value = holder_get(key)
    if isinstance(value, ToJSON):
        value = ("key:" + key) if value.by_key else value.result
    elif isinstance(value, dict) and value.get("toJSON", None) is FUNC:
        value = key  # FUNC models the identity function: toJSON(key) returns the key
    if st.fn is not None:
        value = st.fn(key, value)
    if value is None:
        return "null"
    if value is True:
        return "true"
    if value is False:
        return "false"
    if isinstance(value, str):
        return quote(value)
    if isinstance(value, float):
        if value != value or value in (math.inf, -math.inf):
            return "null"
        return num_to_str(value)
    if isinstance(value, list):
        return _ser_array(st, value)
    if isinstance(value, dict):
        return _ser_object(st, value)
    if isinstance(value, ToJSON):
        # a toJSON result is not converted again: an ordinary object with a function-valued property
        return _ser_object(st, value.as_object)
    return UNDEF  # undefined, function


def _enter(st, value):
    for o in st.stack:
        if o is value:
            raise JSONTypeError("cyclic structure")
    st.stack.append(value)


def _ser_object(st, value):
    _enter(st, value)
    stepback = st.indent
    st.indent += st.gap
    keys = st.plist if st.plist is not None else own_keys(value)
    partial = []
    for k in keys:
        s = _ser_property(st, k, lambda kk: value[kk] if kk in value else getattr(value, "proto", {}).get(kk, UNDEF))
        if s is not UNDEF:
            member = quote(k) + ":"
            if st.gap:
                member += " "
            partial.append(member + s)
    if not partial:
        final = "{}"
    elif not st.gap:
        final = "{" + ",".join(partial) + "}"
    else:
        sep = ",\n" + st.indent
        final = "{\n" + st.indent + sep.join(partial) + "\n" + stepback + "}"
    st.stack.pop()
    st.indent = stepback
    return final


def _ser_array(st, value):
    _enter(st, value)
    stepback = st.indent
    st.indent += st.gap
    partial = []
    for i in range(len(value)):
        s = _ser_property(st, str(i), lambda kk: value[int(kk)])
        partial.append("null" if s is UNDEF else s)
    if not partial:
        final = "[]"
    elif not st.gap:
        final = "[" + ",".join(partial) + "]"
    else:
        sep = ",\n" + st.indent
        final = "[\n" + st.indent + sep.join(partial) + "\n" + stepback + "]"
    st.stack.pop()
    st.indent = stepback
    return final


def stringify(value, replacer=None, space=None):
    """replacer: None, a Python callable (key, value) -> value modelling a
    replacer function, or a list (property list).  space: None/float/str/other."""
    fn = plist = None
    if callable(replacer):
        fn = replacer
    elif isinstance(replacer, list):
        plist = _property_list(replacer)
    st = _State(fn, plist, _gap(space))
    return _ser_property(st, "", lambda kk: value)


def canonical(text):
    return stringify(parse(text))


# =========================================================================
# typed rendering (both for model values and for what the engine hands back)

def numkey(f):
    if f != f:
        return "NaN"
    if f == 0:
        return "-0" if math.copysign(1.0, f) < 0 else "0"
    if f in (math.inf, -math.inf):
        return "Infinity" if f > 0 else "-Infinity"
    return repr(float(f))


def typed(v, nil=False, _depth=0):
    """Model value -> typed JSON-able form.  With nil=True undefined and null
    are merged (what eval() returns cannot tell them apart)."""
    if v is UNDEF:
        return ["nil"] if nil else ["u"]
    if v is None:
        return ["nil"] if nil else ["z"]
    if v is True:
        return ["b", 1]
    if v is False:
        return ["b", 0]
    if isinstance(v, float):
        return ["n", numkey(v)]
    if isinstance(v, str):
        return ["s", norm_str(v)]
    if isinstance(v, _Func):
        return ["f"]
    if _depth > 40:
        return ["deep"]
    if isinstance(v, list):
        return ["a", [typed(x, nil, _depth + 1) for x in v]]
    if isinstance(v, dict):
        return ["o", [[norm_str(k), typed(v[k], nil, _depth + 1)] for k in own_keys(v)]]
    raise TypeError(v)
