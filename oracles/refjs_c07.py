"""Reference run of C07 programs: oracles/refjs.py plus natives for the text sites of gens/c07gen.py.

`$x_<name>()` raises what gens.c07gen.TEXT_SITES records for <name> (the constructor of the error was
recorded from node, golden/c07_raisers.json); `$cb_<name>(f)` calls f once without arguments (the
callback of these programs throws at its first invocation, so how often and with which arguments the
built-in would go on calling it does not matter).
"""
import sys

from gens import c07gen

from . import refjs
from .refjs import ThrowEx, UNDEF


def _lit(n):
    k = n[0]
    if k == "num":
        return float(n[1])
    if k == "str":
        return n[1]
    raise refjs.Unmodelled("literal %r" % (k,))


def install_sites(it):
    g = it.genv.vars
    for name, (_text, what) in c07gen.TEXT_SITES.items():
        def native(it_, this, args, what=what):
            it.tick()
            if what[0] == "error":
                it.throw(what[1], "<implementation-defined>")
            if what[0] == "prim":
                raise ThrowEx(_lit(what[1]))
            if what[0] == "callglobal":
                f = g.get(what[1])
                return it.call(f, UNDEF, [])
            if what[0] == "callglobal-logged":
                f = g.get(what[1])
                try:
                    return it.call(f, UNDEF, [])
                except ThrowEx:
                    it.log.append((what[2], it.norm(0.0)))
                    raise
            raise refjs.Unmodelled(what[0])

        g["$x_" + name] = it.native("$x_" + name, native, 0)
    for name in c07gen.TEXT_CALLBACKS:
        def native_cb(it_, this, args):
            it.tick()
            f = args[0] if args else UNDEF
            it.call(f, UNDEF, [])
            raise refjs.Unmodelled("text callback returned: its built-in is not modelled beyond the first call")

        g["$cb_" + name] = it.native("$cb_" + name, native_cb, 1)


def run(prog, step_limit=200000):
    """-> same shape as checks.proglib.run_ref."""
    from checks import proglib

    body = prog["body"] if isinstance(prog, dict) else prog
    if sys.getrecursionlimit() < 20000:
        sys.setrecursionlimit(20000)
    it = refjs.Interp(step_limit=step_limit)
    install_sites(it)
    desc = prog.get("desc") if isinstance(prog, dict) else None
    if desc and desc.get("site") == "dyn":
        # a raising call found in the engine at run time: it raises an error of the recorded constructor
        ctor = desc["ctor"]
        it.genv.vars["$x_dyn"] = it.native("$x_dyn", lambda it_, this, args: it.throw(ctor, "<implementation-defined>"), 0)
    try:
        res = it.run_program(body)
    except refjs.Budget as e:
        return {"unmodelled": "budget: %s" % e}
    except refjs.Unmodelled as e:
        return {"unmodelled": str(e)}
    if res[0] == "value":
        res = ["value", proglib.n_for_result(res[1])]
    else:
        res = ["throw", res[1]]
    return {"log": [[t, v] for t, v in it.log], "result": res, "steps": it.steps}
