"""The built-ins generated programs may call, for oracles/refjs.py.

log(tag, value); Object (keys values entries create getPrototypeOf
setPrototypeOf defineProperty assign getOwnPropertyNames) and
Object.prototype (hasOwnProperty isPrototypeOf toString valueOf __proto__);
Function.prototype (call apply bind); Array, Array.isArray and Array.prototype
(forEach map filter reduce reduceRight some every find findIndex sort push pop
shift unshift slice splice concat join indexOf lastIndexOf includes reverse
toString); Error and the native error constructors; String / Number / Boolean
as conversion functions plus a few String/Number prototype methods;
JSON.stringify on plain data; Math.floor/abs/max/min; isNaN.

All algorithms follow ECMAScript for dense arrays (where the specification
would create a hole the documented "no holes" substitute `undefined` is used).
"""
import functools
import math

from . import prims as P
from .refjs import JSArr, JSFunc, JSObj, NEW, Prop, ThrowEx, Unmodelled, array_index

UNDEF = P.UNDEF


def arg(args, i):
    return args[i] if i < len(args) else UNDEF


def install(it):
    g = it.genv.vars
    OP, FP, AP = it.ObjectProto, it.FunctionProto, it.ArrayProto

    def defn(o, name, fn, length=0):
        o.props[name] = Prop(it.native(name, fn, length), enum=False)

    # ------------------------------------------------------------------ log
    def log(it_, this, args):
        tag = arg(args, 0)
        it.log.append((tag if isinstance(tag, str) else P.to_string(it.to_primitive(tag)), it.norm(arg(args, 1))))
        return UNDEF

    g["log"] = it.native("log", log, 2)

    # --------------------------------------------------------------- helpers
    def need_obj(v, what):
        if not isinstance(v, JSObj):
            it.throw("TypeError", what + " called on non-object")
        return v

    def need_callable(f):
        if not isinstance(f, JSFunc):
            it.throw("TypeError", "callback is not a function")
        return f

    def this_array(this, name):
        if not isinstance(this, JSArr) or this.is_args:
            if this is UNDEF or this is None:
                it.throw("TypeError", "Array.prototype.%s called on null or undefined" % name)
            raise Unmodelled("Array.prototype.%s on a non-array" % name)
        return this

    def rel_index(v, n, default):
        if v is UNDEF:
            return default
        r = P.to_integer_or_inf(it.to_number(v))
        if r < 0:
            return max(n + r, 0) if r != -math.inf else 0
        return min(r, n)

    def same_value_zero(a, b):
        if isinstance(a, float) and isinstance(b, float):
            return a == b or (a != a and b != b)
        return strict_eq(a, b)

    def strict_eq(a, b):
        if isinstance(a, JSObj) or isinstance(b, JSObj):
            return a is b
        return P.strict_equals(a, b)

    # ----------------------------------------------------------------- Object
    def object_ctor(it_, this, args):
        v = arg(args, 0)
        if isinstance(v, JSObj):
            return v
        if v is UNDEF or v is None:
            return it.new_object()
        raise Unmodelled("Object(primitive): boxing")

    Object = it.native("Object", object_ctor, 1, ctor=True)
    Object.props["prototype"] = Prop(OP, enum=False)
    OP.props["constructor"] = Prop(Object, enum=False)
    g["Object"] = Object

    def own_enum_keys(o):
        if isinstance(o, str):
            return [str(i) for i in range(len(P._code_units(o)))]
        if not isinstance(o, JSObj):
            if o is UNDEF or o is None:
                it.throw("TypeError", "Cannot convert undefined or null to object")
            return []
        return [k for k in it.own_keys(o) if not (k in o.props and not o.props[k].enum)]

    def o_keys(it_, this, args):
        return it.new_array(list(own_enum_keys(arg(args, 0))))

    def o_values(it_, this, args):
        o = arg(args, 0)
        return it.new_array([it.get(o, k) for k in own_enum_keys(o)])

    def o_entries(it_, this, args):
        o = arg(args, 0)
        return it.new_array([it.new_array([k, it.get(o, k)]) for k in own_enum_keys(o)])

    def to_descriptor(d):
        need_obj(d, "property descriptor")
        p = Prop(enum=False)
        if it.has_property(d, "enumerable"):
            p.enum = it.to_boolean(it.get(d, "enumerable"))
        has_val = it.has_property(d, "value") or it.has_property(d, "writable")
        if it.has_property(d, "value"):
            p.value = it.get(d, "value")
        if it.has_property(d, "get"):
            f = it.get(d, "get")
            if f is not UNDEF:
                p.get = need_callable(f)
            else:
                p.get = None
        if it.has_property(d, "set"):
            f = it.get(d, "set")
            if f is not UNDEF:
                p.set = need_callable(f)
        if (it.has_property(d, "get") or it.has_property(d, "set")) and has_val:
            it.throw("TypeError", "Invalid property descriptor")
        return p

    def define_own(o, key, p, acc_fields):
        if isinstance(o, JSArr) and (array_index(key) is not None or key == "length"):
            raise Unmodelled("defineProperty on array index")
        old = o.props.get(key)
        if old is None:
            o.props[key] = p
            return
        # documented: every property is writable/enumerable/configurable
        if acc_fields:
            if old.accessor:
                if "get" in acc_fields:
                    old.get = p.get
                if "set" in acc_fields:
                    old.set = p.set
                old.enum = p.enum if acc_fields.get("enum") else old.enum
            else:
                o.props[key] = Prop(get=p.get, set=p.set, enum=old.enum)
        else:
            if old.accessor:
                o.props[key] = Prop(p.value, enum=old.enum)
            else:
                old.value = p.value

    def o_define_property(it_, this, args):
        o = need_obj(arg(args, 0), "Object.defineProperty")
        key = it.to_key(arg(args, 1))
        d = arg(args, 2)
        p = to_descriptor(d)
        fields = {}
        if it.has_property(d, "get"):
            fields["get"] = 1
        if it.has_property(d, "set"):
            fields["set"] = 1
        define_own(o, key, p, fields)
        if key in o.props and it.has_property(d, "enumerable"):
            o.props[key].enum = p.enum
        return o

    def o_create(it_, this, args):
        proto = arg(args, 0)
        if proto is not None and not isinstance(proto, JSObj):
            it.throw("TypeError", "Object prototype may only be an Object or null")
        o = JSObj(proto)
        props = arg(args, 1)
        if props is not UNDEF:
            need_obj(props, "Object.create descriptors")
            for k in own_enum_keys(props):
                d = it.get(props, k)
                p = to_descriptor(d)
                o.props[k] = p
        return o

    def o_get_proto(it_, this, args):
        v = arg(args, 0)
        if isinstance(v, JSObj):
            return v.proto
        if v is UNDEF or v is None:
            it.throw("TypeError", "Cannot convert undefined or null to object")
        return it.proto_of_prim(v)

    def set_proto_checked(o, proto):
        p = proto
        while p is not None:
            if p is o:
                it.throw("TypeError", "Cyclic __proto__ value")
            p = p.proto
        o.proto = proto

    def o_set_proto(it_, this, args):
        o, proto = arg(args, 0), arg(args, 1)
        if o is UNDEF or o is None:
            it.throw("TypeError", "Object.setPrototypeOf called on null or undefined")
        if proto is not None and not isinstance(proto, JSObj):
            it.throw("TypeError", "Object prototype may only be an Object or null")
        if isinstance(o, JSObj):
            set_proto_checked(o, proto)
        return o

    def o_assign(it_, this, args):
        t = arg(args, 0)
        if t is UNDEF or t is None:
            it.throw("TypeError", "Cannot convert undefined or null to object")
        for s in args[1:]:
            if s is UNDEF or s is None:
                continue
            for k in own_enum_keys(s):
                it.put(t, k, it.get(s, k))
        return t

    def o_own_names(it_, this, args):
        o = arg(args, 0)
        if isinstance(o, JSObj):
            ks = it.own_keys(o, only_enum=False)
            if isinstance(o, JSArr):
                ks = ks + ["length"] if "length" not in ks else ks
            return it.new_array(ks)
        return it.new_array(own_enum_keys(o))

    for name, f, n in [
        ("keys", o_keys, 1), ("values", o_values, 1), ("entries", o_entries, 1), ("create", o_create, 2),
        ("getPrototypeOf", o_get_proto, 1), ("setPrototypeOf", o_set_proto, 2),
        ("defineProperty", o_define_property, 3), ("assign", o_assign, 2), ("getOwnPropertyNames", o_own_names, 1),
    ]:
        defn(Object, name, f, n)

    def op_has_own(it_, this, args):
        key = it.to_key(arg(args, 0))
        if isinstance(this, JSObj):
            return it.get_own(this, key) is not None
        if this is UNDEF or this is None:
            it.throw("TypeError", "Cannot convert undefined or null to object")
        if isinstance(this, str):
            i = array_index(key)
            return key == "length" or (i is not None and i < len(P._code_units(this)))
        return False

    def op_is_proto_of(it_, this, args):
        v = arg(args, 0)
        if not isinstance(v, JSObj):
            return False
        o = v.proto
        while o is not None:
            if o is this:
                return True
            o = o.proto
        return False

    def op_to_string(it_, this, args):
        if this is UNDEF:
            return "[object Undefined]"
        if this is None:
            return "[object Null]"
        if isinstance(this, JSArr) and not this.is_args:
            return "[object Array]"
        if isinstance(this, JSFunc):
            return "[object Function]"
        if isinstance(this, JSObj):
            return "[object %s]" % ("Error" if this.cls == "Error" else "Arguments" if this.cls == "Arguments" else "Object")
        return "[object %s]" % {"string": "String", "number": "Number", "boolean": "Boolean"}[P.typeof(this)]

    def op_value_of(it_, this, args):
        if this is UNDEF or this is None:
            it.throw("TypeError", "Cannot convert undefined or null to object")
        return this

    defn(OP, "hasOwnProperty", op_has_own, 1)
    defn(OP, "isPrototypeOf", op_is_proto_of, 1)
    defn(OP, "toString", op_to_string, 0)
    defn(OP, "valueOf", op_value_of, 0)

    def proto_get(it_, this, args):
        if isinstance(this, JSObj):
            return this.proto
        if this is UNDEF or this is None:
            it.throw("TypeError", "Cannot convert undefined or null to object")
        return it.proto_of_prim(this)

    def proto_set(it_, this, args):
        v = arg(args, 0)
        if this is UNDEF or this is None:
            it.throw("TypeError", "Cannot convert undefined or null to object")
        if isinstance(this, JSObj) and (v is None or isinstance(v, JSObj)):
            set_proto_checked(this, v)
        return UNDEF

    OP.props["__proto__"] = Prop(get=it.native("get __proto__", proto_get), set=it.native("set __proto__", proto_set, 1), enum=False)

    # ---------------------------------------------------------------- Function
    def function_ctor(it_, this, args):
        raise Unmodelled("Function constructor")

    Function = it.native("Function", function_ctor, 1, ctor=True)
    Function.props["prototype"] = Prop(FP, enum=False)
    FP.props["constructor"] = Prop(Function, enum=False)
    FP.props["length"] = Prop(0.0, enum=False)
    FP.props["name"] = Prop("", enum=False)
    g["Function"] = Function

    def array_like_list(v):
        if v is UNDEF or v is None:
            return []
        if isinstance(v, JSArr):
            return list(v.elems)
        if isinstance(v, JSObj):
            n = P.to_integer_or_inf(it.to_number(it.get(v, "length")))
            n = 0 if n < 0 else int(min(n, 10000))
            return [it.get(v, str(i)) for i in range(n)]
        it.throw("TypeError", "CreateListFromArrayLike called on non-object")

    def f_call(it_, this, args):
        need_callable(this)
        return it.call(this, arg(args, 0), list(args[1:]))

    def f_apply(it_, this, args):
        need_callable(this)
        return it.call(this, arg(args, 0), array_like_list(arg(args, 1)))

    def f_bind(it_, this, args):
        need_callable(this)
        b = JSFunc(FP)
        b.kind = "bound"
        b.target = this
        b.bound_this = arg(args, 0)
        b.bound_args = tuple(args[1:])
        b.ctor = this.ctor
        ln = it.get(this, "length")
        ln = max(0.0, ln - len(b.bound_args)) if isinstance(ln, float) else 0.0
        nm = it.get(this, "name")
        b.props["length"] = Prop(ln, enum=False)
        b.props["name"] = Prop("bound " + (nm if isinstance(nm, str) else ""), enum=False)
        return b

    def f_to_string(it_, this, args):
        raise Unmodelled("Function.prototype.toString (implementation-defined text)")

    defn(FP, "call", f_call, 1)
    defn(FP, "apply", f_apply, 2)
    defn(FP, "bind", f_bind, 1)
    defn(FP, "toString", f_to_string, 0)

    # ------------------------------------------------------------------- Array
    def array_ctor(it_, this, args):
        if len(args) == 1 and isinstance(args[0], float):
            n = args[0]
            if n < 0 or n != math.floor(n) or n >= 2 ** 32:
                it.throw("RangeError", "Invalid array length")
            return it.new_array([UNDEF] * int(n))
        return it.new_array(list(args))

    Array = it.native("Array", array_ctor, 1, ctor=True)
    Array.props["prototype"] = Prop(AP, enum=False)
    AP.props["constructor"] = Prop(Array, enum=False)
    g["Array"] = Array
    defn(Array, "isArray", lambda it_, this, args: isinstance(arg(args, 0), JSArr) and not arg(args, 0).is_args, 1)

    def a_push(it_, this, args):
        a = this_array(this, "push")
        a.elems.extend(args)
        return float(len(a.elems))

    def a_pop(it_, this, args):
        a = this_array(this, "pop")
        return a.elems.pop() if a.elems else UNDEF

    def a_shift(it_, this, args):
        a = this_array(this, "shift")
        return a.elems.pop(0) if a.elems else UNDEF

    def a_unshift(it_, this, args):
        a = this_array(this, "unshift")
        a.elems[0:0] = list(args)
        return float(len(a.elems))

    def join_elems(a, sep, seen):
        if id(a) in seen:
            return ""
        seen = seen | {id(a)}
        out = []
        i = 0
        while i < len(a.elems):
            v = a.elems[i]
            if v is UNDEF or v is None:
                out.append("")
            elif isinstance(v, JSArr) and not v.is_args and it.get(v, "toString") is AP.props["toString"].value and it.get(v, "join") is AP.props["join"].value:
                out.append(join_elems(v, ",", seen))
            else:
                out.append(it.to_string(v))
            i += 1
        return sep.join(out)

    def a_join(it_, this, args):
        a = this_array(this, "join")
        sep = arg(args, 0)
        sep = "," if sep is UNDEF else it.to_string(sep)
        return join_elems(a, sep, frozenset())

    def a_to_string(it_, this, args):
        if isinstance(this, JSArr) and not this.is_args:
            j = it.get(this, "join")
            if isinstance(j, JSFunc):
                return it.call(j, this, [])
        return op_to_string(it, this, [])

    def a_concat(it_, this, args):
        a = this_array(this, "concat")
        out = list(a.elems)
        for x in args:
            if isinstance(x, JSArr) and not x.is_args:
                out.extend(x.elems)
            else:
                out.append(x)
        return it.new_array(out)

    def a_slice(it_, this, args):
        a = this_array(this, "slice")
        n = len(a.elems)
        k = rel_index(arg(args, 0), n, 0)
        e = rel_index(arg(args, 1), n, n)
        return it.new_array(a.elems[int(k):int(e)] if k < e else [])

    def a_splice(it_, this, args):
        a = this_array(this, "splice")
        n = len(a.elems)
        start = int(rel_index(arg(args, 0), n, 0))
        if len(args) == 0:
            dc = 0
        elif len(args) == 1:
            dc = n - start
        else:
            d = P.to_integer_or_inf(it.to_number(args[1]))
            dc = int(min(max(d, 0), n - start))
        removed = a.elems[start : start + dc]
        a.elems[start : start + dc] = list(args[2:])
        return it.new_array(removed)

    def a_reverse(it_, this, args):
        a = this_array(this, "reverse")
        a.elems.reverse()
        return a

    def a_index_of(it_, this, args):
        a = this_array(this, "indexOf")
        n = len(a.elems)
        if n == 0:
            return -1.0
        k = P.to_integer_or_inf(it.to_number(arg(args, 1))) if len(args) > 1 else 0
        if k >= n:
            return -1.0
        k = int(k) if k >= 0 else int(max(n + k, 0)) if k != -math.inf else 0
        x = arg(args, 0)
        while k < len(a.elems):
            if strict_eq(a.elems[k], x):
                return float(k)
            k += 1
        return -1.0

    def a_last_index_of(it_, this, args):
        a = this_array(this, "lastIndexOf")
        n = len(a.elems)
        if n == 0:
            return -1.0
        k = P.to_integer_or_inf(it.to_number(args[1])) if len(args) > 1 else n - 1
        if k == -math.inf:
            return -1.0
        k = int(min(k, n - 1)) if k >= 0 else int(n + k)
        x = arg(args, 0)
        while k >= 0:
            if k < len(a.elems) and strict_eq(a.elems[k], x):
                return float(k)
            k -= 1
        return -1.0

    def a_includes(it_, this, args):
        a = this_array(this, "includes")
        n = len(a.elems)
        if n == 0:
            return False
        k = P.to_integer_or_inf(it.to_number(arg(args, 1))) if len(args) > 1 else 0
        if k >= n:
            return False
        k = int(k) if k >= 0 else int(max(n + k, 0)) if k != -math.inf else 0
        x = arg(args, 0)
        while k < n:
            v = a.elems[k] if k < len(a.elems) else UNDEF
            if same_value_zero(v, x):
                return True
            k += 1
        return False

    def each(name, this, args):
        """(array, callback, thisArg, frozen length) per the common prologue."""
        a = this_array(this, name)
        n = len(a.elems)
        f = need_callable(arg(args, 0))
        return a, f, arg(args, 1), n

    def a_for_each(it_, this, args):
        a, f, t, n = each("forEach", this, args)
        k = 0
        while k < n:
            if k < len(a.elems):
                it.call(f, t, [a.elems[k], float(k), a])
            k += 1
        return UNDEF

    def a_map(it_, this, args):
        a, f, t, n = each("map", this, args)
        out = [UNDEF] * n
        k = 0
        while k < n:
            if k < len(a.elems):
                out[k] = it.call(f, t, [a.elems[k], float(k), a])
            k += 1
        return it.new_array(out)

    def a_filter(it_, this, args):
        a, f, t, n = each("filter", this, args)
        out = []
        k = 0
        while k < n:
            if k < len(a.elems):
                v = a.elems[k]
                if it.to_boolean(it.call(f, t, [v, float(k), a])):
                    out.append(v)
            k += 1
        return it.new_array(out)

    def a_some(it_, this, args):
        a, f, t, n = each("some", this, args)
        k = 0
        while k < n:
            if k < len(a.elems) and it.to_boolean(it.call(f, t, [a.elems[k], float(k), a])):
                return True
            k += 1
        return False

    def a_every(it_, this, args):
        a, f, t, n = each("every", this, args)
        k = 0
        while k < n:
            if k < len(a.elems) and not it.to_boolean(it.call(f, t, [a.elems[k], float(k), a])):
                return False
            k += 1
        return True

    def finder(name, want_index):
        def fn_(it_, this, args):
            a, f, t, n = each(name, this, args)
            k = 0
            while k < n:
                v = a.elems[k] if k < len(a.elems) else UNDEF
                if it.to_boolean(it.call(f, t, [v, float(k), a])):
                    return float(k) if want_index else v
                k += 1
            return -1.0 if want_index else UNDEF

        return fn_

    def reducer(name, right):
        def fn_(it_, this, args):
            a = this_array(this, name)
            n = len(a.elems)
            f = need_callable(arg(args, 0))
            ks = list(range(n - 1, -1, -1)) if right else list(range(n))
            pos = 0
            if len(args) >= 2:
                acc = args[1]
            else:
                if n == 0:
                    it.throw("TypeError", "Reduce of empty array with no initial value")
                acc = a.elems[ks[0]]
                pos = 1
            while pos < len(ks):
                k = ks[pos]
                if k < len(a.elems):
                    acc = it.call(f, UNDEF, [acc, a.elems[k], float(k), a])
                pos += 1
            return acc

        return fn_

    def a_sort(it_, this, args):
        a = this_array(this, "sort")
        cmp = arg(args, 0)
        if cmp is not UNDEF:
            need_callable(cmp)
        items = list(a.elems)
        undefs = [x for x in items if x is UNDEF]
        vals = [x for x in items if x is not UNDEF]

        def compare(x, y):
            if cmp is not UNDEF:
                r = it.to_number(it.call(cmp, UNDEF, [x, y]))
                return 0 if r != r else (-1 if r < 0 else 1 if r > 0 else 0)
            xs, ys = it.to_string(x), it.to_string(y)
            if xs == ys:
                return 0
            return -1 if P._code_units(xs) < P._code_units(ys) else 1

        vals.sort(key=functools.cmp_to_key(compare))  # stable, like ES2019+
        a.elems[:] = vals + undefs
        return a

    for name, f, n in [
        ("push", a_push, 1), ("pop", a_pop, 0), ("shift", a_shift, 0), ("unshift", a_unshift, 1), ("join", a_join, 1),
        ("toString", a_to_string, 0), ("concat", a_concat, 1), ("slice", a_slice, 2), ("splice", a_splice, 2),
        ("reverse", a_reverse, 0), ("indexOf", a_index_of, 1), ("lastIndexOf", a_last_index_of, 1),
        ("includes", a_includes, 1), ("forEach", a_for_each, 1), ("map", a_map, 1), ("filter", a_filter, 1),
        ("some", a_some, 1), ("every", a_every, 1), ("find", finder("find", False), 1),
        ("findIndex", finder("findIndex", True), 1), ("reduce", reducer("reduce", False), 1),
        ("reduceRight", reducer("reduceRight", True), 1), ("sort", a_sort, 1),
    ]:
        defn(AP, name, f, n)

    # ------------------------------------------------------------------ errors
    def make_error_ctor(name, parent_proto):
        proto = JSObj(parent_proto)

        def ctor(it_, this, args):
            o = JSObj(proto)
            o.cls = "Error"
            m = arg(args, 0)
            if m is not UNDEF:
                o.props["message"] = Prop(it.to_string(m), enum=False)
            return o

        c = it.native(name, ctor, 1, ctor=True)
        c.props["prototype"] = Prop(proto, enum=False)
        proto.props["constructor"] = Prop(c, enum=False)
        proto.props["name"] = Prop(name, enum=False)
        proto.props["message"] = Prop("", enum=False)
        g[name] = c
        return c, proto

    Error, EP = make_error_ctor("Error", OP)

    def e_to_string(it_, this, args):
        need_obj(this, "Error.prototype.toString")
        n = it.get(this, "name")
        n = "Error" if n is UNDEF else it.to_string(n)
        m = it.get(this, "message")
        m = "" if m is UNDEF else it.to_string(m)
        if not n:
            return m
        if not m:
            return n
        return n + ": " + m

    defn(EP, "toString", e_to_string, 0)
    for nm in ("TypeError", "RangeError", "ReferenceError", "SyntaxError", "EvalError", "URIError"):
        c, _ = make_error_ctor(nm, EP)
        c.proto = Error

    # --------------------------------------------------- String / Number / Boolean
    def string_fn(it_, this, args):
        if this is NEW:
            raise Unmodelled("new String: boxing")
        return "" if not args else it.to_string(args[0])

    def number_fn(it_, this, args):
        if this is NEW:
            raise Unmodelled("new Number: boxing")
        return 0.0 if not args else it.to_number(args[0])

    def boolean_fn(it_, this, args):
        if this is NEW:
            raise Unmodelled("new Boolean: boxing")
        return it.to_boolean(arg(args, 0))

    for nm, f, proto in (("String", string_fn, it.StringProto), ("Number", number_fn, it.NumberProto), ("Boolean", boolean_fn, it.BooleanProto)):
        c = it.native(nm, f, 1, ctor=True)
        c.props["prototype"] = Prop(proto, enum=False)
        proto.props["constructor"] = Prop(c, enum=False)
        g[nm] = c

    def this_str(this, name):
        if not isinstance(this, str):
            if this is UNDEF or this is None:
                it.throw("TypeError", "String.prototype.%s called on null or undefined" % name)
            return it.to_string(this)
        return this

    def units(s):
        return P._code_units(s)

    from .refjs import _from_units

    def s_char_at(it_, this, args):
        s = units(this_str(this, "charAt"))
        i = P.to_integer_or_inf(it.to_number(arg(args, 0)))
        return _from_units(s[int(i) : int(i) + 1]) if 0 <= i < len(s) else ""

    def s_char_code_at(it_, this, args):
        s = units(this_str(this, "charCodeAt"))
        i = P.to_integer_or_inf(it.to_number(arg(args, 0)))
        return float(s[int(i)]) if 0 <= i < len(s) else math.nan

    def s_index_of(it_, this, args):
        s = this_str(this, "indexOf")
        t = it.to_string(arg(args, 0))
        p = P.to_integer_or_inf(it.to_number(arg(args, 1)))
        p = int(min(max(p, 0), len(s)))
        if not s.isascii() or not t.isascii():
            raise Unmodelled("non-ASCII indexOf")
        return float(s.find(t, p))

    def s_slice(it_, this, args):
        s = units(this_str(this, "slice"))
        n = len(s)
        k = rel_index(arg(args, 0), n, 0)
        e = rel_index(arg(args, 1), n, n)
        return _from_units(s[int(k) : int(e)]) if k < e else ""

    def s_upper(it_, this, args):
        s = this_str(this, "toUpperCase")
        return "".join(c.upper() if "a" <= c <= "z" else c for c in s)

    def s_lower(it_, this, args):
        s = this_str(this, "toLowerCase")
        return "".join(c.lower() if "A" <= c <= "Z" else c for c in s)

    def s_concat(it_, this, args):
        s = this_str(this, "concat")
        return s + "".join(it.to_string(a) for a in args)

    def s_split(it_, this, args):
        s = this_str(this, "split")
        sep = arg(args, 0)
        if sep is UNDEF:
            return it.new_array([s])
        if isinstance(sep, JSObj):
            raise Unmodelled("split with a non-string separator")
        sep = it.to_string(sep)
        if not s.isascii():
            raise Unmodelled("non-ASCII split")
        if sep == "":
            return it.new_array(list(s))
        return it.new_array(s.split(sep))

    def s_to_string(it_, this, args):
        if not isinstance(this, str):
            it.throw("TypeError", "String.prototype.toString requires that 'this' be a String")
        return this

    for name, f, n in [
        ("charAt", s_char_at, 1), ("charCodeAt", s_char_code_at, 1), ("indexOf", s_index_of, 1), ("slice", s_slice, 2),
        ("toUpperCase", s_upper, 0), ("toLowerCase", s_lower, 0), ("concat", s_concat, 1), ("split", s_split, 2),
        ("toString", s_to_string, 0), ("valueOf", s_to_string, 0),
    ]:
        defn(it.StringProto, name, f, n)

    def n_to_string(it_, this, args):
        if not isinstance(this, float):
            it.throw("TypeError", "Number.prototype.toString requires that 'this' be a Number")
        r = arg(args, 0)
        if r is not UNDEF and it.to_number(r) != 10:
            raise Unmodelled("toString with a radix")
        return P.num_to_str(this)

    def n_value_of(it_, this, args):
        if not isinstance(this, float):
            it.throw("TypeError", "Number.prototype.valueOf requires that 'this' be a Number")
        return this

    defn(it.NumberProto, "toString", n_to_string, 1)
    defn(it.NumberProto, "valueOf", n_value_of, 0)

    def b_to_string(it_, this, args):
        if not isinstance(this, bool):
            it.throw("TypeError", "Boolean.prototype.toString requires that 'this' be a Boolean")
        return "true" if this else "false"

    defn(it.BooleanProto, "toString", b_to_string, 0)
    defn(it.BooleanProto, "valueOf", lambda it_, this, args: this if isinstance(this, bool) else it.throw("TypeError", "not a boolean"), 0)

    # -------------------------------------------------------------------- JSON
    def quote(s):
        out = ['"']
        for ch in s:
            o = ord(ch)
            if ch == '"':
                out.append('\\"')
            elif ch == "\\":
                out.append("\\\\")
            elif ch == "\n":
                out.append("\\n")
            elif ch == "\r":
                out.append("\\r")
            elif ch == "\t":
                out.append("\\t")
            elif ch == "\b":
                out.append("\\b")
            elif ch == "\f":
                out.append("\\f")
            elif o < 0x20 or 0xD800 <= o <= 0xDFFF:
                out.append("\\u%04x" % o)
            else:
                out.append(ch)
        out.append('"')
        return "".join(out)

    def ser(v, stack):
        if isinstance(v, JSObj) and not isinstance(v, JSFunc):
            tj = it.get(v, "toJSON")
            if isinstance(tj, JSFunc):
                raise Unmodelled("toJSON")
        if v is None:
            return "null"
        if v is True:
            return "true"
        if v is False:
            return "false"
        if isinstance(v, str):
            return quote(v)
        if isinstance(v, float):
            return P.num_to_str(v) if v == v and abs(v) != math.inf else "null"
        if v is UNDEF or isinstance(v, JSFunc):
            return None
        if id(v) in stack:
            it.throw("TypeError", "Converting circular structure to JSON")
        stack = stack | {id(v)}
        if isinstance(v, JSArr) and not v.is_args:
            parts = []
            for x in v.elems:
                r = ser(x, stack)
                parts.append("null" if r is None else r)
            return "[" + ",".join(parts) + "]"
        parts = []
        for k in own_enum_keys(v):
            r = ser(it.get(v, k), stack)
            if r is not None:
                parts.append(quote(k) + ":" + r)
        return "{" + ",".join(parts) + "}"

    def json_stringify(it_, this, args):
        if len(args) > 1 and (args[1] is not UNDEF and args[1] is not None or len(args) > 2 and args[2] is not UNDEF):
            raise Unmodelled("JSON.stringify replacer/indent")
        r = ser(arg(args, 0), frozenset())
        return UNDEF if r is None else r

    JSON = it.new_object()
    defn(JSON, "stringify", json_stringify, 3)
    g["JSON"] = JSON

    # -------------------------------------------------------------------- Math
    Math = it.new_object()

    def m_floor(it_, this, args):
        x = it.to_number(arg(args, 0))
        if x != x or abs(x) == math.inf or x == 0:
            return x
        return float(math.floor(x))

    def m_abs(it_, this, args):
        return abs(it.to_number(arg(args, 0)))

    def m_minmax(is_max):
        def fn_(it_, this, args):
            vals = [it.to_number(a) for a in args]
            if not vals:
                return -math.inf if is_max else math.inf
            r = vals[0]
            for v in vals:
                if v != v:
                    return math.nan
            for v in vals[1:]:
                if is_max:
                    if v > r or (v == 0 and r == 0 and math.copysign(1, v) > 0):
                        r = v
                else:
                    if v < r or (v == 0 and r == 0 and math.copysign(1, v) < 0):
                        r = v
            return r

        return fn_

    defn(Math, "floor", m_floor, 1)
    defn(Math, "abs", m_abs, 1)
    defn(Math, "max", m_minmax(True), 2)
    defn(Math, "min", m_minmax(False), 2)
    g["Math"] = Math

    def is_nan(it_, this, args):
        x = it.to_number(arg(args, 0))
        return x != x

    g["isNaN"] = it.native("isNaN", is_nan, 1)
