"""Reference interpreter for the program IR of gens/progs.py (DESIGN 3.3).

A direct tree-walking interpreter implementing ECMAScript strict-mode
semantics for exactly that IR, under the documented restrictions of
/repo/spec.md (for-in visits own keys only, arrays have no holes: a write past
the end is a script error).  Independent of the engine; primitives and
operators on primitives come from oracles/prims.py.

    out = run(prog_or_body, step_limit=200000)
    out.log        [(tag, N), ...]   ordered effect log written through log(tag, v)
    out.result     ("value", N) | ("throw", description dict)
    out.steps      evaluation steps used

N (normal form of a value, also produced for the engine side by
checks/proglib.py):  ["u"] ["null"] ["b",0|1] ["n",key] ["s",str] ["a",[N..]]
["o",[[k,N]..]] ["fn"] ["deep"].

Raises Budget (step / call-depth limit: the generators promise terminating
programs) or Unmodelled (construct outside what this model defines).

Values: prims.UNDEF, None (null), bool, float, str, JSObj (JSArr, JSFunc).
Abrupt completions are Python exceptions (BreakEx, ContinueEx, ReturnEx,
ThrowEx); statement execution returns the ES completion value or EMPTY.
"""
import math
import sys

from gens.progs import children

from . import prims as P

UNDEF = P.UNDEF


class _Empty:
    def __repr__(self):
        return "empty"


EMPTY = _Empty()


class Budget(Exception):
    """Step or depth budget exhausted."""


class Unmodelled(Exception):
    """The program uses something this reference does not define."""


class BreakEx(Exception):
    def __init__(self, label):
        self.label = label
        self.value = EMPTY


class ContinueEx(Exception):
    def __init__(self, label):
        self.label = label
        self.value = EMPTY


class ReturnEx(Exception):
    def __init__(self, value):
        self.value = value


class ThrowEx(Exception):
    def __init__(self, value):
        self.value = value


# ------------------------------------------------------------------ object model
class Prop:
    __slots__ = ("value", "get", "set", "enum")

    def __init__(self, value=UNDEF, get=None, set=None, enum=True):
        self.value = value
        self.get = get
        self.set = set
        self.enum = enum

    @property
    def accessor(self):
        return self.get is not None or self.set is not None


class JSObj:
    cls = "Object"

    def __init__(self, proto):
        self.props = {}
        self.proto = proto
        self.internal = False  # runtime error created by the interpreter itself

    def __repr__(self):
        return "<%s %s>" % (self.cls, list(self.props))


class JSArr(JSObj):
    cls = "Array"

    def __init__(self, proto, elems=None):
        JSObj.__init__(self, proto)
        self.elems = elems if elems is not None else []
        self.is_args = False


class JSFunc(JSObj):
    cls = "Function"

    def __init__(self, proto):
        JSObj.__init__(self, proto)
        self.kind = "fn"  # fn | arrow | method | native | bound
        self.params = ()
        self.body = None
        self.is_expr = False
        self.env = None
        self.native = None
        self.ctor = False
        self.target = None
        self.bound_this = UNDEF
        self.bound_args = ()
        self.info = None


class Env:
    __slots__ = ("vars", "parent", "has_this", "this_val", "args_obj", "immutable")

    def __init__(self, parent):
        self.vars = {}
        self.parent = parent
        self.has_this = False
        self.this_val = UNDEF
        self.args_obj = None
        self.immutable = None


def is_obj(v):
    return isinstance(v, JSObj)


def is_callable(v):
    return isinstance(v, JSFunc)


def array_index(key):
    """Canonical array index of a property key string, or None."""
    if key and (key == "0" or (key[0] != "0" and key.isdigit())) and key.isascii():
        n = int(key)
        if n < 4294967295:
            return n
    return None


class FnInfo:
    __slots__ = ("var_names", "fdecls", "uses_args")


class Outcome:
    def __init__(self, log, result, steps):
        self.log = log
        self.result = result
        self.steps = steps

    def as_json(self):
        return {"log": [[t, v] for t, v in self.log], "result": list(self.result)}


# --------------------------------------------------------------------- interpreter
class Interp:
    MAX_DEPTH = 150

    def __init__(self, step_limit=200000, forin_own_only=True, strict_array_writes=True):
        self.step_limit = step_limit
        self.steps = 0
        self.depth = 0
        self.log = []
        self.forin_own_only = forin_own_only
        self.strict_array_writes = strict_array_writes
        self._info = {}
        self._keep = []
        self._setup_realm()

    # ------------------------------------------------------------------ realm
    def _setup_realm(self):
        self.ObjectProto = JSObj(None)
        self.FunctionProto = JSFunc(self.ObjectProto)
        self.FunctionProto.kind = "native"
        self.FunctionProto.native = lambda it, this, args: UNDEF
        self.ArrayProto = JSArr(self.ObjectProto)
        self.StringProto = JSObj(self.ObjectProto)
        self.NumberProto = JSObj(self.ObjectProto)
        self.BooleanProto = JSObj(self.ObjectProto)
        self.genv = Env(None)
        self.genv.has_this = True
        self.genv.this_val = UNDEF
        self.genv.immutable = {"undefined", "NaN", "Infinity"}
        g = self.genv.vars
        g["undefined"] = UNDEF
        g["NaN"] = math.nan
        g["Infinity"] = math.inf
        from . import refjs_builtins

        refjs_builtins.install(self)

    def native(self, name, fn, length=0, ctor=False):
        f = JSFunc(self.FunctionProto)
        f.kind = "native"
        f.native = fn
        f.ctor = ctor
        f.props["length"] = Prop(float(length), enum=False)
        f.props["name"] = Prop(name, enum=False)
        return f

    def new_object(self, proto=None):
        return JSObj(self.ObjectProto if proto is None else proto)

    def new_array(self, elems=None):
        return JSArr(self.ArrayProto, elems)

    def make_error(self, ctor_name, message, internal=True):
        ctor = self.genv.vars[ctor_name]
        o = JSObj(ctor.props["prototype"].value)
        o.cls = "Error"
        o.internal = internal
        o.props["message"] = Prop(message, enum=False)
        return o

    def throw(self, ctor_name, message):
        raise ThrowEx(self.make_error(ctor_name, message))

    # ------------------------------------------------------------------- ticks
    def tick(self):
        self.steps += 1
        if self.steps > self.step_limit:
            raise Budget("step limit")

    # ------------------------------------------------------------- conversions
    def to_primitive(self, v, hint="default"):
        if not isinstance(v, JSObj):
            return v
        order = ("toString", "valueOf") if hint == "string" else ("valueOf", "toString")
        for name in order:
            f = self.get(v, name)
            if is_callable(f):
                r = self.call(f, v, [])
                if not isinstance(r, JSObj):
                    return r
        self.throw("TypeError", "Cannot convert object to primitive value")

    def to_number(self, v):
        return P.to_number(self.to_primitive(v, "number"))

    def to_string(self, v):
        return P.to_string(self.to_primitive(v, "string"))

    def to_boolean(self, v):
        if isinstance(v, JSObj):
            return True
        return P.to_boolean(v)

    def to_key(self, v):
        if isinstance(v, str):
            return v
        return P.to_string(self.to_primitive(v, "string"))

    def to_object_check(self, v, what):
        if v is UNDEF or v is None:
            self.throw("TypeError", "Cannot %s of %s" % (what, P.to_string(v)))

    def typeof(self, v):
        if isinstance(v, JSFunc):
            return "function"
        if isinstance(v, JSObj):
            return "object"
        return P.typeof(v)

    # --------------------------------------------------------------- properties
    def proto_of_prim(self, v):
        if isinstance(v, str):
            return self.StringProto
        if isinstance(v, bool):
            return self.BooleanProto
        if isinstance(v, float):
            return self.NumberProto
        return None

    def get_own(self, o, key):
        """Own property as Prop (array elements and string indices synthesised)."""
        if isinstance(o, JSArr):
            i = array_index(key)
            if i is not None:
                if i < len(o.elems):
                    return Prop(o.elems[i])
                return None
            if key == "length":
                return Prop(float(len(o.elems)), enum=False)
        return o.props.get(key)

    def get(self, base, key, receiver=None):
        """base[key] (key already a string)."""
        if isinstance(base, JSObj):
            o = base
            if receiver is None:
                receiver = base
        else:
            if base is UNDEF or base is None:
                self.throw("TypeError", "Cannot read properties of %s (reading '%s')" % (P.to_string(base), key))
            receiver = base
            if isinstance(base, str):
                if key == "length":
                    return float(len(P._code_units(base)))
                i = array_index(key)
                if i is not None:
                    cu = P._code_units(base)
                    if i < len(cu):
                        return _from_units(cu[i : i + 1])
                    return UNDEF
            o = self.proto_of_prim(base)
        while o is not None:
            p = self.get_own(o, key)
            if p is not None:
                if p.get is not None or p.set is not None:
                    if p.get is None:
                        return UNDEF
                    return self.call(p.get, receiver, [])
                return p.value
            o = o.proto
        return UNDEF

    def has_property(self, o, key):
        while o is not None:
            if self.get_own(o, key) is not None:
                return True
            o = o.proto
        return False

    def put(self, base, key, value):
        """Strict-mode base[key] = value."""
        if not isinstance(base, JSObj):
            if base is UNDEF or base is None:
                self.throw("TypeError", "Cannot set properties of %s (setting '%s')" % (P.to_string(base), key))
            # strict mode: creating a property on a primitive is a TypeError,
            # unless an inherited setter takes it
            o = self.proto_of_prim(base)
            while o is not None:
                p = o.props.get(key)
                if p is not None and p.set is not None:
                    self.call(p.set, base, [value])
                    return
                o = o.proto
            self.throw("TypeError", "Cannot create property '%s' on primitive" % key)
        if isinstance(base, JSArr):
            i = array_index(key)
            if i is not None:
                n = len(base.elems)
                if i < n:
                    base.elems[i] = value
                elif i == n:
                    base.elems.append(value)
                elif self.strict_array_writes:
                    self.throw("TypeError", "array write past the end")
                else:
                    raise Unmodelled("hole")
                return
            if key == "length":
                n = self.to_number(value)
                if n != n or n < 0 or n != math.floor(n) or n >= 2 ** 32:
                    self.throw("RangeError", "Invalid array length")
                n = int(n)
                if n <= len(base.elems):
                    del base.elems[n:]
                else:
                    base.elems.extend([UNDEF] * (n - len(base.elems)))
                return
        o = base
        while o is not None:
            p = o.props.get(key) if not (o is not base and isinstance(o, JSArr) and array_index(key) is not None) else self.get_own(o, key)
            if p is not None:
                if p.get is not None or p.set is not None:
                    if p.set is None:
                        self.throw("TypeError", "Cannot set property %s which has only a getter" % key)
                    self.call(p.set, base, [value])
                    return
                if o is base:
                    p.value = value
                    return
                break
            o = o.proto
        base.props[key] = Prop(value)

    def delete(self, base, key):
        if not isinstance(base, JSObj):
            self.to_object_check(base, "delete property")
            return True
        if isinstance(base, JSArr):
            i = array_index(key)
            if i is not None:
                if i < len(base.elems):
                    if i == len(base.elems) - 1 and False:
                        pass
                    raise Unmodelled("delete of an array element (hole)")
                return True
            if key == "length":
                self.throw("TypeError", "Cannot delete property 'length'")
        base.props.pop(key, None)
        return True

    def own_keys(self, o, only_enum=True):
        """Own string keys in ES order: integer keys ascending, then insertion order."""
        ints, strs = [], []
        if isinstance(o, JSArr):
            ints.extend((i, str(i)) for i in range(len(o.elems)))
        for k, p in o.props.items():
            if only_enum and not p.enum:
                continue
            i = array_index(k)
            if i is not None:
                ints.append((i, k))
            else:
                strs.append(k)
        ints.sort()
        return [k for _, k in ints] + strs

    # -------------------------------------------------------------------- calls
    def call(self, f, this, args):
        if not isinstance(f, JSFunc):
            self.throw("TypeError", "not a function")
        k = f.kind
        if k == "native":
            return f.native(self, this, args)
        if k == "bound":
            return self.call(f.target, f.bound_this, list(f.bound_args) + list(args))
        self.depth += 1
        if self.depth > self.MAX_DEPTH:
            raise Budget("call depth")
        try:
            env = self._activation(f, this, args)
            if f.is_expr:
                return self.ev(f.body, env)
            try:
                self.ex_list(f.body, env)
            except ReturnEx as r:
                return r.value
            return UNDEF
        finally:
            self.depth -= 1

    def construct(self, f, args):
        if not isinstance(f, JSFunc) or not f.ctor:
            self.throw("TypeError", "not a constructor")
        if f.kind == "bound":
            return self.construct(f.target, list(f.bound_args) + list(args))
        if f.kind == "native":
            return f.native(self, NEW, args)
        proto = self.get(f, "prototype")
        o = JSObj(proto if isinstance(proto, JSObj) else self.ObjectProto)
        r = self.call(f, o, args)
        return r if isinstance(r, JSObj) else o

    def _activation(self, f, this, args):
        info = f.info
        env = Env(f.env)
        if f.kind != "arrow":
            env.has_this = True
            env.this_val = this
            if info.uses_args:
                a = JSArr(self.ObjectProto, list(args))
                a.is_args = True
                a.cls = "Arguments"
                env.args_obj = a
                env.vars["arguments"] = a
        v = env.vars
        params = f.params
        n = len(args)
        for i, name in enumerate(params):
            v[name] = args[i] if i < n else UNDEF
        for name in info.var_names:
            if name not in v:
                v[name] = UNDEF
        for d in info.fdecls:
            v[d[1]] = self.make_function(d, env, decl=True)
        return env

    def fn_info(self, body, is_expr=False):
        key = id(body)
        info = self._info.get(key)
        if info is None:
            info = FnInfo()
            names, fdecls = [], []
            uses = [False]
            if is_expr:
                _scan_args(body, uses)
            else:
                for st in body:
                    _collect_vars(st, names)
                    if st[0] == "fdecl":
                        fdecls.append(st)
                    _scan_args(st, uses)
            info.var_names = names
            info.fdecls = fdecls
            info.uses_args = uses[0]
            self._info[key] = info
            self._keep.append(body)
        return info

    def make_function(self, node, env, decl=False):
        """Function object for an fn / arrow / fdecl node (or accessor/method spec)."""
        f = JSFunc(self.FunctionProto)
        k = node[0]
        if k == "arrow":
            f.kind = "arrow"
            f.params = tuple(node[1])
            f.body = node[2]
            f.is_expr = bool(node[3])
            f.env = env
            name = ""
        else:
            # ("fn", name, params, body) / ("fdecl", name, params, body)
            f.kind = "fn"
            f.params = tuple(node[2])
            f.body = node[3]
            f.ctor = True
            name = node[1] or ""
            if k == "fn" and node[1]:
                # a named function expression sees its own name (immutable binding)
                scope = Env(env)
                scope.vars[node[1]] = f
                scope.immutable = {node[1]}
                env = scope
            f.env = env
            proto = JSObj(self.ObjectProto)
            proto.props["constructor"] = Prop(f, enum=False)
            f.props["prototype"] = Prop(proto, enum=False)
        f.info = self.fn_info(f.body, f.is_expr)
        f.props["length"] = Prop(float(len(f.params)), enum=False)
        f.props["name"] = Prop(name, enum=False)
        return f

    def make_method(self, params, body, env, name):
        f = JSFunc(self.FunctionProto)
        f.kind = "method"
        f.params = tuple(params)
        f.body = body
        f.env = env
        f.info = self.fn_info(body)
        f.props["length"] = Prop(float(len(f.params)), enum=False)
        f.props["name"] = Prop(name, enum=False)
        return f

    # -------------------------------------------------------------- environments
    def lookup(self, name, env):
        e = env
        while e is not None:
            if name in e.vars:
                return e
            e = e.parent
        return None

    def get_this(self, env):
        e = env
        while e is not None:
            if e.has_this:
                return e.this_val
            e = e.parent
        return UNDEF

    # --------------------------------------------------------------- expressions
    def ev(self, n, env):
        self.steps += 1
        if self.steps > self.step_limit:
            raise Budget("step limit")
        k = n[0]
        if k == "num":
            return n[1]
        if k == "str":
            return n[1]
        if k == "id":
            e = env
            name = n[1]
            while e is not None:
                vs = e.vars
                if name in vs:
                    return vs[name]
                e = e.parent
            self.throw("ReferenceError", "%s is not defined" % name)
        return getattr(self, "e_" + k)(n, env)

    def e_bool(self, n, env):
        return bool(n[1])

    def e_null(self, n, env):
        return None

    def e_undef(self, n, env):
        return UNDEF

    def e_this(self, n, env):
        return self.get_this(env)

    def e_un(self, n, env):
        op = n[1]
        if op == "typeof":
            a = n[2]
            if a[0] == "id" and self.lookup(a[1], env) is None:
                return "undefined"
            return self.typeof(self.ev(a, env))
        v = self.ev(n[2], env)
        if op == "!":
            return not self.to_boolean(v)
        if op == "void":
            return UNDEF
        if isinstance(v, JSObj):
            v = self.to_primitive(v, "number")
        return P.unop(op, v)

    def binop(self, op, a, b):
        if not isinstance(a, JSObj) and not isinstance(b, JSObj):
            if op == "in":
                self.throw("TypeError", "Cannot use 'in' operator to search in a primitive")
            if op == "instanceof":
                self.throw("TypeError", "Right-hand side of 'instanceof' is not callable")
            return P.binop(op, a, b)
        if op == "===":
            return a is b
        if op == "!==":
            return a is not b
        if op in ("==", "!="):
            r = self.loose_eq(a, b)
            return r if op == "==" else not r
        if op == "in":
            if not isinstance(b, JSObj):
                self.throw("TypeError", "Cannot use 'in' operator to search in a primitive")
            return self.has_property(b, self.to_key(a))
        if op == "instanceof":
            return self.instance_of(a, b)
        if op == "+":
            a = self.to_primitive(a)
            b = self.to_primitive(b)
            return P.add(a, b)
        if op in ("<", ">", "<=", ">="):
            a = self.to_primitive(a, "number")
            b = self.to_primitive(b, "number")
            return P.binop(op, a, b)
        a = self.to_primitive(a, "number")
        b = self.to_primitive(b, "number")
        return P.binop(op, a, b)

    def loose_eq(self, a, b):
        ao, bo = isinstance(a, JSObj), isinstance(b, JSObj)
        if ao and bo:
            return a is b
        if ao:
            if b is None or b is UNDEF:
                return False
            return P.loose_equals(self.to_primitive(a), b)
        if a is None or a is UNDEF:
            return False
        return P.loose_equals(a, self.to_primitive(b))

    def instance_of(self, v, c):
        if not isinstance(c, JSFunc):
            self.throw("TypeError", "Right-hand side of 'instanceof' is not callable")
        if c.kind == "bound":
            return self.instance_of(v, c.target)
        if not isinstance(v, JSObj):
            return False
        proto = self.get(c, "prototype")
        if not isinstance(proto, JSObj):
            self.throw("TypeError", "Function has non-object prototype in instanceof check")
        o = v.proto
        while o is not None:
            if o is proto:
                return True
            o = o.proto
        return False

    def e_bin(self, n, env):
        a = self.ev(n[2], env)
        b = self.ev(n[3], env)
        if isinstance(a, float) and isinstance(b, float):
            op = n[1]
            if op == "+":
                return a + b
            if op == "-":
                return a - b
            if op == "<":
                return a < b
            if op == "===":
                return a == b
        return self.binop(n[1], a, b)

    def e_logic(self, n, env):
        a = self.ev(n[2], env)
        t = self.to_boolean(a)
        if n[1] == "&&":
            return self.ev(n[3], env) if t else a
        return a if t else self.ev(n[3], env)

    def e_cond(self, n, env):
        if self.to_boolean(self.ev(n[1], env)):
            return self.ev(n[2], env)
        return self.ev(n[3], env)

    def e_seq(self, n, env):
        v = UNDEF
        for x in n[1]:
            v = self.ev(x, env)
        return v

    # references: ("id", name) | ("dot", o, name) | ("idx", o, k)
    def _ref(self, t, env):
        k = t[0]
        if k == "id":
            return ("id", t[1], self.lookup(t[1], env))
        if k == "dot":
            return ("prop", self.ev(t[1], env), t[2])
        if k == "idx":
            base = self.ev(t[1], env)
            key = self.ev(t[2], env)
            return ("prop", base, key)
        raise Unmodelled("assignment target %r" % (k,))

    def _ref_get(self, r):
        if r[0] == "id":
            if r[2] is None:
                self.throw("ReferenceError", "%s is not defined" % r[1])
            return r[2].vars[r[1]]
        base = r[1]
        if base is UNDEF or base is None:
            self.throw("TypeError", "Cannot read properties of %s" % P.to_string(base))
        return self.get(base, self.to_key(r[2]))

    def _ref_put(self, r, v):
        if r[0] == "id":
            e = r[2]
            if e is None:
                self.throw("ReferenceError", "%s is not defined" % r[1])
            if e.immutable is not None and r[1] in e.immutable:
                self.throw("TypeError", "Assignment to constant variable.")
            e.vars[r[1]] = v
            return
        base = r[1]
        if base is UNDEF or base is None:
            self.throw("TypeError", "Cannot set properties of %s" % P.to_string(base))
        self.put(base, self.to_key(r[2]), v)

    def e_assign(self, n, env):
        op = n[1]
        r = self._ref(n[2], env)
        if op == "=":
            if r[0] == "prop" and (r[1] is UNDEF or r[1] is None):
                # the base is checked before the right-hand side is evaluated (V8
                # and the specification since ES2015 differ for computed keys;
                # the generators never reach this with side effects on the right)
                pass
            v = self.ev(n[3], env)
            self._ref_put(r, v)
            return v
        old = self._ref_get(r)
        rhs = self.ev(n[3], env)
        v = self.binop(op[:-1], old, rhs)
        self._ref_put(r, v)
        return v

    def e_upd(self, n, env):
        r = self._ref(n[3], env)
        old = self.to_number(self._ref_get(r))
        new = old + 1 if n[1] == "++" else old - 1
        self._ref_put(r, new)
        return new if n[2] else old

    def e_call(self, n, env):
        c = n[1]
        ck = c[0]
        if ck == "dot":
            this = self.ev(c[1], env)
            f = self.get(this, c[2])
        elif ck == "idx":
            this = self.ev(c[1], env)
            key = self.ev(c[2], env)
            if this is UNDEF or this is None:
                self.throw("TypeError", "Cannot read properties of %s" % P.to_string(this))
            f = self.get(this, self.to_key(key))
        else:
            this = UNDEF
            f = self.ev(c, env)
        args = [self.ev(a, env) for a in n[2]]
        if not isinstance(f, JSFunc):
            self.throw("TypeError", "%s is not a function" % _callee_name(c))
        return self.call(f, this, args)

    def e_new(self, n, env):
        f = self.ev(n[1], env)
        args = [self.ev(a, env) for a in n[2]]
        return self.construct(f, args)

    def e_dot(self, n, env):
        return self.get(self.ev(n[1], env), n[2])

    def e_idx(self, n, env):
        base = self.ev(n[1], env)
        key = self.ev(n[2], env)
        if base is UNDEF or base is None:
            self.throw("TypeError", "Cannot read properties of %s" % P.to_string(base))
        if isinstance(key, float) and isinstance(base, JSArr):
            i = int(key) if key >= 0 and key == math.floor(key) and key < 4294967295 else -1
            if 0 <= i < len(base.elems):
                return base.elems[i]
        return self.get(base, self.to_key(key))

    def e_arr(self, n, env):
        return JSArr(self.ArrayProto, [self.ev(x, env) for x in n[1]])

    def _prop_key(self, k, env):
        kk = k[0]
        if kk == "id" or kk == "str":
            return k[1]
        if kk == "num":
            return P.num_to_str(float(k[1]))
        return self.to_key(self.ev(k[1], env))

    def e_obj(self, n, env):
        o = JSObj(self.ObjectProto)
        for p in n[1]:
            pk = p[0]
            key = self._prop_key(p[1], env)
            if pk == "init":
                v = self.ev(p[2], env)
                if key == "__proto__" and p[1][0] in ("id", "str"):
                    if isinstance(v, JSObj) or v is None:
                        o.proto = v
                    continue
                if isinstance(v, JSFunc) and p[2][0] in ("fn", "arrow") and not (p[2][0] == "fn" and p[2][1]):
                    v.props["name"] = Prop(key, enum=False)
                self._define(o, key, Prop(v))
            elif pk == "get":
                f = self.make_method([], p[2], env, "get " + key)
                old = o.props.get(key)
                if old is not None and old.accessor:
                    old.get = f
                else:
                    self._define(o, key, Prop(get=f))
            elif pk == "set":
                f = self.make_method([p[2]], p[3], env, "set " + key)
                old = o.props.get(key)
                if old is not None and old.accessor:
                    old.set = f
                else:
                    self._define(o, key, Prop(set=f))
            elif pk == "method":
                self._define(o, key, Prop(self.make_method(p[2], p[3], env, key)))
            else:
                raise Unmodelled(pk)
        return o

    @staticmethod
    def _define(o, key, prop):
        if key in o.props:
            # redefinition keeps the original position (ES: same key, same slot)
            o.props[key] = prop
        else:
            o.props[key] = prop

    def e_fn(self, n, env):
        return self.make_function(n, env)

    def e_arrow(self, n, env):
        return self.make_function(n, env)

    def e_delete(self, n, env):
        t = n[1]
        if t[0] == "dot":
            base = self.ev(t[1], env)
            return self.delete(base, t[2])
        if t[0] == "idx":
            base = self.ev(t[1], env)
            key = self.ev(t[2], env)
            self.to_object_check(base, "delete property")
            return self.delete(base, self.to_key(key))
        raise Unmodelled("delete of a non-reference")

    # ---------------------------------------------------------------- statements
    def ex_list(self, ss, env):
        v = EMPTY
        for st in ss:
            try:
                r = self.ex(st, env)
            except (BreakEx, ContinueEx) as a:
                if a.value is EMPTY:
                    a.value = v
                raise
            if r is not EMPTY:
                v = r
        return v

    def ex(self, st, env, labels=()):
        self.steps += 1
        if self.steps > self.step_limit:
            raise Budget("step limit")
        k = st[0]
        if k == "expr":
            return self.ev(st[1], env)
        return getattr(self, "s_" + k)(st, env, labels)

    def s_var(self, st, env, labels):
        for d in st[1]:
            if d[1] is not None:
                e = self.lookup(d[0], env)
                v = self.ev(d[1], env)
                if isinstance(v, JSFunc) and d[1][0] in ("fn", "arrow") and not (d[1][0] == "fn" and d[1][1]):
                    v.props["name"] = Prop(d[0], enum=False)
                if e is None:
                    raise Unmodelled("var %s not hoisted" % d[0])
                e.vars[d[0]] = v
        return EMPTY

    def s_fdecl(self, st, env, labels):
        if not self._is_hoisted(st):
            raise Unmodelled("function declaration inside a block")
        return EMPTY

    def _is_hoisted(self, st):
        return id(st) in self._hoisted

    def s_empty(self, st, env, labels):
        return EMPTY

    def s_block(self, st, env, labels):
        if labels:
            try:
                return self.ex_list(st[1], env)
            except BreakEx as b:
                if b.label in labels:
                    return b.value
                raise
        return self.ex_list(st[1], env)

    def _labelled_plain(self, fn_, labels):
        """Run a non-loop statement that carries labels: break L ends it."""
        try:
            return fn_()
        except BreakEx as b:
            if b.label is not None and b.label in labels:
                return b.value  # may be EMPTY: the statement list keeps its value
            raise

    def s_label(self, st, env, labels):
        body = st[2]
        labels = labels + (st[1],)
        if body[0] in ("while", "dowhile", "for", "forin", "forof", "label", "block"):
            return self.ex(body, env, labels)
        return self._labelled_plain(lambda: self.ex(body, env), labels)

    def s_if(self, st, env, labels):
        def run():
            try:
                if self.to_boolean(self.ev(st[1], env)):
                    r = self.ex(st[2], env)
                elif st[3] is not None:
                    r = self.ex(st[3], env)
                else:
                    return UNDEF
            except (BreakEx, ContinueEx) as a:
                if a.value is EMPTY:
                    a.value = UNDEF
                raise
            return UNDEF if r is EMPTY else r

        return run()

    # loops: `labels` = label set of the loop (continue L / break L address it)
    def _loop_body(self, body, env, labels, state):
        """Run one iteration body.  Returns True to go on, False when the loop
        was left by break; state[0] carries V."""
        try:
            r = self.ex(body, env)
        except BreakEx as b:
            if b.label is None or b.label in labels:
                if b.value is not EMPTY:
                    state[0] = b.value
                return False
            if b.value is EMPTY:
                b.value = state[0]
            raise
        except ContinueEx as c:
            if c.label is None or c.label in labels:
                if c.value is not EMPTY:
                    state[0] = c.value
                return True
            if c.value is EMPTY:
                c.value = state[0]
            raise
        if r is not EMPTY:
            state[0] = r
        return True

    def s_while(self, st, env, labels):
        state = [UNDEF]
        while self.to_boolean(self.ev(st[1], env)):
            if not self._loop_body(st[2], env, labels, state):
                break
        return state[0]

    def s_dowhile(self, st, env, labels):
        state = [UNDEF]
        while True:
            if not self._loop_body(st[1], env, labels, state):
                break
            if not self.to_boolean(self.ev(st[2], env)):
                break
        return state[0]

    def s_for(self, st, env, labels):
        state = [UNDEF]
        if st[1] is not None:
            if st[1][0] == "var":
                self.ex(st[1], env)
            else:
                self.ev(st[1], env)
        while True:
            if st[2] is not None and not self.to_boolean(self.ev(st[2], env)):
                break
            if not self._loop_body(st[4], env, labels, state):
                break
            if st[3] is not None:
                self.ev(st[3], env)
        return state[0]

    def _bind_left(self, left, v, env):
        if left[0] == "vardecl":
            e = self.lookup(left[1], env)
            if e is None:
                raise Unmodelled("loop variable not hoisted")
            e.vars[left[1]] = v
        else:
            self._ref_put(self._ref(left, env), v)

    def s_forin(self, st, env, labels):
        state = [UNDEF]
        o = self.ev(st[2], env)
        if o is UNDEF or o is None:
            return UNDEF
        if not isinstance(o, JSObj):
            raise Unmodelled("for-in over a primitive (boxing)")
        visited = set()
        cur = o
        while cur is not None:
            for key in self.own_keys(cur, only_enum=False):
                if key in visited:
                    continue
                p = self.get_own(cur, key)
                if p is None:
                    continue  # deleted before it was visited
                visited.add(key)
                if not p.enum:
                    continue
                self._bind_left(st[1], key, env)
                if not self._loop_body(st[3], env, labels, state):
                    return state[0]
            if self.forin_own_only:
                break
            cur = cur.proto
        return state[0]

    def s_forof(self, st, env, labels):
        state = [UNDEF]
        it = self.ev(st[2], env)
        if isinstance(it, JSArr) and not it.is_args:
            i = 0
            while i < len(it.elems):
                self._bind_left(st[1], it.elems[i], env)
                i += 1
                if not self._loop_body(st[3], env, labels, state):
                    break
            return state[0]
        if isinstance(it, str):
            for ch in it:
                self._bind_left(st[1], ch, env)
                if not self._loop_body(st[3], env, labels, state):
                    break
            return state[0]
        if it is UNDEF or it is None or not isinstance(it, JSObj):
            self.throw("TypeError", "value is not iterable")
        raise Unmodelled("for-of over a non-array object")

    def s_switch(self, st, env, labels):
        def run():
            d = self.ev(st[1], env)
            cases = st[2]
            start = None
            for i, (test, _) in enumerate(cases):
                if test is None:
                    continue
                if self.binop("===", d, self.ev(test, env)):
                    start = i
                    break
            if start is None:
                for i, (test, _) in enumerate(cases):
                    if test is None:
                        start = i
                        break
            v = UNDEF
            if start is None:
                return v
            try:
                for test, body in cases[start:]:
                    try:
                        r = self.ex_list(body, env)
                    except (BreakEx, ContinueEx) as a:
                        if a.value is EMPTY:
                            a.value = v
                        raise
                    if r is not EMPTY:
                        v = r
            except BreakEx as b:
                if b.label is None or b.label in labels:
                    return b.value if b.value is not EMPTY else UNDEF
                raise
            return v

        return run()

    def s_break(self, st, env, labels):
        raise BreakEx(st[1])

    def s_continue(self, st, env, labels):
        raise ContinueEx(st[1])

    def s_return(self, st, env, labels):
        raise ReturnEx(self.ev(st[1], env) if st[1] is not None else UNDEF)

    def s_throw(self, st, env, labels):
        raise ThrowEx(self.ev(st[1], env))

    def s_try(self, st, env, labels):
        def body():
            try:
                return self.ex_list(st[1], env)
            except ThrowEx as t:
                if st[2] is None:
                    raise
                cenv = Env(env)
                cenv.vars[st[2][0]] = t.value
                return self.ex_list(st[2][1], cenv)

        def run():
            pending = None
            r = EMPTY
            try:
                r = body()
            except (BreakEx, ContinueEx, ReturnEx, ThrowEx) as a:
                pending = a
            if st[3] is not None:
                # the finally block runs exactly once, whatever way the try left
                try:
                    self.ex_list(st[3], env)
                except (BreakEx, ContinueEx) as a:
                    if a.value is EMPTY:
                        a.value = UNDEF
                    raise
            if pending is not None:
                if isinstance(pending, (BreakEx, ContinueEx)) and pending.value is EMPTY:
                    pending.value = UNDEF
                raise pending
            return UNDEF if r is EMPTY else r

        if labels:
            return self._labelled_plain(run, labels)
        return run()

    # ------------------------------------------------------------------- program
    def run_program(self, body):
        info = self.fn_info(body)
        self._hoisted = set()
        self._mark_hoisted(body)
        g = self.genv
        for name in info.var_names:
            if name not in g.vars:
                g.vars[name] = UNDEF
        for d in info.fdecls:
            g.vars[d[1]] = self.make_function(d, g, decl=True)
        try:
            v = self.ex_list(body, g)
        except ThrowEx as t:
            return ("throw", self.describe_throw(t.value))
        except (BreakEx, ContinueEx, ReturnEx):
            raise Unmodelled("abrupt completion escaped the program (early error)")
        return ("value", self.norm(UNDEF if v is EMPTY else v))

    def _mark_hoisted(self, body):
        """Function declarations directly in a function body / the program are
        the only ones the model defines (block-level ones differ by edition)."""
        stack = [body]
        while stack:
            b = stack.pop()
            for st in b:
                if st[0] == "fdecl":
                    self._hoisted.add(id(st))
                    stack.append(st[3])
                self._inner_bodies(st, stack, top=True)

    def _inner_bodies(self, n, stack, top=False):
        if n is None or isinstance(n, (str, float, int, bool)):
            return
        k = n[0]
        if k == "fdecl" and not top:
            # block-level function declarations mean different things in
            # different editions: the generators never build them
            raise Unmodelled("function declaration inside a block")
        if k == "fdecl":
            return
        if k == "fn":
            stack.append(n[3])
            return
        if k == "arrow":
            if n[3]:
                self._inner_bodies(n[2], stack)
            else:
                stack.append(n[2])
            return
        if k == "obj":
            for p in n[1]:
                if p[1][0] == "computed":
                    self._inner_bodies(p[1][1], stack)
                if p[0] == "init":
                    self._inner_bodies(p[2], stack)
                elif p[0] == "get":
                    stack.append(p[2])
                elif p[0] in ("set", "method"):
                    stack.append(p[3])
            return
        for c in children(n):
            self._inner_bodies(c, stack)

    def describe_throw(self, v):
        if isinstance(v, JSObj):
            try:
                name = self.get(v, "name")
                msg = self.get(v, "message")
            except ThrowEx:
                return {"kind": "object"}
            if v.cls == "Error":
                return {
                    "kind": "error",
                    "name": self.norm(name),
                    "message": self.norm(msg),
                    "internal": bool(v.internal),
                }
            return {"kind": "object", "message": self.norm(msg)}
        return {"kind": "prim", "value": self.norm(v)}

    # ---------------------------------------------------------------- normal form
    def norm(self, v, depth=0):
        return norm(v, self, depth)


class _New:
    def __repr__(self):
        return "<new>"


NEW = _New()  # `this` marker telling a native constructor it was called by `new`


def norm(v, it=None, depth=0):
    if v is UNDEF:
        return ["u"]
    if v is None:
        return ["null"]
    if isinstance(v, bool):
        return ["b", 1 if v else 0]
    if isinstance(v, float):
        return ["n", P.numkey(v)]
    if isinstance(v, str):
        return ["s", v]
    if depth > 4:
        return ["deep"]
    if isinstance(v, JSFunc):
        return ["fn"]
    if isinstance(v, JSArr):
        return ["a", [norm(x, it, depth + 1) for x in v.elems]]
    if isinstance(v, JSObj):
        out = []
        keys = it.own_keys(v) if it is not None else list(v.props)
        for k in keys:
            p = v.props.get(k)
            if p is None or p.accessor:
                continue
            out.append([k, norm(p.value, it, depth + 1)])
        return ["o", out]
    raise Unmodelled("value %r" % (v,))


def _from_units(units):
    b = bytearray()
    for u in units:
        b.append(u & 0xFF)
        b.append(u >> 8)
    return bytes(b).decode("utf-16-le", "surrogatepass")


def _callee_name(c):
    if c[0] == "id":
        return c[1]
    if c[0] == "dot":
        return _callee_name(c[1]) + "." + c[2]
    return "expression"


def _collect_vars(st, names):
    """Names declared with var in a statement (not inside nested functions)."""
    k = st[0]
    if k == "var":
        for d in st[1]:
            if d[0] not in names:
                names.append(d[0])
    elif k == "block":
        for x in st[1]:
            _collect_vars(x, names)
    elif k == "if":
        _collect_vars(st[2], names)
        if st[3] is not None:
            _collect_vars(st[3], names)
    elif k == "while":
        _collect_vars(st[2], names)
    elif k == "dowhile":
        _collect_vars(st[1], names)
    elif k == "for":
        if st[1] is not None and st[1][0] == "var":
            _collect_vars(st[1], names)
        _collect_vars(st[4], names)
    elif k in ("forin", "forof"):
        if st[1][0] == "vardecl" and st[1][1] not in names:
            names.append(st[1][1])
        _collect_vars(st[3], names)
    elif k == "switch":
        for _, body in st[2]:
            for x in body:
                _collect_vars(x, names)
    elif k == "label":
        _collect_vars(st[2], names)
    elif k == "try":
        for x in st[1]:
            _collect_vars(x, names)
        if st[2] is not None:
            for x in st[2][1]:
                _collect_vars(x, names)
        if st[3] is not None:
            for x in st[3]:
                _collect_vars(x, names)


def _scan_args(n, flag):
    """Does the function body mention `arguments` (arrows are transparent)?"""
    if flag[0] or n is None or isinstance(n, (str, float, int, bool)):
        return
    k = n[0]
    if k == "id":
        if n[1] == "arguments":
            flag[0] = True
        return
    if k in ("fn", "fdecl"):
        return
    if k == "obj":
        for p in n[1]:
            if p[1][0] == "computed":
                _scan_args(p[1][1], flag)
            if p[0] == "init":
                _scan_args(p[2], flag)
        return
    for c in children(n):
        _scan_args(c, flag)


def run(prog, step_limit=200000, **kw):
    """Run a program (dict with 'body' or a statement list) -> Outcome."""
    body = prog["body"] if isinstance(prog, dict) else prog
    old = sys.getrecursionlimit()
    if old < 20000:
        sys.setrecursionlimit(20000)
    it = Interp(step_limit=step_limit, **kw)
    result = it.run_program(body)
    return Outcome(it.log, result, it.steps)
