"""Abstract object / prototype model for C08 (a) (DESIGN 4, C08).

Independent of the engine and of oracles/refjs.py (the two are compared with
each other and with node at development time, tools/c08_nodeval.py).

Objects = ordered own properties (data or accessor) + prototype link + kind
(plain, array, function, instance).  The universe of a history: eight slots
o0..o7 (global variables holding a value), four constructor functions F0..F3
(function objects with an own `prototype` object) and the realm objects
Object.prototype / Array.prototype / Function.prototype.

Values: UNDEF, None (null), bool, float, str, Obj.
Function behaviour specs (`beh`, JSON lists) are interpreted by `call`:
  ["this"] ["field", name] ["const", valspec] ["store", name] ["nop"] ["arg"]
  ["argc"] ["ctor", i] ["native", name]

A *step* (JSON dict, see gens/c08gen.py for the JavaScript it renders to) is
applied with Model.apply(step) -> "ok" | "throw" | "=<encoded value>" or
SKIP when the step is not meaningful in the current state (it is then not
executed on the engine side either, so that any sub-sequence of a history is
itself a history: shrinking = dropping steps).

Semantics: ECMAScript strict mode under the documented restrictions of
/repo/spec.md (every script-created property is writable, enumerable and
configurable: the generators always spell the attributes out; for-in visits
own keys only; arrays have no holes).  Enumerability of *built-in* properties
that ES defines as non-enumerable (`constructor` of a function's prototype
object, `prototype` / `name` / `length` of functions) is left open, because
spec.md says "all properties are enumerable": such keys are *optional* in key
lists (Prop.enum is None).
"""
from . import prims as P


class _Undef:
    def __repr__(self):
        return "undefined"


UNDEF = _Undef()
SKIP = "skip"

NSLOTS = 8
NCTORS = 4
CTOR_PARAMS = [2, 1, 1, 1]


class Throw(Exception):
    def __init__(self, name, message=""):
        Exception.__init__(self, name + ": " + message)
        self.name = name


class Unmodelled(Exception):
    """The generator produced something this model does not define."""


class Prop:
    __slots__ = ("acc", "value", "get", "set", "enum", "writable", "configurable")

    def __init__(self, value=UNDEF, acc=False, get=None, set=None, enum=True, writable=True, configurable=True):
        self.acc = acc
        self.value = value
        self.get = get
        self.set = set
        self.enum = enum  # True / False / None (= left open, built-in)
        self.writable = writable
        self.configurable = configurable


class Obj:
    _next = [0]

    def __init__(self, kind, proto, tag=None, beh=None):
        self.kind = kind  # plain | array | function | instance
        self.proto = proto
        self.props = {}
        self.elems = [] if kind == "array" else None
        self.tag = tag
        self.beh = beh
        Obj._next[0] += 1
        self.id = Obj._next[0]

    def __repr__(self):
        return "<%s %s %s>" % (self.kind, self.tag or self.id, list(self.props))


def array_index(key):
    if key and key.isascii() and key.isdigit() and (key == "0" or key[0] != "0"):
        n = int(key)
        if n < 4294967295:
            return n
    return None


def key_of(v):
    """ToPropertyKey of a primitive."""
    if isinstance(v, str):
        return v
    if isinstance(v, float):
        return P.num_to_str(v)
    if v is UNDEF:
        return "undefined"
    if v is None:
        return "null"
    if isinstance(v, bool):
        return "true" if v else "false"
    raise Unmodelled("object used as a key")


class Model:
    def __init__(self, forin_own_only=True, es_key_order=True):
        self.forin_own_only = forin_own_only  # spec.md; False = plain ECMAScript (node validation)
        # False: own keys are enumerated in plain creation order everywhere (the
        # recorded integer-key finding; used for the "recorded wrong answer")
        self.es_key_order = es_key_order
        self.OP = Obj("plain", None, "OP")
        self.FP = Obj("function", self.OP, "FP", ["native", "nop"])
        self.AP = Obj("array", self.OP, "AP")
        self.Object = self._native_fn("Object", 1)
        self.Array = self._native_fn("Array", 1)
        self.Function = self._native_fn("Function", 1)
        self._builtin(self.Object, "prototype", self.OP, writable=False, configurable=False)
        self._builtin(self.Array, "prototype", self.AP, writable=False, configurable=False)
        self._builtin(self.Function, "prototype", self.FP, writable=False, configurable=False)
        # (enumerability of built-in properties is left open: enum=None)
        self._builtin(self.OP, "constructor", self.Object, enum=None)
        self._builtin(self.AP, "constructor", self.Array, enum=None)
        self._builtin(self.FP, "constructor", self.Function, enum=None)
        for name, n in (("hasOwnProperty", 1), ("isPrototypeOf", 1), ("toString", 0), ("valueOf", 0)):
            self._builtin(self.OP, name, self._native_fn(name, n), enum=None)
        self.OP.props["__proto__"] = Prop(
            acc=True, get=self._native_fn("get __proto__", 0, "protoget"), set=self._native_fn("set __proto__", 1, "protoset"), enum=None
        )
        for name in ("toString", "call", "apply", "bind"):
            self._builtin(self.FP, name, self._native_fn(name, 1), enum=None)
        for name in ("toString", "join", "push", "pop", "slice", "concat", "map", "forEach", "indexOf"):
            self._builtin(self.AP, name, self._native_fn(name, 1), enum=None)
        self.slots = [UNDEF] * NSLOTS
        self.ctors = []
        for i in range(NCTORS):
            f = Obj("function", self.FP, "F%d" % i, ["ctor", i])
            self._builtin(f, "length", float(CTOR_PARAMS[i]), writable=False)
            self._builtin(f, "name", "F%d" % i, writable=False)
            pr = Obj("plain", self.OP)
            self._builtin(pr, "constructor", f, enum=None)
            self._builtin(f, "prototype", pr, enum=None, configurable=False)
            self.ctors.append(f)

    # ------------------------------------------------------------------ realm
    def _native_fn(self, name, length, beh_name=None):
        f = Obj("function", self.FP if hasattr(self, "FP") else None, None, ["native", beh_name or name])
        f.props["length"] = Prop(float(length), enum=False, writable=False)
        f.props["name"] = Prop(name, enum=False, writable=False)
        return f

    @staticmethod
    def _builtin(o, key, value, enum=False, writable=True, configurable=True):
        o.props[key] = Prop(value, enum=enum, writable=writable, configurable=configurable)

    def make_fn(self, beh):
        """A fresh script function value with the given behaviour."""
        return Obj("function", self.FP, None, list(beh))

    # ------------------------------------------------------------ value specs
    def value(self, spec):
        k = spec[0]
        if k == "u":
            return UNDEF
        if k == "l":
            return None
        if k == "n":
            return float(spec[1])
        if k == "s":
            return spec[1]
        if k == "b":
            return bool(spec[1])
        if k == "slot":
            return self.slots[spec[1]]
        if k == "F":
            return self.ctors[spec[1]]
        if k == "P":
            return self.get(self.ctors[spec[1]], "prototype")
        if k == "OP":
            return self.OP
        if k == "fn":
            return self.make_fn(spec[1])
        raise Unmodelled("value spec %r" % (spec,))

    def target(self, spec):
        """Object designated by a target spec, or None when it is no object."""
        v = self.value(spec)
        return v if isinstance(v, Obj) else None

    # ------------------------------------------------------------- properties
    def get_own(self, o, key):
        if o.kind == "array":
            i = array_index(key)
            if i is not None:
                return Prop(o.elems[i]) if i < len(o.elems) else None
            if key == "length":
                return Prop(float(len(o.elems)), enum=False, configurable=False)
        return o.props.get(key)

    def find(self, o, key):
        """(holder, Prop) of the first object on the chain that has key."""
        while o is not None:
            p = self.get_own(o, key)
            if p is not None:
                return o, p
            o = o.proto
        return None, None

    def get(self, o, key, receiver=None):
        if receiver is None:
            receiver = o
        _, p = self.find(o, key)
        if p is None:
            return UNDEF
        if p.acc:
            if p.get is None:
                return UNDEF
            return self.call(p.get, receiver, [])
        return p.value

    def has(self, o, key):
        return self.find(o, key)[1] is not None

    def has_own(self, o, key):
        return self.get_own(o, key) is not None

    def put(self, o, key, value):
        """Strict-mode o[key] = value."""
        holder, p = self.find(o, key)
        if p is not None:
            if p.acc:
                if p.set is None:
                    raise Throw("TypeError", "setter missing for %s" % key)
                self.call(p.set, o, [value])
                return
            if not p.writable:
                raise Throw("TypeError", "read-only %s" % key)
            if holder is o:
                if o.kind == "array":
                    i = array_index(key)
                    if i is not None:
                        o.elems[i] = value
                        return
                    if key == "length":
                        raise Unmodelled("array length write")
                p.value = value
                return
        if o.kind == "array":
            i = array_index(key)
            if i is not None:
                if i == len(o.elems):
                    o.elems.append(value)
                    return
                raise Unmodelled("array write past the end")
        o.props[key] = Prop(value)

    def delete(self, o, key):
        p = self.get_own(o, key)
        if p is None:
            return True
        if o.kind == "array" and (array_index(key) is not None or key == "length"):
            raise Unmodelled("delete of an array element / length")
        if not p.configurable:
            raise Throw("TypeError", "cannot delete %s" % key)
        del o.props[key]
        return True

    def define_data(self, o, key, value):
        """defineProperty with {value, writable: true, enumerable: true, configurable: true}."""
        if o.kind == "array" and (array_index(key) is not None or key == "length"):
            raise Unmodelled("defineProperty on an array element")
        old = o.props.get(key)
        if old is not None and not old.configurable:
            raise Unmodelled("redefining a non-configurable property")
        o.props[key] = Prop(value)  # same key keeps its position in a dict

    def define_accessor(self, o, key, fields):
        """defineProperty with {get?, set?, enumerable: true, configurable: true};
        `fields` maps "get"/"set" to a function object or UNDEF."""
        if o.kind == "array" and (array_index(key) is not None or key == "length"):
            raise Unmodelled("defineProperty on an array element")
        old = o.props.get(key)
        if old is not None and not old.configurable:
            raise Unmodelled("redefining a non-configurable property")
        g = s = None
        if old is not None and old.acc:
            g, s = old.get, old.set
        if "get" in fields:
            g = fields["get"] if isinstance(fields["get"], Obj) else None
        if "set" in fields:
            s = fields["set"] if isinstance(fields["set"], Obj) else None
        o.props[key] = Prop(acc=True, get=g, set=s)

    def own_props(self, o):
        """[(key, Prop)] in insertion order (array elements first)."""
        out = []
        if o.kind == "array":
            out.extend((str(i), Prop(v)) for i, v in enumerate(o.elems))
        out.extend(o.props.items())
        return out

    def own_keys(self, o, es_order=None, accessors=True):
        """[(key, optional)] of the own enumerable keys.  es_order False gives
        plain insertion order (the recorded integer-key finding); accessors
        False leaves own accessor properties out (the recorded accessor finding)."""
        if es_order is None:
            es_order = self.es_key_order
        items = []
        for k, p in self.own_props(o):
            if p.enum is False:
                continue
            if p.acc and not accessors:
                continue
            items.append((k, p.enum is None))
        if es_order:
            ints = [(array_index(k), k, opt) for k, opt in items if array_index(k) is not None]
            ints.sort()
            items = [(k, opt) for _, k, opt in ints] + [(k, opt) for k, opt in items if array_index(k) is None]
        return items

    def forin_keys(self, o, es_order=None, accessors=True):
        """Keys a for-in loop visits: own enumerable keys (documented mode);
        with forin_own_only False also inherited enumerable keys that no
        earlier object of the chain has under the same name."""
        if self.forin_own_only:
            return self.own_keys(o, es_order, accessors)
        out, seen = [], set()
        c = o
        while c is not None:
            for k, opt in self.own_keys(c, es_order, accessors):
                if k not in seen:
                    out.append((k, opt))
            for k, _ in self.own_props(c):
                seen.add(k)
            c = c.proto
        return out

    def set_proto(self, o, proto):
        p = proto
        while p is not None:
            if p is o:
                raise Throw("TypeError", "cyclic prototype")
            p = p.proto
        o.proto = proto

    def on_chain(self, p, o):
        """p.isPrototypeOf(o)"""
        c = o.proto
        while c is not None:
            if c is p:
                return True
            c = c.proto
        return False

    def would_cycle(self, o, proto):
        p = proto
        while p is not None:
            if p is o:
                return True
            p = p.proto
        return False

    # ------------------------------------------------------------------ calls
    def call(self, f, this, args):
        b = f.beh
        k = b[0]
        a0 = args[0] if args else UNDEF
        if k == "this":
            return this
        if k == "field":
            return self._this_get(this, b[1])
        if k == "const":
            return self.value(b[1])
        if k == "store":
            self._this_put(this, b[1], a0)
            return UNDEF
        if k == "nop":
            return UNDEF
        if k == "arg":
            return a0
        if k == "argc":
            return float(len(args))
        if k == "ctor":
            i = b[1]
            a1 = args[1] if len(args) > 1 else UNDEF
            if i == 0:
                self._this_put(this, "a", a0)
                self._this_put(this, "b", a1)
                return UNDEF
            if i == 1:
                self._this_put(this, "x", a0)
                return UNDEF
            if i == 2:
                self._this_put(this, "a", a0)
                return 5.0
            self._this_put(this, "_a", a0)
            return a0
        if k == "native":
            n = b[1]
            if n == "protoget":
                if not isinstance(this, Obj):
                    raise Unmodelled("__proto__ of a primitive")
                return this.proto
            if n == "protoset":
                if not isinstance(this, Obj):
                    raise Unmodelled("__proto__ of a primitive")
                if a0 is None or isinstance(a0, Obj):
                    if a0 is not this.proto:
                        self.set_proto(this, a0)
                return UNDEF
            raise Unmodelled("call of native %s" % n)
        raise Unmodelled("behaviour %r" % (b,))

    def _this_get(self, this, key):
        if not isinstance(this, Obj):
            raise Unmodelled("primitive this")
        return self.get(this, key)

    def _this_put(self, this, key, v):
        if not isinstance(this, Obj):
            raise Unmodelled("primitive this")
        self.put(this, key, v)

    def construct(self, f, args):
        proto = self.get(f, "prototype")
        o = Obj("instance", proto if isinstance(proto, Obj) else self.OP)
        r = self.call(f, o, args)
        return r if isinstance(r, Obj) else o

    def instance_of(self, o, f):
        proto = self.get(f, "prototype")
        if not isinstance(proto, Obj):
            raise Throw("TypeError", "non-object prototype")
        return self.on_chain(proto, o)

    # --------------------------------------------------------------- encoding
    def enc(self, v):
        """Mirror of the JavaScript-side encoder E (gens/c08gen.PRELUDE)."""
        if v is UNDEF:
            return "u"
        if v is None:
            return "l"
        if isinstance(v, bool):
            return "b" + ("true" if v else "false")
        if isinstance(v, float):
            return "n" + P.num_to_str(v)
        if isinstance(v, str):
            return "s" + v
        for i, s in enumerate(self.slots):
            if s is v:
                return "o%d" % i
        for i, f in enumerate(self.ctors):
            if f is v:
                return "F%d" % i
        for i, f in enumerate(self.ctors):
            if self.get(f, "prototype") is v:
                return "P%d" % i
        if v is self.OP:
            return "OP"
        if v is self.AP:
            return "AP"
        if v is self.FP:
            return "FP"
        if v is self.Object:
            return "Object"
        if v is self.Array:
            return "Array"
        if v.kind == "function":
            return "fn"
        if v.kind == "array":
            return "arr"
        return "obj"

    # ------------------------------------------------------------------ steps
    def key_from_form(self, form):
        """Property key designated by a key form (see gens/c08gen.py)."""
        k = form[0]
        if k in ("id", "str"):
            return form[1]
        if k == "num":
            return key_of(float(form[1]))
        if k == "computed":
            return self.key_from_form(form[1])
        if k == "var":
            return form[2]  # a global variable holding the key
        raise Unmodelled("key form %r" % (form,))

    def apply(self, step):
        """Apply one step.  Returns SKIP, "ok", "throw" or "=" + encoded value."""
        pre = getattr(self, "pre_" + step["op"])(step)
        if pre is SKIP:
            return SKIP
        try:
            r = getattr(self, "do_" + step["op"])(step)
        except Throw:
            return "throw"
        return "ok" if r is None else "=" + r

    # each pre_* decides, from the current state only, whether the step is
    # meaningful; each do_* performs it (after the engine-side text was rendered)
    def _need_obj(self, spec):
        return SKIP if self.target(spec) is None else None

    def _val_ok(self, spec):
        """Value specs never designate an empty slot as a function target etc.;
        an empty slot is simply `undefined`."""
        return True

    # -- creation
    @staticmethod
    def _is_proto_entry(e):
        return e[0] == "proto" or (e[0] == "init" and e[1][0] in ("id", "str") and e[1][1] == "__proto__")

    def _proto_value_ok(self, v):
        """Functions are never used as prototypes (not part of the campaign)."""
        return not (isinstance(v, Obj) and v.kind == "function")

    def pre_lit(self, st):
        n = 0
        for e in st["entries"]:
            if self._is_proto_entry(e):
                n += 1
                if n > 1 or not self._proto_value_ok(self.value(e[-1])):
                    return SKIP  # duplicate __proto__ entries are an early error
        return None

    def do_lit(self, st):
        o = Obj("plain", self.OP)
        for e in st["entries"]:
            kind = e[0]
            if self._is_proto_entry(e):
                v = self.value(e[-1])
                if v is None or isinstance(v, Obj):
                    o.proto = v
                continue
            key = self.key_from_form(e[1])
            if kind == "init":
                self.define_data(o, key, self.value(e[2]))
            elif kind == "get":
                self.define_accessor(o, key, {"get": self.make_fn(e[2])})
            elif kind == "set":
                self.define_accessor(o, key, {"set": self.make_fn(e[2])})
            elif kind == "method":
                self.define_data(o, key, self.make_fn(e[2]))
            else:
                raise Unmodelled(kind)
        self.slots[st["dst"]] = o

    def pre_create(self, st):
        v = self.value(st["proto"])
        if not (v is None or isinstance(v, Obj)) or not self._proto_value_ok(v):
            return SKIP
        return None

    def do_create(self, st):
        o = Obj("plain", self.value(st["proto"]))
        descs = st.get("descs")
        if descs:
            # Object.create defines in the own-key order of the descriptor map
            tmp = Obj("plain", None)
            for key, d in descs:
                tmp.props[key] = Prop(d)
            for key, _ in self.own_keys(tmp):
                d = tmp.props[key].value
                if d[0] == "data":
                    self.define_data(o, key, self.value(d[1]))
                else:
                    fields = {}
                    if d[1] is not None:
                        fields["get"] = self.make_fn(d[1])
                    if d[2] is not None:
                        fields["set"] = self.make_fn(d[2])
                    self.define_accessor(o, key, fields)
        self.slots[st["dst"]] = o

    def pre_new(self, st):
        return None

    def do_new(self, st):
        args = [self.value(a) for a in st["args"]]
        self.slots[st["dst"]] = self.construct(self.ctors[st["F"]], args)

    def pre_arr(self, st):
        return None

    def do_arr(self, st):
        a = Obj("array", self.AP)
        a.elems = [self.value(v) for v in st["items"]]
        self.slots[st["dst"]] = a

    # -- set / get / delete / call
    def _array_key_ok(self, o, key, write):
        """Arrays: reads of anything are fine; writes only to existing indices,
        the append position and non-numeric names (C17 owns the rest)."""
        if o.kind != "array":
            return True
        i = array_index(key)
        if i is not None:
            return i <= len(o.elems) if write == "set" else write == "get"
        if key == "length":
            return write == "get"
        return True

    def _fn_key_ok(self, o, key, write):
        if o.kind != "function":
            return True
        if key in ("name", "length", "caller", "arguments"):
            return write == "get"
        if key == "prototype":
            return write in ("get", "set")
        return True

    def pre_set(self, st):
        o = self.target(st["o"])
        if o is None:
            return SKIP
        key = self.key_from_form(st["key"])
        if not self._array_key_ok(o, key, "set") or not self._fn_key_ok(o, key, "set"):
            return SKIP
        if key == "prototype" and o.kind == "function" and not isinstance(self.value(st["val"]), Obj):
            return SKIP
        if key == "__proto__":
            return self._proto_write_ok(o, self.value(st["val"]))
        # a write that reaches an array through an inherited accessor is not generated
        return None

    def _proto_write_ok(self, o, v):
        holder, p = self.find(o, "__proto__")
        if p is not None and p.acc and p.set is not None and p.set.beh == ["native", "protoset"]:
            if o.kind in ("array", "function"):
                return SKIP
            if isinstance(v, Obj) and (v.kind == "function" or self.would_cycle(o, v)):
                return SKIP
        return None

    def do_set(self, st):
        self.put(self.target(st["o"]), self.key_from_form(st["key"]), self.value(st["val"]))

    def pre_get(self, st):
        return self._need_obj(st["o"])

    def do_get(self, st):
        o = self.target(st["o"])
        return self.enc(self.get(o, self.key_from_form(st["key"])))

    def pre_callm(self, st):
        o = self.target(st["o"])
        if o is None:
            return SKIP
        f = self.get(o, self.key_from_form(st["key"]))
        if isinstance(f, Obj) and f.kind == "function" and f.beh[0] in ("native", "ctor"):
            return SKIP  # built-ins and constructors are not called as methods here
        return None

    def do_callm(self, st):
        o = self.target(st["o"])
        f = self.get(o, self.key_from_form(st["key"]))
        args = [self.value(a) for a in st["args"]]
        if not (isinstance(f, Obj) and f.kind == "function"):
            raise Throw("TypeError", "not a function")
        return self.enc(self.call(f, o, args))

    def pre_del(self, st):
        o = self.target(st["o"])
        if o is None:
            return SKIP
        key = self.key_from_form(st["key"])
        if not self._array_key_ok(o, key, "del") or not self._fn_key_ok(o, key, "del"):
            return SKIP
        p = self.get_own(o, key)
        if p is not None and not p.configurable:
            return SKIP
        return None

    def do_del(self, st):
        o = self.target(st["o"])
        return self.enc(self.delete(o, self.key_from_form(st["key"])))

    # -- defineProperty
    def _define_ok(self, st):
        o = self.target(st["o"])
        if o is None:
            return SKIP
        key = st["key"]
        if o.kind == "array" and (array_index(key) is not None or key == "length"):
            return SKIP
        if o.kind == "function" and key in ("name", "length", "prototype", "caller", "arguments"):
            return SKIP
        p = o.props.get(key)
        if p is not None and not p.configurable:
            return SKIP
        return None

    pre_defdata = _define_ok
    pre_defacc = _define_ok

    def do_defdata(self, st):
        self.define_data(self.target(st["o"]), st["key"], self.value(st["val"]))

    def do_defacc(self, st):
        fields = {}
        if st.get("get") is not None:
            fields["get"] = self.make_fn(st["get"])
        if st.get("set") is not None:
            fields["set"] = self.make_fn(st["set"])
        self.define_accessor(self.target(st["o"]), st["key"], fields)

    # -- prototypes
    def pre_setproto(self, st):
        o = self.target(st["o"])
        v = self.value(st["proto"])
        if o is None or o.kind in ("array", "function"):
            return SKIP
        if not (v is None or isinstance(v, Obj)):
            return SKIP
        if isinstance(v, Obj) and (self.would_cycle(o, v) or v.kind == "function"):
            return SKIP
        return None

    def do_setproto(self, st):
        self.set_proto(self.target(st["o"]), self.value(st["proto"]))

    def pre_fproto(self, st):
        v = self.value(st["val"])
        if not isinstance(v, Obj) or v.kind == "function":
            return SKIP
        return None

    def do_fproto(self, st):
        self.put(self.ctors[st["F"]], "prototype", self.value(st["val"]))

    def pre_chain(self, st):
        if st["F"] == st["G"]:
            return SKIP
        if not isinstance(self.get(self.ctors[st["G"]], "prototype"), Obj):
            return SKIP
        return None

    def do_chain(self, st):
        f, g = self.ctors[st["F"]], self.ctors[st["G"]]
        o = Obj("plain", self.get(g, "prototype"))
        self.put(f, "prototype", o)
        if st.get("fix"):
            self.put(self.get(f, "prototype"), "constructor", f)

    def pre_assign(self, st):
        o = self.target(st["o"])
        if o is None or o.kind == "array":
            return SKIP
        for s in st["srcs"]:
            v = self.value(s)
            if isinstance(v, Obj):
                for k, opt in self.own_keys(v):
                    if opt:
                        return SKIP  # enumerability of built-in properties is left open
                    if k == "__proto__" and self._proto_write_ok(o, self.get(v, k)) is SKIP:
                        return SKIP
                    if not self._fn_key_ok(o, k, "set"):
                        return SKIP
            elif not (v is UNDEF or v is None):
                return SKIP  # primitive sources: boxing
        return None

    def do_assign(self, st):
        o = self.target(st["o"])
        for s in st["srcs"]:
            v = self.value(s)
            if not isinstance(v, Obj):
                continue
            for k, _ in self.own_keys(v):
                self.put(o, k, self.get(v, k))

    def pre_alias(self, st):
        return None

    def do_alias(self, st):
        self.slots[st["dst"]] = self.slots[st["src"]]

    # ----------------------------------------------------------- observations
    def targets(self):
        """Distinct live objects with the expression that designates them."""
        out, seen = [], set()
        for i, v in enumerate(self.slots):
            if isinstance(v, Obj) and id(v) not in seen:
                seen.add(id(v))
                out.append((["slot", i], v))
        for i, f in enumerate(self.ctors):
            p = self.get(f, "prototype")
            if isinstance(p, Obj) and id(p) not in seen:
                seen.add(id(p))
                out.append((["P", i], p))
        for i, f in enumerate(self.ctors):
            if id(f) not in seen:
                seen.add(id(f))
                out.append((["F", i], f))
        return out

    def observe(self, spec, keys, protos, want_json=True):
        """Expected observation record of one target (mirror of OBS in
        gens/c08gen.PRELUDE).  Returns a dict:
          per:   [[enc(o[k]) | "throw", "T"/"F", "T"/"F"] per key]
          variants {accessors included?: {keys, values, entries, forin, json}}
          proto, inst: ["T"/"F"/"throw" x 4], isproto: ["T"/"F" per proto], json variants
        """
        o = self.target(spec)
        per = []
        for k in keys:
            try:
                g = self.enc(self.get(o, k))
            except Throw:
                g = "throw"
            per.append([g, "T" if self.has(o, k) else "F", "T" if self.has_own(o, k) else "F"])
        variants = {}
        for acc in (True, False):
            ks = self.own_keys(o, accessors=acc)
            vals, ents = [], []
            for k, opt in ks:
                try:
                    e = self.enc(self.get(o, k))
                except Throw:
                    e = "throw"
                vals.append((e, opt))
                ents.append((k + "=" + e, opt))
            variants[acc] = {"keys": ks, "values": vals, "entries": ents, "forin": self.forin_keys(o, accessors=acc),
                             "json": self.json(o, acc) if want_json else None}
        inst = []
        for f in self.ctors:
            try:
                inst.append("T" if self.instance_of(o, f) else "F")
            except Throw:
                inst.append("throw")
        return {
            "per": per,
            "variants": variants,
            "proto": self.enc(o.proto),
            "inst": inst,
            "isproto": ["T" if self.on_chain(self.target(p), o) else "F" for p in protos],
            "has_acc": any(p.acc and p.enum is not False for _, p in self.own_props(o)),
        }

    # JSON.stringify on plain data (None when the value is not plain data)
    def json(self, o, accessors=True, depth=0, stack=()):
        try:
            return self._json(o, accessors, depth, stack)
        except _Cyclic:
            return CYCLIC
        except _NotPlain:
            return None

    def _json(self, v, acc, depth, stack):
        if v is None:
            return "null"
        if v is True:
            return "true"
        if v is False:
            return "false"
        if isinstance(v, float):
            if v != v or v in (float("inf"), float("-inf")):
                return "null"
            return P.num_to_str(v)
        if isinstance(v, str):
            if not all(c.isalnum() or c in " _-." for c in v) or not v.isascii():
                raise _NotPlain()
            return '"' + v + '"'
        if v is UNDEF:
            return None
        if v.kind == "function":
            return None
        if id(v) in stack:
            raise _Cyclic()  # JSON.stringify throws a TypeError
        if depth > 5:
            raise _NotPlain()
        if self.has(v, "toJSON"):
            raise _NotPlain()
        stack = stack + (id(v),)
        if v.kind == "array":
            parts = []
            for x in v.elems:
                r = self._json(x, acc, depth + 1, stack)
                parts.append("null" if r is None else r)
            return "[" + ",".join(parts) + "]"
        parts = []
        for k, opt in self.own_keys(v, accessors=acc):
            if opt:
                val = self.get(v, k)
                if isinstance(val, Obj) and val.kind == "function":
                    continue  # optional keys hold functions: invisible either way
                raise _NotPlain()
            try:
                val = self.get(v, k)
            except Throw:
                raise _NotPlain()
            r = self._json(val, acc, depth + 1, stack)
            if r is not None:
                if not all(c.isalnum() or c in "_-." for c in k):
                    raise _NotPlain()
                parts.append('"' + k + '":' + r)
        return "{" + ",".join(parts) + "}"


class _NotPlain(Exception):
    pass


class _Cyclic(Exception):
    pass


CYCLIC = "cyclic"  # Model.json: the value is cyclic, JSON.stringify throws
