"""Reference model for C16: ECMAScript String.prototype methods, `length`,
string indexing, String(x), String.fromCharCode / fromCodePoint.

Line-by-line transcription of ECMA-262 (2023) clause 22.1.  Independent of
the engine.  Strings are Python str whose characters are UTF-16 *code units*
(a non-BMP character is two surrogate characters): use units()/from_units()
at the boundary.  Other values as in oracles.prims: UNDEF, None (null), bool,
float, plus ObjArg (an object argument, described by what ToPrimitive yields).

Only string patterns are modelled for replace/replaceAll/match/search/split
(regex arguments belong to C20); for match/search the pattern string is read
as a regular expression restricted to literal characters, '.', '^' and '$'
(anything else raises Unsupported and the generator must not produce it).
"""
import math

from oracles import prims as P
from oracles.prims import UNDEF

INF = math.inf


class JSThrow(Exception):
    """The call completes abruptly with an error of class `name`."""

    def __init__(self, name, why=""):
        Exception.__init__(self, name, why)
        self.name = name


class Unsupported(Exception):
    """The model does not cover this input (generator error, never a verdict)."""


class ObjArg:
    """An object argument: what ToPrimitive(hint String) / (hint Number) give
    (primitives), or the error class they throw."""

    def __init__(self, src, prim_string, prim_number, callable_=False):
        self.src = src
        self.prim_string = prim_string
        self.prim_number = prim_number
        self.callable = callable_

    def __repr__(self):
        return "ObjArg(%s)" % self.src


class MatchResult:
    """Array returned by a non-global match: elements + index + input."""

    def __init__(self, elements, index, input_):
        self.elements = elements
        self.index = index
        self.input = input_


# ------------------------------------------------------------ code units
def units(s):
    """Python str (code points, possibly lone surrogates) -> unit string."""
    if all(ord(c) < 0x10000 for c in s):
        return s
    out = []
    for c in s:
        o = ord(c)
        if o > 0xFFFF:
            o -= 0x10000
            out.append(chr(0xD800 + (o >> 10)))
            out.append(chr(0xDC00 + (o & 0x3FF)))
        else:
            out.append(c)
    return "".join(out)


def from_units(u):
    """Unit string -> Python str with surrogate pairs joined (lone ones kept)."""
    out = []
    i = 0
    n = len(u)
    while i < n:
        o = ord(u[i])
        if 0xD800 <= o < 0xDC00 and i + 1 < n and 0xDC00 <= ord(u[i + 1]) < 0xE000:
            out.append(chr(0x10000 + ((o - 0xD800) << 10) + (ord(u[i + 1]) - 0xDC00)))
            i += 2
        else:
            out.append(u[i])
            i += 1
    return "".join(out)


# ------------------------------------------------------ abstract operations
def to_primitive(v, hint):
    if isinstance(v, ObjArg):
        p = v.prim_string if hint == "string" else v.prim_number
        if isinstance(p, JSThrow):
            raise p
        return p
    return v


def to_string(v):
    """7.1.17 ToString (objects through ToPrimitive hint String)."""
    v = to_primitive(v, "string")
    if isinstance(v, str):
        return v
    return P.to_string(v)


def to_number(v):
    """7.1.4 ToNumber (objects through ToPrimitive hint Number)."""
    v = to_primitive(v, "number")
    return P.to_number(v)


def to_integer_or_infinity(v):
    """7.1.5 ToIntegerOrInfinity -> Python int, or +/-inf."""
    number = to_number(v)
    if number != number or number == 0:
        return 0
    if number == INF or number == -INF:
        return number
    return math.trunc(number)


def to_length(v):
    """7.1.20 ToLength."""
    ln = to_integer_or_infinity(v)
    if ln <= 0:
        return 0
    return min(ln, 2 ** 53 - 1)


def to_uint32(v):
    number = to_number(v)
    if number != number or number in (INF, -INF) or number == 0:
        return 0
    return math.trunc(number) % (1 << 32)


def to_uint16(v):
    number = to_number(v)
    if number != number or number in (INF, -INF) or number == 0:
        return 0
    return math.trunc(number) % (1 << 16)


def clamp(x, lower, upper):
    """'the result of clamping x between lower and upper' (5.2.5)."""
    assert lower <= upper
    if x < lower:
        return lower
    if x > upper:
        return upper
    return x


def is_callable(v):
    return isinstance(v, ObjArg) and v.callable


def string_index_of(string, search_value, from_index):
    """6.1.4.1 StringIndexOf."""
    ln = len(string)
    if search_value == "" and from_index <= ln:
        return from_index
    search_len = len(search_value)
    i = from_index
    while i <= ln - search_len:
        if string[i : i + search_len] == search_value:
            return i
        i += 1
    return -1


WHITE = frozenset(P.WS)  # WhiteSpace and LineTerminator code points


def trim_string(s, where):
    """22.1.3.32.1 TrimString."""
    a, b = 0, len(s)
    if where in ("start", "start+end"):
        while a < b and s[a] in WHITE:
            a += 1
    if where in ("end", "start+end"):
        while b > a and s[b - 1] in WHITE:
            b -= 1
    return s[a:b]


def get_substitution(matched, string, position, captures, named_captures, template):
    """22.1.3.19.1 GetSubstitution, for an empty capture list."""
    assert captures == [] and named_captures is UNDEF
    string_length = len(string)
    assert position <= string_length
    result = []
    rem = template
    while rem != "":
        if rem.startswith("$$"):
            ref, ref_replacement = "$$", "$"
        elif rem.startswith("$`"):
            ref, ref_replacement = "$`", string[0:position]
        elif rem.startswith("$&"):
            ref, ref_replacement = "$&", matched
        elif rem.startswith("$'"):
            ref = "$'"
            match_length = len(matched)
            tail_pos = position + match_length
            ref_replacement = string[min(tail_pos, string_length) :]
        elif len(rem) >= 2 and rem[0] == "$" and rem[1] in "0123456789":
            digit_count = 2 if (len(rem) >= 3 and rem[2] in "0123456789") else 1
            index = int(rem[1 : 1 + digit_count])
            capture_len = 0
            if index > capture_len and digit_count == 2:
                digit_count = 1
                index = int(rem[1:2])
            ref = rem[0 : 1 + digit_count]
            # 1 <= index <= captureLen never holds: no captures
            ref_replacement = ref
        elif rem.startswith("$<"):
            # namedCaptures is undefined
            ref = "$<"
            ref_replacement = ref
        else:
            ref = rem[0]
            ref_replacement = ref
        result.append(ref_replacement)
        rem = rem[len(ref) :]
    return "".join(result)


# -------------------------------------------- tiny regular expressions
_META = set("\\^$.*+?()[]{}|/")


def pattern_supported(p):
    return all((c not in _META) or c in "^$." for c in p)


def _regex_search(string, pattern):
    """First match of a pattern built from literal characters, '.', '^', '$'
    (no flags): returns (index, matched) or None."""
    if not pattern_supported(pattern):
        raise Unsupported("pattern %r" % pattern)
    line_terminators = "\n\r\u2028\u2029"
    n = len(string)
    for start in range(0, n + 1):
        i = start
        ok = True
        for c in pattern:
            if c == "^":
                if i != 0:
                    ok = False
            elif c == "$":
                if i != n:
                    ok = False
            elif c == ".":
                if i < n and string[i] not in line_terminators:
                    i += 1
                else:
                    ok = False
            else:
                if i < n and string[i] == c:
                    i += 1
                else:
                    ok = False
            if not ok:
                break
        if ok:
            return start, string[start:i]
    return None


# ------------------------------------------------------------ the methods
def _arg(args, i):
    return args[i] if i < len(args) else UNDEF


def m_at(S, args):
    ln = len(S)
    relative_index = to_integer_or_infinity(_arg(args, 0))
    k = relative_index if relative_index >= 0 else ln + relative_index
    if k < 0 or k >= ln:
        return UNDEF
    return S[k]


def m_charAt(S, args):
    position = to_integer_or_infinity(_arg(args, 0))
    size = len(S)
    if position < 0 or position >= size:
        return ""
    return S[position]


def m_charCodeAt(S, args):
    position = to_integer_or_infinity(_arg(args, 0))
    size = len(S)
    if position < 0 or position >= size:
        return math.nan
    return float(ord(S[position]))


def m_codePointAt(S, args):
    position = to_integer_or_infinity(_arg(args, 0))
    size = len(S)
    if position < 0 or position >= size:
        return UNDEF
    first = ord(S[position])
    if not (0xD800 <= first < 0xDC00) or position + 1 == size:
        return float(first)
    second = ord(S[position + 1])
    if not (0xDC00 <= second < 0xE000):
        return float(first)
    return float(0x10000 + ((first - 0xD800) << 10) + (second - 0xDC00))


def m_concat(S, args):
    R = S
    for nxt in args:
        R = R + to_string(nxt)
    return R


def m_endsWith(S, args):
    search_string, end_position = _arg(args, 0), _arg(args, 1)
    search_str = to_string(search_string)
    ln = len(S)
    pos = ln if end_position is UNDEF else to_integer_or_infinity(end_position)
    end = clamp(pos, 0, ln)
    search_length = len(search_str)
    if search_length == 0:
        return True
    start = end - search_length
    if start < 0:
        return False
    return S[start:end] == search_str


def m_includes(S, args):
    search_string, position = _arg(args, 0), _arg(args, 1)
    search_str = to_string(search_string)
    pos = to_integer_or_infinity(position)  # undefined -> 0
    ln = len(S)
    start = clamp(pos, 0, ln)
    index = string_index_of(S, search_str, start)
    return index != -1


def m_indexOf(S, args):
    search_string, position = _arg(args, 0), _arg(args, 1)
    search_str = to_string(search_string)
    pos = to_integer_or_infinity(position)
    ln = len(S)
    start = clamp(pos, 0, ln)
    return float(string_index_of(S, search_str, start))


def m_isWellFormed(S, args):
    return not any(0xD800 <= ord(c) < 0xE000 for c in from_units(S))


def m_lastIndexOf(S, args):
    search_string, position = _arg(args, 0), _arg(args, 1)
    search_str = to_string(search_string)
    num_pos = to_number(position)
    pos = INF if num_pos != num_pos else to_integer_or_infinity(num_pos)
    ln = len(S)
    search_len = len(search_str)
    if ln < search_len:
        return -1.0
    start = clamp(pos, 0, ln - search_len)
    # StringLastIndexOf
    i = start
    while i >= 0:
        if S[i : i + search_len] == search_str:
            return float(i)
        i -= 1
    return -1.0


def _string_pad(S, args, placement):
    max_length, fill_string = _arg(args, 0), _arg(args, 1)
    int_max_length = to_length(max_length)
    string_length = len(S)
    if int_max_length <= string_length:
        return S
    filler = " " if fill_string is UNDEF else to_string(fill_string)
    if filler == "":
        return S
    fill_len = int_max_length - string_length
    if fill_len > (1 << 24):
        raise Unsupported("huge pad")
    truncated = (filler * (fill_len // len(filler) + 1))[:fill_len]
    return truncated + S if placement == "start" else S + truncated


def m_padStart(S, args):
    return _string_pad(S, args, "start")


def m_padEnd(S, args):
    return _string_pad(S, args, "end")


def m_repeat(S, args):
    n = to_integer_or_infinity(_arg(args, 0))
    if n < 0 or n == INF:
        raise JSThrow("RangeError", "repeat count")
    if n == 0:
        return ""
    if len(S) * n > (1 << 24):
        raise Unsupported("huge repeat")  # implementation-defined maximum length
    return S * n


def m_replace(S, args):
    search_value, replace_value = _arg(args, 0), _arg(args, 1)
    string = S
    search_string = to_string(search_value)
    functional_replace = is_callable(replace_value)
    if functional_replace:
        raise Unsupported("functional replace")
    replace_value = to_string(replace_value)
    search_length = len(search_string)
    position = string_index_of(string, search_string, 0)
    if position == -1:
        return string
    preceding = string[0:position]
    following = string[position + search_length :]
    replacement = get_substitution(search_string, string, position, [], UNDEF, replace_value)
    return preceding + replacement + following


def m_replaceAll(S, args):
    search_value, replace_value = _arg(args, 0), _arg(args, 1)
    string = S
    search_string = to_string(search_value)
    if is_callable(replace_value):
        raise Unsupported("functional replace")
    replace_value = to_string(replace_value)
    search_length = len(search_string)
    advance_by = max(1, search_length)
    match_positions = []
    position = string_index_of(string, search_string, 0)
    while position != -1:
        match_positions.append(position)
        position = string_index_of(string, search_string, position + advance_by)
    end_of_last_match = 0
    result = ""
    for p in match_positions:
        preserved = string[end_of_last_match:p]
        replacement = get_substitution(search_string, string, p, [], UNDEF, replace_value)
        result = result + preserved + replacement
        end_of_last_match = p + search_length
    if end_of_last_match < len(string):
        result = result + string[end_of_last_match:]
    return result


def _pattern_of(regexp):
    # RegExpCreate(regexp, undefined): pattern undefined -> "", else ToString
    return "" if regexp is UNDEF else to_string(regexp)


def m_match(S, args):
    regexp = _arg(args, 0)
    r = _regex_search(S, _pattern_of(regexp))
    if r is None:
        return None
    index, matched = r
    return MatchResult([matched], float(index), S)


def m_search(S, args):
    regexp = _arg(args, 0)
    r = _regex_search(S, _pattern_of(regexp))
    return -1.0 if r is None else float(r[0])


def m_slice(S, args):
    start, end = _arg(args, 0), _arg(args, 1)
    ln = len(S)
    int_start = to_integer_or_infinity(start)
    if int_start == -INF:
        frm = 0
    elif int_start < 0:
        frm = max(ln + int_start, 0)
    else:
        frm = min(int_start, ln)
    int_end = ln if end is UNDEF else to_integer_or_infinity(end)
    if int_end == -INF:
        to = 0
    elif int_end < 0:
        to = max(ln + int_end, 0)
    else:
        to = min(int_end, ln)
    if frm >= to:
        return ""
    return S[frm:to]


def m_split(S, args):
    separator, limit = _arg(args, 0), _arg(args, 1)
    lim = (1 << 32) - 1 if limit is UNDEF else to_uint32(limit)
    R = to_string(separator)
    if lim == 0:
        return []
    if separator is UNDEF:
        return [S]
    separator_length = len(R)
    if separator_length == 0:
        str_len = len(S)
        out_len = clamp(lim, 0, str_len)
        head = S[0:out_len]
        return list(head)
    if S == "":
        return [S]
    substrings = []
    i = 0
    j = string_index_of(S, R, 0)
    while j != -1:
        T = S[i:j]
        substrings.append(T)
        if len(substrings) == lim:
            return substrings
        i = j + separator_length
        j = string_index_of(S, R, i)
    T = S[i:]
    substrings.append(T)
    return substrings


def m_startsWith(S, args):
    search_string, position = _arg(args, 0), _arg(args, 1)
    search_str = to_string(search_string)
    ln = len(S)
    pos = 0 if position is UNDEF else to_integer_or_infinity(position)
    start = clamp(pos, 0, ln)
    search_length = len(search_str)
    if search_length == 0:
        return True
    end = start + search_length
    if end > ln:
        return False
    return S[start:end] == search_str


def m_substring(S, args):
    start, end = _arg(args, 0), _arg(args, 1)
    ln = len(S)
    int_start = to_integer_or_infinity(start)
    int_end = ln if end is UNDEF else to_integer_or_infinity(end)
    final_start = clamp(int_start, 0, ln)
    final_end = clamp(int_end, 0, ln)
    frm = min(final_start, final_end)
    to = max(final_start, final_end)
    return S[frm:to]


def m_substr(S, args):
    start, length = _arg(args, 0), _arg(args, 1)
    size = len(S)
    int_start = to_integer_or_infinity(start)
    if int_start == -INF:
        int_start = 0
    elif int_start < 0:
        int_start = max(size + int_start, 0)
    else:
        int_start = min(int_start, size)
    int_length = size if length is UNDEF else to_integer_or_infinity(length)
    int_length = clamp(int_length, 0, size)
    int_end = min(int_start + int_length, size)
    return S[int_start:int_end]


def _case(S, how):
    """Accepted results: [ES full Unicode mapping, ASCII-only mapping]."""
    cp = from_units(S)
    full = units(cp.lower() if how == "lower" else cp.upper())
    if how == "lower":
        ascii_only = "".join(chr(ord(c) + 32) if "A" <= c <= "Z" else c for c in S)
    else:
        ascii_only = "".join(chr(ord(c) - 32) if "a" <= c <= "z" else c for c in S)
    return full, ascii_only


def m_toLowerCase(S, args):
    return _case(S, "lower")[0]


def m_toUpperCase(S, args):
    return _case(S, "upper")[0]


def m_toString(S, args):
    return S


def m_toWellFormed(S, args):
    out = []
    cp = from_units(S)
    for c in cp:
        out.append("\ufffd" if 0xD800 <= ord(c) < 0xE000 else c)
    return units("".join(out))


def m_trim(S, args):
    return trim_string(S, "start+end")


def m_trimStart(S, args):
    return trim_string(S, "start")


def m_trimEnd(S, args):
    return trim_string(S, "end")


METHODS = {
    "at": m_at,
    "charAt": m_charAt,
    "charCodeAt": m_charCodeAt,
    "codePointAt": m_codePointAt,
    "concat": m_concat,
    "endsWith": m_endsWith,
    "includes": m_includes,
    "indexOf": m_indexOf,
    "isWellFormed": m_isWellFormed,
    "lastIndexOf": m_lastIndexOf,
    "match": m_match,
    "padEnd": m_padEnd,
    "padStart": m_padStart,
    "repeat": m_repeat,
    "replace": m_replace,
    "replaceAll": m_replaceAll,
    "search": m_search,
    "slice": m_slice,
    "split": m_split,
    "startsWith": m_startsWith,
    "substr": m_substr,
    "substring": m_substring,
    "toLocaleLowerCase": m_toLowerCase,
    "toLocaleUpperCase": m_toUpperCase,
    "toLowerCase": m_toLowerCase,
    "toString": m_toString,
    "toUpperCase": m_toUpperCase,
    "toWellFormed": m_toWellFormed,
    "trim": m_trim,
    "trimEnd": m_trimEnd,
    "trimLeft": m_trimStart,
    "trimRight": m_trimEnd,
    "trimStart": m_trimStart,
    "valueOf": m_toString,
}

# the ES String.prototype vocabulary probed at run time
VOCABULARY = sorted(
    set(METHODS)
    | {"localeCompare", "matchAll", "normalize", "anchor", "big", "blink", "bold", "fixed", "fontcolor",
       "fontsize", "italics", "link", "small", "strike", "sub", "sup"}
)


def call(method, S, args):
    """S.method(...args).  Raises JSThrow / Unsupported."""
    return METHODS[method](S, list(args))


def accepted(method, S, args):
    """All accepted results (first = ECMAScript)."""
    if method in ("toLowerCase", "toLocaleLowerCase"):
        full, asc = _case(S, "lower")
        return [full] if full == asc else [full, asc]
    if method in ("toUpperCase", "toLocaleUpperCase"):
        full, asc = _case(S, "upper")
        return [full] if full == asc else [full, asc]
    return [call(method, S, args)]


# ----------------------------------------------- accessors and constructors
def length(S):
    return float(len(S))


def to_property_key(key):
    """7.1.19 ToPropertyKey (no symbols)."""
    return to_string(to_primitive(key, "string"))


def canonical_numeric_index_string(arg):
    """7.1.21 CanonicalNumericIndexString."""
    if arg == "-0":
        return -0.0
    n = P.str_to_number(arg)
    if P.num_to_str(n) == arg:
        return n
    return UNDEF


def get_index(S, key):
    """S[key] for keys that are not names of String.prototype members:
    10.4.3.5 StringGetOwnProperty, then the (empty) prototype lookup."""
    P_ = to_property_key(key)
    if P_ == "length":
        return float(len(S))
    index = canonical_numeric_index_string(P_)
    if index is UNDEF:
        if P_ in METHODS or P_ in ("constructor", "__proto__"):
            raise Unsupported("named member")
        return UNDEF
    if not (index == index and index not in (INF, -INF) and float(index).is_integer()):
        return UNDEF
    if index == 0 and math.copysign(1.0, index) < 0:
        return UNDEF
    ln = len(S)
    if index < 0 or ln <= index:
        return UNDEF
    return S[int(index)]


def string_ctor(args):
    """String(value) called as a function (no symbols)."""
    if len(args) == 0:
        return ""
    return to_string(args[0])


def from_char_code(args):
    return "".join(chr(to_uint16(a)) for a in args)


def from_code_point(args):
    out = []
    for nxt in args:
        next_cp = to_number(nxt)
        if not (next_cp == next_cp and next_cp not in (INF, -INF) and float(next_cp).is_integer()):
            raise JSThrow("RangeError", "not an integer")
        if next_cp < 0 or next_cp > 0x10FFFF:
            raise JSThrow("RangeError", "out of range")
        out.append(units(chr(int(next_cp))))
    return "".join(out)


# ------------------------------------------------------ typed rendering
def stable(u):
    """Unit string -> text that survives a JSON round trip: a surrogate code
    unit is spelled \\uXXXX (and a backslash doubled), because JSON readers
    join an escaped surrogate pair into one character."""
    if "\\" not in u and not any("\ud800" <= c <= "\udfff" for c in u):
        return u
    return "".join("\\u%04x" % ord(c) if "\ud800" <= c <= "\udfff" else "\\\\" if c == "\\" else c for c in u)


def tvv(v):
    """Value rendering compatible with vf.engine.tv after strings have been
    converted to code units (undefined and null both render as nil)."""
    if v is UNDEF or v is None:
        return ["nil"]
    if isinstance(v, bool):
        return ["b", 1 if v else 0]
    if isinstance(v, (int, float)):
        return ["n", P.numkey(float(v))]
    if isinstance(v, str):
        return ["s", stable(v)]
    if isinstance(v, list):
        return ["a", [tvv(x) for x in v]]
    raise TypeError(v)


def typeof(v):
    if isinstance(v, (list, MatchResult)) or v is None:
        return "object"
    if isinstance(v, int) and not isinstance(v, bool):
        return "number"
    return P.typeof(v)


def tv(v):
    """Typed rendering of a result: [typeof, value]; a match result carries
    its index and input: [typeof, ["m", elements, index, input]]."""
    if isinstance(v, MatchResult):
        return ["object", ["m", tvv(v.elements), tvv(v.index), tvv(v.input)]]
    return [typeof(v), tvv(v)]
