"""parseInt (every radix) and parseFloat: the ECMAScript prefix grammars.

Reference model for C18, independent of the engine.  Number() / unary plus /
arithmetic coercion are oracles.prims.str_to_number.

parse_int returns a list of accepted doubles: one element where the
specification fixes the value, several where it leaves freedom

  * radix 10 with more than 20 significant digits: the digits after the 20th
    may be replaced by zeros (two accepted values);
  * radix not in {2, 4, 8, 10, 16, 32}: the integer "may be an implementation-
    approximated integer"; the model accepts the correctly rounded value and,
    beyond 2^53, anything within one ulp of it -> ("approx", value).
"""
import math
import re

from oracles import prims as P

INF = math.inf
DIGITS = "0123456789abcdefghijklmnopqrstuvwxyz"

_FLOAT_PREFIX = re.compile(r"[+-]?(?:Infinity|(?:[0-9]+\.?[0-9]*|\.[0-9]+)(?:[eE][+-]?[0-9]+)?)")


def parse_float(s):
    """parseFloat(string) for a string argument."""
    t = s.lstrip(P.WS)
    m = _FLOAT_PREFIX.match(t)
    if not m:
        return math.nan
    txt = m.group(0)
    if txt.endswith("Infinity"):
        return -INF if txt[0] == "-" else INF
    return float(txt)  # correctly rounded, overflow -> inf, "-0" -> -0.0


def _big_int(z, r):
    """int(z, r) for digit strings of any length (the host refuses more than 4300 digits at once;
    its limit is left alone because the engine under test runs in the same process)."""
    if len(z) <= 4000:
        return int(z, r)
    n = 0
    for i in range(0, len(z), 4000):
        part = z[i : i + 4000]
        n = n * r ** len(part) + int(part, r)
    return n


def parse_int(s, radix=P.UNDEF):
    """parseInt(string, radix): ("exact", [values]) or ("approx", value)."""
    t = s.lstrip(P.WS)
    sign = 1
    if t[:1] == "-":
        sign = -1
    if t[:1] in ("+", "-"):
        t = t[1:]
    r = P.to_int32(radix)
    strip_prefix = True
    if r != 0:
        if r < 2 or r > 36:
            return ("exact", [math.nan])
        if r != 16:
            strip_prefix = False
    else:
        r = 10
    if strip_prefix and t[:2] in ("0x", "0X"):
        t = t[2:]
        r = 16
    end = 0
    while end < len(t):
        d = DIGITS.find(t[end].lower()) if t[end].isascii() else -1
        if d < 0 or d >= r:
            break
        end += 1
    z = t[:end]
    if not z:
        return ("exact", [math.nan])
    n = _big_int(z, r)
    exact = P.int_to_double(n)
    if n == 0:
        return ("exact", [-0.0 if sign < 0 else 0.0])
    if r in (2, 4, 8, 16, 32):
        return ("exact", [sign * exact])
    if r == 10:
        sig = z.lstrip("0")
        vals = [sign * exact]
        if len(sig) > 20:
            alt = sign * P.int_to_double(int(sig[:20]) * 10 ** (len(sig) - 20))
            if alt != vals[0]:
                vals.append(alt)
        return ("exact", vals)
    if n <= 2 ** 53:
        return ("exact", [sign * exact])
    return ("approx", sign * exact)


def within_ulps(a, b, n=1):
    """|a - b| <= n ulps (of b); infinities only match themselves unless b is
    the largest finite double's neighbour."""
    if a != a or b != b:
        return a != a and b != b
    if a == b:
        return True
    if abs(b) == INF:
        return abs(a) == 1.7976931348623157e308 and (a > 0) == (b > 0) and n >= 1
    if abs(a) == INF:
        return abs(b) == 1.7976931348623157e308 and (a > 0) == (b > 0) and n >= 1
    return abs(a - b) <= n * math.ulp(b)
