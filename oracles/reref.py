"""Reference regular-expression matcher: a literal transcription of the
ECMAScript matcher semantics (ECMA-262 22.2.2, non-unicode mode) in
continuation-passing style.  Independent of the engine.

  m(x, c) -> state | None          Matcher;  x = (endIndex, captures)
  c(x)    -> state | None          MatcherContinuation
  captures: tuple, slot k = None | (start, end) with start <= end

Public API
  compile(pattern_ast_or_text, flags)            -> Prog   (cached)
  search(pattern, flags, subject, start=0)       -> None | (index, end, [captures, None = unset])
  match_at(pattern, flags, subject, index)       -> same, attempt at `index` only (sticky)
  Prog.search / Prog.match_at                    same without the cache lookup
  Prog.steps, Prog.consumed                      work done by the last call (own step counter)
  OutOfScope                                     raised when a call needs > STEP_LIMIT steps

Flags: i (Canonicalize = simple upper-casing, 22.2.2.7.3 non-unicode rules), m, s.
Other flag letters (g, y, d) do not change matching and are ignored; u/v are refused.
"""
import sys

from gens import patterns as P

STEP_LIMIT = 200000

LINE_TERMINATORS = "\n\r\u2028\u2029"
# WhiteSpace (TAB VT FF ZWNBSP + Zs) and LineTerminator
WHITE_SPACE = "\t\v\f\ufeff\u0020\u00a0\u1680\u2000\u2001\u2002\u2003\u2004\u2005\u2006\u2007\u2008\u2009\u200a\u202f\u205f\u3000"
SPACE_CHARS = frozenset(WHITE_SPACE + LINE_TERMINATORS)
WORD_CHARS = frozenset("abcdefghijklmnopqrstuvwxyzABCDEFGHIJKLMNOPQRSTUVWXYZ0123456789_")
DIGIT_CHARS = frozenset("0123456789")


class OutOfScope(Exception):
    """The reference needed more than STEP_LIMIT steps (or ran out of host stack)."""


def canonicalize(ch, ignore_case):
    """22.2.2.7.3 Canonicalize, non-unicode branch."""
    if not ignore_case:
        return ch
    cu = ch.upper()  # toUppercase (full default case conversion)
    if len(cu) != 1:
        return ch
    if ord(ch) >= 128 and ord(cu) < 128:
        return ch
    return cu


def _escape_pred(k):
    if k == "d":
        return lambda ch: ch in DIGIT_CHARS
    if k == "D":
        return lambda ch: ch not in DIGIT_CHARS
    if k == "w":
        return lambda ch: ch in WORD_CHARS
    if k == "W":
        return lambda ch: ch not in WORD_CHARS
    if k == "s":
        return lambda ch: ch in SPACE_CHARS
    if k == "S":
        return lambda ch: ch not in SPACE_CHARS
    raise ValueError(k)


class Prog:
    """A compiled pattern.  Not re-entrant (holds the current input)."""

    def __init__(self, ast, flags=""):
        if isinstance(ast, str):
            ast = P.parse(ast)
        else:
            ast = P.from_json(ast)
        if "u" in flags or "v" in flags:
            raise ValueError("unicode mode is outside this model")
        if not P.valid(ast):
            raise ValueError("invalid pattern AST (number() it first)")
        self.ast = ast
        self.flags = flags
        self.ignore_case = "i" in flags
        self.multiline = "m" in flags
        self.dot_all = "s" in flags
        self.ngroups = P.count_groups(ast)
        self.input = ""
        self.length = 0
        self.steps = 0
        self.consumed = 0
        self.limit = STEP_LIMIT
        self._m = self._compile(ast, True)

    # ---------------------------------------------------------------- helpers
    def _tick(self):
        self.steps += 1
        if self.steps > self.limit:
            raise OutOfScope()

    def _canon(self, ch):
        return canonicalize(ch, self.ignore_case)

    def _char_set_matcher(self, contains, invert, forward):
        """22.2.2.7.1 CharacterSetMatcher; `contains(cc, ch)` answers "is there a
        member a of A with Canonicalize(a) = cc" (ch is the raw input character)."""
        prog = self

        def m(x, c):
            prog._tick()
            e = x[0]
            f = e + 1 if forward else e - 1
            if f < 0 or f > prog.length:
                return None
            index = min(e, f)
            ch = prog.input[index]
            cc = prog._canon(ch)
            found = contains(cc, ch)
            if invert:
                if found:
                    return None
            elif not found:
                return None
            prog.consumed += 1
            return c((f, x[1]))

        return m

    def _set_contains(self, pred):
        """pred(ch) -> membership of a raw character in the CharSet A.  Returns the
        canonicalizing test used by CharacterSetMatcher."""
        if not self.ignore_case:
            return lambda cc, ch: pred(ch)
        canon = self._canon
        # exists a in A: Canonicalize(a) == cc.  Candidates for a: cc itself, its
        # lower-case forms and the raw character (every character whose
        # canonical form is cc is one of these for the simple case mapping).
        cache = {}

        def contains(cc, ch):
            r = cache.get(cc)
            if r is None:
                cands = {cc, ch, cc.lower(), cc.upper(), cc.swapcase()}
                # characters with an irregular upper-case image equal to cc
                for extra in _UPPER_PREIMAGES.get(cc, ()):
                    cands.add(extra)
                r = any(len(a) == 1 and pred(a) and canon(a) == cc for a in cands)
                cache[cc] = r
            return r

        return contains

    # ---------------------------------------------------------------- compile
    def _compile(self, n, forward):
        k = n[0]
        prog = self
        if k == "alt":
            ms = [self._compile(c, forward) for c in n[1]]

            def m_alt(x, c):
                prog._tick()
                for m in ms[:-1]:
                    r = m(x, c)
                    if r is not None:
                        return r
                return ms[-1](x, c)

            return m_alt
        if k == "seq":
            ms = [self._compile(c, forward) for c in n[1]]
            if not ms:
                return lambda x, c: c(x)  # empty Alternative
            if not forward:
                ms = ms[::-1]  # backward: the right-most term runs first

            def chain(i):
                if i == len(ms) - 1:
                    return ms[i]
                m1 = ms[i]
                rest = chain(i + 1)
                return lambda x, c: m1(x, lambda y: rest(y, c))

            return chain(0)
        if k == "char":
            target = self._canon(n[1])
            if self.ignore_case:
                return self._char_set_matcher(lambda cc, ch: cc == target, False, forward)
            return self._char_set_matcher(lambda cc, ch: ch == target, False, forward)
        if k == "dot":
            if self.dot_all:
                pred = lambda ch: True
            else:
                pred = lambda ch: ch not in LINE_TERMINATORS
            return self._char_set_matcher(self._set_contains(pred), False, forward)
        if k == "esc":
            return self._char_set_matcher(self._set_contains(_escape_pred(n[1])), False, forward)
        if k == "class":
            preds = []
            for it in n[2]:
                if it[0] == "c":
                    preds.append((lambda a: (lambda ch: ch == a))(it[1]))
                elif it[0] == "r":
                    if it[1] > it[2]:
                        raise ValueError("class range out of order")
                    preds.append((lambda lo, hi: (lambda ch: lo <= ch <= hi))(it[1], it[2]))
                else:
                    preds.append(_escape_pred(it[1]))

            def pred(ch):
                for p in preds:
                    if p(ch):
                        return True
                return False

            if self.ignore_case:
                contains = self._class_contains_icase(n[2])
            else:
                contains = lambda cc, ch: pred(ch)
            return self._char_set_matcher(contains, n[1], forward)
        if k == "group":
            m = self._compile(n[2], forward)
            paren_index = n[1]

            def m_group(x, c):
                prog._tick()

                def d(y):
                    cap = list(y[1])
                    xe, ye = x[0], y[0]
                    cap[paren_index] = (xe, ye) if forward else (ye, xe)
                    return c((ye, tuple(cap)))

                return m(x, d)

            return m_group
        if k == "ncgroup":
            return self._compile(n[1], forward)
        if k == "quant":
            m = self._compile(n[4], forward)
            mn, mx, greedy = n[1], n[2], n[3]
            # parenIndex = groups to the left of this term, parenCount = groups inside it
            inner = [g[1] for g in P.walk(n[4]) if g[0] == "group"]
            paren_lo = min(inner) if inner else 0
            paren_hi = max(inner) if inner else -1
            return lambda x, c: prog._repeat(m, mn, mx, greedy, x, c, paren_lo, paren_hi)
        if k == "bol":
            def m_bol(x, c):
                prog._tick()
                e = x[0]
                if e == 0 or (prog.multiline and prog.input[e - 1] in LINE_TERMINATORS):
                    return c(x)
                return None

            return m_bol
        if k == "eol":
            def m_eol(x, c):
                prog._tick()
                e = x[0]
                if e == prog.length or (prog.multiline and prog.input[e] in LINE_TERMINATORS):
                    return c(x)
                return None

            return m_eol
        if k == "wb":
            neg = n[1]

            def m_wb(x, c):
                prog._tick()
                e = x[0]
                a = e - 1 >= 0 and prog.input[e - 1] in WORD_CHARS
                b = e < prog.length and prog.input[e] in WORD_CHARS
                if (a != b) != neg:
                    return c(x)
                return None

            return m_wb
        if k == "backref":
            idx = n[1]

            def m_backref(x, c):
                prog._tick()
                cap = x[1]
                r = cap[idx]
                if r is None:
                    return c(x)
                e = x[0]
                rs, re_ = r
                ln = re_ - rs
                f = e + ln if forward else e - ln
                if f < 0 or f > prog.length:
                    return None
                g = min(e, f)
                inp = prog.input
                for i in range(ln):
                    if prog._canon(inp[rs + i]) != prog._canon(inp[g + i]):
                        return None
                prog.consumed += ln
                return c((f, cap))

            return m_backref
        if k == "look":
            ahead, neg = n[1], n[2]
            m = self._compile(n[3], ahead)  # lookbehind bodies are compiled backward

            def m_look(x, c):
                prog._tick()
                r = m(x, lambda y: y)
                if neg:
                    if r is not None:
                        return None
                    return c(x)
                if r is None:
                    return None
                return c((x[0], r[1]))

            return m_look
        raise ValueError("unknown node %r" % (k,))

    def _class_contains_icase(self, items):
        """exists a in A with Canonicalize(a) == cc, for a class under flag i."""
        canon = self._canon
        singles = set()
        ranges = []
        escapes = []
        for it in items:
            if it[0] == "c":
                singles.add(canon(it[1]))
            elif it[0] == "r":
                ranges.append((ord(it[1]), ord(it[2])))
            else:
                escapes.append(self._set_contains(_escape_pred(it[1])))
        cache = {}

        def contains(cc, ch):
            r = cache.get((cc, ch))
            if r is not None:
                return r
            r = cc in singles
            if not r:
                for lo, hi in ranges:
                    if hi - lo <= 512:
                        r = any(canon(chr(o)) == cc for o in range(lo, hi + 1))
                    else:
                        cands = {cc, ch, cc.lower(), cc.upper(), cc.swapcase()} | set(_UPPER_PREIMAGES.get(cc, ()))
                        r = any(len(a) == 1 and lo <= ord(a) <= hi and canon(a) == cc for a in cands)
                    if r:
                        break
            if not r:
                for e in escapes:
                    if e(cc, ch):
                        r = True
                        break
            cache[(cc, ch)] = r
            return r

        return contains

    def _repeat(self, m, mn, mx, greedy, x, c, paren_lo, paren_hi):
        """22.2.2.3.1 RepeatMatcher (mx None = infinity)."""
        self._tick()
        if mx == 0:
            return c(x)
        prog = self

        def d(y):
            if mn == 0 and y[0] == x[0]:
                return None
            mn2 = 0 if mn == 0 else mn - 1
            mx2 = None if mx is None else mx - 1
            return prog._repeat(m, mn2, mx2, greedy, y, c, paren_lo, paren_hi)

        cap = x[1]
        if paren_hi >= paren_lo:
            cap = list(cap)
            for k in range(paren_lo, paren_hi + 1):
                cap[k] = None
            cap = tuple(cap)
        xr = (x[0], cap)
        if mn != 0:
            return m(xr, d)
        if not greedy:
            z = c(x)
            if z is not None:
                return z
            return m(xr, d)
        z = m(xr, d)
        if z is not None:
            return z
        return c(x)

    # -------------------------------------------------------------------- run
    def _attempt(self, index):
        x = (index, (None,) * (self.ngroups + 1))
        return self._m(x, lambda y: y)

    def _result(self, index, y):
        inp = self.input
        caps = [None if r is None else inp[r[0] : r[1]] for r in y[1][1:]]
        self.last_spans = [None if r is None else (r[0], r[1]) for r in y[1][1:]]
        return (index, y[0], caps)

    def _begin(self, subject, limit):
        self.input = subject
        self.length = len(subject)
        self.steps = 0
        self.consumed = 0
        self.limit = STEP_LIMIT if limit is None else limit
        self.last_spans = None

    def match_at(self, subject, index, limit=None):
        """One attempt at `index` (what a sticky exec does)."""
        self._begin(subject, limit)
        if index < 0 or index > self.length:
            return None
        try:
            y = _deep(self._attempt, index)
        finally:
            self.input = subject
        return None if y is None else self._result(index, y)

    def search(self, subject, start=0, limit=None):
        """First index >= start at which the pattern matches (RegExpBuiltinExec loop)."""
        self._begin(subject, limit)
        i = start
        while i <= self.length:
            y = _deep(self._attempt, i)
            if y is not None:
                return self._result(i, y)
            i += 1
        return None


def _deep(fn, arg):
    old = sys.getrecursionlimit()
    if old < 12000:
        sys.setrecursionlimit(12000)
    try:
        return fn(arg)
    except RecursionError:
        raise OutOfScope()
    finally:
        if old < 12000:
            sys.setrecursionlimit(old)


# characters whose upper-case image is an ASCII/Latin letter although they are not
# its regular lower-case form (relevant only for non-ASCII subjects)
_UPPER_PREIMAGES = {}
for _o in range(128, 0x3000):
    _c = chr(_o)
    _u = _c.upper()
    if len(_u) == 1 and _u != _c and _u.lower() != _c:
        _UPPER_PREIMAGES.setdefault(_u, []).append(_c)

_cache = {}


def compile(pattern, flags=""):
    key = (pattern if isinstance(pattern, str) else repr(P.from_json(pattern)), flags)
    p = _cache.get(key)
    if p is None:
        if len(_cache) > 4096:
            _cache.clear()
        p = _cache[key] = Prog(pattern, flags)
    return p


def search(pattern, flags, subject, start=0):
    return compile(pattern, flags).search(subject, start)


def match_at(pattern, flags, subject, index):
    return compile(pattern, flags).match_at(subject, index)
