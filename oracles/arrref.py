"""Reference model of Array.prototype methods on *dense* arrays (C17).

Independent of the engine.  Each method is transcribed from ECMAScript
(ES2023, 23.1.3) for a receiver that is a true Array without holes; the
algorithms keep the specified order of callback calls and the specified
re-reading of elements / `length` while a callback mutates the receiver.

Values
  primitives   as in oracles.prims: UNDEF, None (null), bool, float, str
  Arr          array with identity (`items` list, `props` named properties)
  Obj          opaque object with identity (optional valueOf / toString
               results, optional `rec` = (k, id) sort record)
  Fn           function; `py(env, this, args)` is its behaviour, or None for
               an opaque function that is never called

Where ECMAScript would create holes (Array.prototype.map when the callback
shrinks the receiver) the model stores `undefined`, the documented
"no holes" substitute of /repo/spec.md.
"""
import functools
import math

from . import prims as P

UNDEF = P.UNDEF
INF = math.inf


class Arr:
    __slots__ = ("items", "props")

    def __init__(self, items=None):
        self.items = list(items) if items is not None else []
        self.props = {}

    def __repr__(self):
        return "Arr(%r)" % (self.items,)


class Obj:
    __slots__ = ("value_of", "to_str", "rec")

    def __init__(self, value_of=None, to_str=None, rec=None):
        self.value_of = value_of  # primitive returned by an own valueOf, or None
        self.to_str = to_str  # primitive returned by an own toString, or None
        self.rec = rec  # (k, id) for sort records

    def __repr__(self):
        return "Obj(%r,%r,%r)" % (self.value_of, self.to_str, self.rec)


class Fn:
    __slots__ = ("py", "name")

    def __init__(self, py=None, name=""):
        self.py = py
        self.name = name

    def __repr__(self):
        return "Fn(%s)" % self.name


class ErrObj:
    """A native error object created by a built-in or by `new XError()`."""

    __slots__ = ("name",)

    def __init__(self, name):
        self.name = name

    def __repr__(self):
        return "ErrObj(%s)" % self.name


class Throw(Exception):
    def __init__(self, value):
        Exception.__init__(self, repr(value))
        self.value = value


class Unmodelled(Exception):
    """The case needs something this model does not define (e.g. the source
    text of a function); generators must not produce it."""


def type_error():
    return Throw(ErrObj("TypeError"))


def range_error():
    return Throw(ErrObj("RangeError"))


def is_prim(v):
    return v is UNDEF or v is None or isinstance(v, (bool, float, str))


def is_callable(v):
    return isinstance(v, Fn)


# ------------------------------------------------------------- conversions
def to_primitive(v, hint="default", _seen=()):
    if is_prim(v):
        return v
    if isinstance(v, Arr):
        return join_str(v, ",", _seen)
    if isinstance(v, Obj):
        # OrdinaryToPrimitive; the inherited valueOf returns the object itself
        # (skipped), the inherited toString yields "[object Object]"
        for m in ("toString", "valueOf") if hint == "string" else ("valueOf", "toString"):
            if m == "toString":
                return v.to_str if v.to_str is not None else "[object Object]"
            if v.value_of is not None:
                return v.value_of
        return "[object Object]"
    if isinstance(v, Fn):
        raise Unmodelled("source text of a function")
    if isinstance(v, ErrObj):
        raise Unmodelled("string form of an error object")
    raise TypeError(v)


def to_number(v):
    if isinstance(v, Fn):
        return math.nan  # no function source text is a numeric literal
    return P.to_number(to_primitive(v, "number"))


def to_string(v, _seen=()):
    return P.to_string(to_primitive(v, "string", _seen))


def to_boolean(v):
    if is_prim(v):
        return P.to_boolean(v)
    return True


def to_integer_or_inf(v):
    x = to_number(v)
    if x != x or x == 0:
        return 0
    if x in (INF, -INF):
        return x
    return math.trunc(x)


def strict_equals(a, b):
    if is_prim(a) and is_prim(b):
        return P.strict_equals(a, b)
    return a is b


def same_value_zero(a, b):
    if isinstance(a, float) and isinstance(b, float) and a != a and b != b:
        return True
    return strict_equals(a, b)


def same_value(a, b):
    if isinstance(a, float) and isinstance(b, float):
        if a != a and b != b:
            return True
        return a == b and math.copysign(1, a) == math.copysign(1, b)
    return strict_equals(a, b)


def typeof(v):
    if is_prim(v):
        return P.typeof(v)
    if isinstance(v, Fn):
        return "function"
    return "object"


def js_add(a, b):
    return P.add(to_primitive(a), to_primitive(b))


def join_str(a, sep, _seen=()):
    if any(a is s for s in _seen):
        return ""  # cycle: ES yields "" for the inner occurrence
    seen = _seen + (a,)
    parts = []
    n = len(a.items)
    for k in range(n):
        e = a.items[k] if k < len(a.items) else UNDEF
        parts.append("" if (e is UNDEF or e is None) else to_string(e, seen))
    return sep.join(parts)


def rel_index(v, n, default):
    """Relative index argument clamped to [0, n] (slice/splice/fill ...)."""
    if v is UNDEF:
        return default
    r = to_integer_or_inf(v)
    if r == -INF:
        return 0
    if r < 0:
        return max(n + r, 0)
    return n if r == INF else min(r, n)


# ----------------------------------------------------------------- the env
class Env:
    """Calling context: performs callback calls (strict mode: `this` is
    passed through unchanged)."""

    def call(self, fn, this, args):
        if not isinstance(fn, Fn) or fn.py is None:
            raise Unmodelled("call of an opaque function")
        return fn.py(self, this, list(args))


def arg(args, i):
    return args[i] if i < len(args) else UNDEF


# ----------------------------------------------------------------- methods
def m_push(env, a, args):
    a.items.extend(args)
    return float(len(a.items))


def m_pop(env, a, args):
    if not a.items:
        return UNDEF
    return a.items.pop()


def m_shift(env, a, args):
    if not a.items:
        return UNDEF
    return a.items.pop(0)


def m_unshift(env, a, args):
    a.items[0:0] = list(args)
    return float(len(a.items))


def m_join(env, a, args):
    sep = arg(args, 0)
    return join_str(a, "," if sep is UNDEF else to_string(sep))


def m_toString(env, a, args):
    return join_str(a, ",")


def m_concat(env, a, args):
    out = Arr(a.items)
    for x in args:
        if isinstance(x, Arr):
            out.items.extend(list(x.items))
        else:
            out.items.append(x)
    return out


def m_slice(env, a, args):
    n = len(a.items)
    k = rel_index(arg(args, 0), n, 0)
    final = rel_index(arg(args, 1), n, n)
    return Arr(a.items[k:final] if final > k else [])


def m_splice(env, a, args):
    n = len(a.items)
    start = rel_index(arg(args, 0), n, 0)
    if len(args) == 0:
        dc = 0
    elif len(args) == 1:
        dc = n - start
    else:
        d = to_integer_or_inf(args[1])
        dc = int(min(max(d, 0), n - start))
    removed = Arr(a.items[start : start + dc])
    a.items[start : start + dc] = list(args[2:])
    return removed


def m_reverse(env, a, args):
    a.items.reverse()
    return a


def m_indexOf(env, a, args):
    n = len(a.items)
    if n == 0:
        return -1.0
    r = to_integer_or_inf(arg(args, 1))
    if r == INF:
        return -1.0
    if r == -INF:
        r = 0
    k = r if r >= 0 else max(n + r, 0)
    x = arg(args, 0)
    while k < n:
        if k < len(a.items) and strict_equals(a.items[k], x):
            return float(k)
        k += 1
    return -1.0


def m_lastIndexOf(env, a, args):
    n = len(a.items)
    if n == 0:
        return -1.0
    r = to_integer_or_inf(args[1]) if len(args) > 1 else n - 1
    if r == -INF:
        return -1.0
    k = min(r, n - 1) if r >= 0 else n + r
    x = arg(args, 0)
    k = int(k)
    while k >= 0:
        if k < len(a.items) and strict_equals(a.items[k], x):
            return float(k)
        k -= 1
    return -1.0


def m_includes(env, a, args):
    n = len(a.items)
    if n == 0:
        return False
    r = to_integer_or_inf(arg(args, 1))
    if r == INF:
        return False
    if r == -INF:
        r = 0
    k = r if r >= 0 else max(n + r, 0)
    x = arg(args, 0)
    while k < n:
        e = a.items[k] if k < len(a.items) else UNDEF
        if same_value_zero(e, x):
            return True
        k += 1
    return False


def _need_callable(f):
    if not is_callable(f):
        raise type_error()


def _find(env, a, args, want_index, backwards):
    n = len(a.items)
    pred, this = arg(args, 0), arg(args, 1)
    _need_callable(pred)
    ks = range(n - 1, -1, -1) if backwards else range(n)
    for k in ks:
        v = a.items[k] if k < len(a.items) else UNDEF
        if to_boolean(env.call(pred, this, [v, float(k), a])):
            return float(k) if want_index else v
    return -1.0 if want_index else UNDEF


def m_find(env, a, args):
    return _find(env, a, args, False, False)


def m_findIndex(env, a, args):
    return _find(env, a, args, True, False)


def m_findLast(env, a, args):
    return _find(env, a, args, False, True)


def m_findLastIndex(env, a, args):
    return _find(env, a, args, True, True)


def _each(env, a, args):
    """Yields (k, value, callback result) for the HasProperty-guarded loop
    shared by forEach/map/filter/some/every."""
    n = len(a.items)
    cb, this = arg(args, 0), arg(args, 1)
    _need_callable(cb)
    for k in range(n):
        if k < len(a.items):
            v = a.items[k]
            yield k, v, env.call(cb, this, [v, float(k), a])


def m_forEach(env, a, args):
    for _ in _each(env, a, args):
        pass
    return UNDEF


def m_map(env, a, args):
    n = len(a.items)
    _need_callable(arg(args, 0))
    out = Arr([UNDEF] * n)  # ArraySpeciesCreate(O, len); holes -> undefined
    for k, _, r in _each(env, a, args):
        out.items[k] = r
    return out


def m_filter(env, a, args):
    _need_callable(arg(args, 0))
    out = Arr()
    for _, v, r in _each(env, a, args):
        if to_boolean(r):
            out.items.append(v)
    return out


def m_some(env, a, args):
    for _, _, r in _each(env, a, args):
        if to_boolean(r):
            return True
    return False


def m_every(env, a, args):
    for _, _, r in _each(env, a, args):
        if not to_boolean(r):
            return False
    return True


def _reduce(env, a, args, right):
    n = len(a.items)
    cb = arg(args, 0)
    _need_callable(cb)
    ks = list(range(n - 1, -1, -1) if right else range(n))
    if len(args) >= 2:
        acc = args[1]
    else:
        if n == 0:
            raise type_error()
        acc = a.items[ks.pop(0)]
    for k in ks:
        if k < len(a.items):
            acc = env.call(cb, UNDEF, [acc, a.items[k], float(k), a])
    return acc


def m_reduce(env, a, args):
    return _reduce(env, a, args, False)


def m_reduceRight(env, a, args):
    return _reduce(env, a, args, True)


def default_compare(x, y):
    sx, sy = to_string(x), to_string(y)
    ux, uy = P._code_units(sx), P._code_units(sy)
    return -1 if ux < uy else (1 if ux > uy else 0)


def compare_with(env, cmp):
    """SortCompare without the undefined rule: a Python (x, y) -> number."""
    if cmp is UNDEF:
        return default_compare

    def c(x, y):
        v = to_number(env.call(cmp, UNDEF, [x, y]))
        return 0.0 if v != v else v

    return c


def m_sort(env, a, args):
    """Deterministic reading of sort: the unique result of a *stable* sort
    for a consistent comparator.  For inconsistent comparators the result is
    implementation-defined; use sort_verdict() instead of comparing."""
    cmp = arg(args, 0)
    if cmp is not UNDEF and not is_callable(cmp):
        raise type_error()
    c = compare_with(env, cmp)
    n = len(a.items)
    vals = [v for v in a.items if v is not UNDEF]  # SortIndexedProperties reads everything first
    und = n - len(vals)

    def key(x, y):
        r = c(x, y)
        return -1 if r < 0 else (1 if r > 0 else 0)

    vals.sort(key=functools.cmp_to_key(key))  # a throwing comparator leaves a untouched
    a.items[:n] = vals + [UNDEF] * und  # written back to the first n indices only
    return a


def consistent(vals, c):
    """Is c a consistent comparator on vals (ES 23.1.3.30.2 note)?"""
    n = len(vals)
    sg = [[0] * n for _ in range(n)]
    for i in range(n):
        for j in range(n):
            r = c(vals[i], vals[j])
            sg[i][j] = -1 if r < 0 else (1 if r > 0 else 0)
    for i in range(n):
        if sg[i][i] != 0:
            return False
        for j in range(n):
            if sg[i][j] != -sg[j][i]:
                return False
            for k in range(n):
                if sg[i][j] == 0 and sg[j][k] == 0 and sg[i][k] != 0:
                    return False
                if sg[i][j] < 0 and sg[j][k] < 0 and not sg[i][k] < 0:
                    return False
                if sg[i][j] == 0 and sg[j][k] < 0 and not sg[i][k] < 0:
                    return False
                if sg[i][j] < 0 and sg[j][k] == 0 and not sg[i][k] < 0:
                    return False
    return True


def sort_verdict(before, after, c):
    """Validity predicate for a sort result.  before/after: lists of model
    values (after's objects resolved to the same model objects).  Returns
    None when valid, else a short reason."""
    if len(before) != len(after):
        return "length changed"
    pool = list(before)
    for x in after:
        for i, y in enumerate(pool):
            if same_value(x, y):
                del pool[i]
                break
        else:
            return "not a permutation"
    nund = sum(1 for v in before if v is UNDEF)
    if any(v is UNDEF for v in after[: len(after) - nund]):
        return "undefined not last"
    vals = [v for v in before if v is not UNDEF]
    if not consistent(vals, c):
        return None
    out = after[: len(after) - nund]
    for i in range(len(out) - 1):
        if c(out[i], out[i + 1]) > 0:
            return "not ordered"
    # stability: elements that compare equal keep their relative order
    def pos(v, lst, used):
        for i, y in enumerate(lst):
            if i not in used and same_value(v, y):
                used.add(i)
                return i
        return -1

    used = set()
    order = [pos(v, vals, used) for v in out]
    for i in range(len(out) - 1):
        if c(out[i], out[i + 1]) == 0 and order[i] > order[i + 1]:
            # equal primitives are indistinguishable: only identities count
            if not (is_prim(out[i]) and is_prim(out[i + 1]) and same_value(out[i], out[i + 1])):
                return "not stable"
    return None


# ---- methods the engine does not implement today; transcribed so that the
# ---- check covers them as soon as `typeof [][name] === 'function'`
def m_at(env, a, args):
    n = len(a.items)
    r = to_integer_or_inf(arg(args, 0))
    k = r if r >= 0 else n + r
    if k < 0 or k >= n:
        return UNDEF
    return a.items[int(k)]


def m_fill(env, a, args):
    n = len(a.items)
    k = rel_index(arg(args, 1), n, 0)
    final = rel_index(arg(args, 2), n, n)
    for i in range(k, final):
        a.items[i] = arg(args, 0)
    return a


def m_copyWithin(env, a, args):
    n = len(a.items)
    to = rel_index(arg(args, 0), n, 0)
    frm = rel_index(arg(args, 1), n, 0)
    final = rel_index(arg(args, 2), n, n)
    count = min(final - frm, n - to)
    if count > 0:
        chunk = a.items[frm : frm + count]
        a.items[to : to + count] = chunk
    return a


def _flatten(out, src, depth):
    for e in list(src.items):
        if depth > 0 and isinstance(e, Arr):
            _flatten(out, e, depth - 1)
        else:
            out.append(e)


def m_flat(env, a, args):
    d = arg(args, 0)
    depth = 1 if d is UNDEF else to_integer_or_inf(d)
    if depth < 0:
        depth = 0
    out = []
    _flatten(out, a, min(depth, 64))
    return Arr(out)


def m_flatMap(env, a, args):
    _need_callable(arg(args, 0))
    out = []
    for _, _, r in _each(env, a, args):
        if isinstance(r, Arr):
            out.extend(r.items)
        else:
            out.append(r)
    return Arr(out)


def m_toReversed(env, a, args):
    return Arr(a.items[::-1])


def m_toSorted(env, a, args):
    cmp = arg(args, 0)
    if cmp is not UNDEF and not is_callable(cmp):
        raise type_error()
    b = Arr(a.items)
    m_sort(env, b, args)
    return b


def m_toSpliced(env, a, args):
    b = Arr(a.items)
    m_splice(env, b, args)
    return b


def m_with(env, a, args):
    n = len(a.items)
    r = to_integer_or_inf(arg(args, 0))
    k = r if r >= 0 else n + r
    if k < 0 or k >= n:
        raise range_error()
    b = Arr(a.items)
    b.items[int(k)] = arg(args, 1)
    return b


METHODS = {
    name[2:]: fn for name, fn in list(globals().items()) if name.startswith("m_") and callable(fn)
}

# every name an Array.prototype of ES2023 has (discovery vocabulary)
VOCABULARY = [
    "at", "concat", "copyWithin", "entries", "every", "fill", "filter", "find", "findIndex", "findLast",
    "findLastIndex", "flat", "flatMap", "forEach", "includes", "indexOf", "join", "keys", "lastIndexOf",
    "map", "pop", "push", "reduce", "reduceRight", "reverse", "shift", "slice", "some", "sort", "splice",
    "toLocaleString", "toReversed", "toSorted", "toSpliced", "toString", "unshift", "values", "with",
]

MUTATING = {"push", "pop", "shift", "unshift", "splice", "reverse", "sort", "fill", "copyWithin"}
RETURNS_RECEIVER = {"reverse", "sort", "fill", "copyWithin"}


def call_method(env, name, a, args):
    """Apply Array.prototype[name] to receiver a.  Returns the result or
    raises Throw."""
    return METHODS[name](env, a, list(args))


# ------------------------------------------------ element / length assignment
# The documented stricter-mode rules of /repo/spec.md: no holes; a write at
# index == length appends; a write further out is an error.
APPEND, STORE, ERROR, NAMED = "append", "store", "error", "named"


def classify_index_write(a, key):
    """key: model primitive used as property key.  Returns the documented
    outcome class for `a[key] = v`."""
    s = P.to_string(key) if not isinstance(key, str) else key
    if s.isdigit() and (s == "0" or not s.startswith("0")) and int(s) < 2 ** 32 - 1:
        i = int(s)
        if i < len(a.items):
            return STORE, i
        if i == len(a.items):
            return APPEND, i
        return ERROR, i
    return NAMED, s


def length_write(a, v):
    """`a.length = v` (ArraySetLength): RangeError unless ToUint32(v) equals
    ToNumber(v); shrinking truncates, growing fills with undefined."""
    num = to_number(v)
    u = P.to_uint32(num)
    if float(u) != num:
        raise range_error()
    if u < len(a.items):
        del a.items[u:]
    else:
        a.items.extend([UNDEF] * (u - len(a.items)))
