"""Reference model of ArrayBuffer and the nine typed-array kinds (C17).

Independent of the engine.  Numbers are Python floats (every JS number);
ToNumber of the stored value is the caller's business.  Buffers are
little-endian bytearrays; a typed array is a (kind, buffer, byteOffset,
length) view, so views over one buffer see each other's writes.

A NaN written through a float view has an implementation-defined payload:
the bytes are remembered as "NaN of that slot" and reads through a different
geometry report UNKNOWN instead of a number.
"""
import math
import struct

INF = math.inf


class RangeErr(Exception):
    """RangeError thrown by a constructor or method."""


class TypeErr(Exception):
    """TypeError thrown by a constructor or method."""


class _Unknown:
    def __repr__(self):
        return "UNKNOWN"


UNKNOWN = _Unknown()  # bytes of a NaN seen through another geometry
UNDEFINED = None  # out-of-range read

# kind -> (bytes per element, family, signed)
KINDS = {
    "Int8Array": (1, "int", True),
    "Uint8Array": (1, "int", False),
    "Uint8ClampedArray": (1, "clamp", False),
    "Int16Array": (2, "int", True),
    "Uint16Array": (2, "int", False),
    "Int32Array": (4, "int", True),
    "Uint32Array": (4, "int", False),
    "Float32Array": (4, "float", True),
    "Float64Array": (8, "float", True),
}
KIND_NAMES = list(KINDS)


def size_of(kind):
    return KINDS[kind][0]


# ------------------------------------------------------------- conversions
def to_int_mod(x, bits, signed):
    """ToInt8/ToUint8/.../ToUint32: truncate, then modulo 2^bits."""
    if x != x or x in (INF, -INF):
        return 0
    n = math.trunc(x) % (1 << bits)
    if signed and n >= 1 << (bits - 1):
        n -= 1 << bits
    return n


def to_uint8_clamp(x):
    """ToUint8Clamp: clamp to [0,255], round half to even."""
    if x != x:
        return 0
    if x <= 0:
        return 0
    if x >= 255:
        return 255
    f = math.floor(x)
    if f + 0.5 < x:
        return f + 1
    if x < f + 0.5:
        return f
    return f if f % 2 == 0 else f + 1


def to_float32(x):
    """Nearest float32 (ties to even); overflow rounds to an infinity."""
    if x != x or x in (INF, -INF):
        return x
    try:
        return struct.unpack("<f", struct.pack("<f", x))[0]
    except OverflowError:
        return INF if x > 0 else -INF


def convert(kind, x):
    """The number that reading back yields after storing number x."""
    size, fam, signed = KINDS[kind]
    if fam == "int":
        return float(to_int_mod(x, 8 * size, signed))
    if fam == "clamp":
        return float(to_uint8_clamp(x))
    if size == 4:
        return to_float32(x)
    return x


def to_index(x):
    """ToIndex of an already-ToNumber'ed argument (None = undefined)."""
    if x is None:
        return 0
    if x != x:
        return 0
    if x in (INF, -INF):
        raise RangeErr("index")
    n = math.trunc(x)
    if n < 0 or n > 2 ** 53 - 1:
        raise RangeErr("index")
    return n


def to_integer_or_inf(x):
    if x is None or x != x or x == 0:
        return 0
    if x in (INF, -INF):
        return x
    return math.trunc(x)


def rel_index(x, n, default):
    if x is None:
        return default
    r = to_integer_or_inf(x)
    if r == -INF:
        return 0
    if r < 0:
        return max(n + r, 0)
    return n if r == INF else min(r, n)


# ------------------------------------------------------------------ objects
class Buffer:
    def __init__(self, nbytes):
        self.data = bytearray(nbytes)
        self.nan = [None] * nbytes  # per byte: (kind, byte offset of slot) of a NaN write

    @property
    def byte_length(self):
        return len(self.data)


def new_buffer(length=None):
    n = to_index(length)
    if n > 1 << 30:
        raise RangeErr("allocation")
    return Buffer(n)


class TA:
    def __init__(self, kind, buf, offset, length):
        self.kind = kind
        self.buf = buf
        self.offset = offset
        self.length = length

    @property
    def byte_length(self):
        return self.length * size_of(self.kind)

    # element access -----------------------------------------------------
    def get(self, i):
        """t[i] for integer i; None (undefined) when out of range."""
        if i < 0 or i >= self.length:
            return UNDEFINED
        size, fam, signed = KINDS[self.kind]
        o = self.offset + i * size
        marks = self.buf.nan[o : o + size]
        if any(m is not None for m in marks):
            if all(m == (self.kind, o) for m in marks):
                return math.nan
            return UNKNOWN
        raw = bytes(self.buf.data[o : o + size])
        if fam == "float":
            return struct.unpack("<f" if size == 4 else "<d", raw)[0]
        return float(int.from_bytes(raw, "little", signed=signed))

    def set(self, i, x):
        """t[i] = x for integer i and number x; ignored when out of range."""
        if i < 0 or i >= self.length:
            return
        size, fam, signed = KINDS[self.kind]
        o = self.offset + i * size
        v = convert(self.kind, x)
        if fam == "float":
            if v != v:
                self.buf.data[o : o + size] = struct.pack("<f" if size == 4 else "<d", math.nan)
                self.buf.nan[o : o + size] = [(self.kind, o)] * size
                return
            raw = struct.pack("<f" if size == 4 else "<d", v)
        else:
            raw = int(v).to_bytes(size, "little", signed=signed)
        self.buf.data[o : o + size] = raw
        self.buf.nan[o : o + size] = [None] * size

    def values(self):
        return [self.get(i) for i in range(self.length)]

    # methods --------------------------------------------------------------
    def subarray(self, begin=None, end=None):
        n = self.length
        b = rel_index(begin, n, 0)
        e = rel_index(end, n, n)
        return TA(self.kind, self.buf, self.offset + b * size_of(self.kind), max(e - b, 0))

    def set_from(self, src_values, offset=None):
        """%TypedArray%.prototype.set(source, offset) with the source given as
        the list of numbers it holds (already ToNumber'ed for array sources;
        a typed-array source is read completely before any write)."""
        off = to_integer_or_inf(offset)
        if off < 0:
            raise RangeErr("offset")
        if off == INF or len(src_values) + off > self.length:
            raise RangeErr("source too large")
        for k, x in enumerate(src_values):
            self.set(off + k, x)

    def fill(self, x, start=None, end=None):
        n = self.length
        k = rel_index(start, n, 0)
        e = rel_index(end, n, n)
        for i in range(k, e):
            self.set(i, x)
        return self

    def slice(self, start=None, end=None):
        n = self.length
        k = rel_index(start, n, 0)
        e = rel_index(end, n, n)
        out = new_ta_length(self.kind, float(max(e - k, 0)))
        for j, i in enumerate(range(k, e)):
            out.set(j, self.get(i))
        return out

    def reverse(self):
        vals = self.values()
        for i, x in enumerate(reversed(vals)):
            self.set(i, x)
        return self


def new_ta_length(kind, length=None):
    n = to_index(length)
    if n * size_of(kind) > 1 << 30:
        raise RangeErr("allocation")
    return TA(kind, Buffer(n * size_of(kind)), 0, n)


def new_ta_values(kind, values):
    """new K(array) / new K(typedArray): fresh buffer, converted elements."""
    t = new_ta_length(kind, float(len(values)))
    for i, x in enumerate(values):
        t.set(i, x)
    return t


def new_ta_buffer(kind, buf, byte_offset=None, length=None):
    """new K(buffer, byteOffset, length) (ES 23.2.5.1.3)."""
    size = size_of(kind)
    off = to_index(byte_offset)
    if off % size != 0:
        raise RangeErr("offset alignment")
    blen = buf.byte_length
    if length is None:
        if blen % size != 0:
            raise RangeErr("buffer length alignment")
        nbytes = blen - off
        if nbytes < 0:
            raise RangeErr("offset beyond buffer")
        return TA(kind, buf, off, nbytes // size)
    n = to_index(length)
    if off + n * size > blen:
        raise RangeErr("length beyond buffer")
    return TA(kind, buf, off, n)


def canonical_index(key_number_string):
    """For a property key that is a canonical numeric string (given as the
    float it denotes): the integer index, or None when the key is not a
    valid integer index (then a read yields undefined and a write is
    ignored - no ordinary property is created)."""
    x = key_number_string
    if x != x or x in (INF, -INF) or x != math.trunc(x):
        return None
    if x == 0 and math.copysign(1, x) < 0:
        return None
    return int(x)
