"""Math.*: special-point table transcribed from ECMAScript (21.3.2) and a
one-ulp predicate elsewhere.

Reference model for C18, independent of the engine.  ref(name, args) takes the
arguments *after* ToNumber (floats) and returns

    ("exact", v)   the specification fixes the double (bit-exact, sign of zero)
    ("ulp", v)     implementation-approximated: accept within one ulp of v
    ("unit",)      Math.random: a double in [0, 1)
    None           no model for that name (not an ECMAScript Math function)

The engine must never throw: that is judged by the check, not here.
"""
import math
import struct

from oracles import prims as P

INF = math.inf
NAN = math.nan

CONSTANTS = {
    "E": 2.718281828459045,
    "LN10": 2.302585092994046,
    "LN2": 0.6931471805599453,
    "LOG10E": 0.4342944819032518,
    "LOG2E": 1.4426950408889634,
    "PI": 3.141592653589793,
    "SQRT1_2": 0.7071067811865476,
    "SQRT2": 1.4142135623730951,
}

# declared parameter count (Math.f.length), used to build argument lists
ARITY = {
    "abs": 1, "acos": 1, "acosh": 1, "asin": 1, "asinh": 1, "atan": 1, "atanh": 1, "atan2": 2, "cbrt": 1, "ceil": 1,
    "clz32": 1, "cos": 1, "cosh": 1, "exp": 1, "expm1": 1, "floor": 1, "fround": 1, "hypot": 2, "imul": 2, "log": 1,
    "log1p": 1, "log10": 1, "log2": 1, "max": 2, "min": 2, "pow": 2, "random": 0, "round": 1, "sign": 1, "sin": 1,
    "sinh": 1, "sqrt": 1, "tan": 1, "tanh": 1, "trunc": 1,
}
VARIADIC = ("max", "min", "hypot")


def _isneg0(x):
    return x == 0 and math.copysign(1.0, x) < 0


def _safe(fn, *a):
    try:
        return fn(*a)
    except OverflowError:
        return None
    except ValueError:
        return None


def _icbrt(n):
    """floor(cube root) of a non-negative integer."""
    if n < 2:
        return n
    r = 1 << ((n.bit_length() + 2) // 3)
    while True:
        t = (2 * r + n // (r * r)) // 3
        if t >= r:
            return r
        r = t


def _cbrt(x):
    """Correctly rounded cube root of a finite non-zero double (integer
    arithmetic; the host libm's cbrt is up to 3 ulps off)."""
    num, den = abs(x).as_integer_ratio()
    k = 260
    # cbrt(num/den) = cbrt(num * den^2 * 2^(3k)) / (den * 2^k), 260 extra bits
    c = _icbrt((num * den * den) << (3 * k))
    return math.copysign(c / (den << k), x)  # int / int is correctly rounded


def _fround(x):
    if x != x or x == 0 or abs(x) == INF:
        return x
    try:
        return struct.unpack(">f", struct.pack(">f", x))[0]
    except OverflowError:
        return math.copysign(INF, x)


def _round(x):
    if x != x or abs(x) == INF or x == math.floor(x):
        return x
    if 0 < x < 0.5:
        return 0.0
    if -0.5 <= x < 0:
        return -0.0
    f = math.floor(x)  # exact integer
    r = f + 1 if x - f >= 0.5 else f  # x - f is exact for |x| < 2^52, and larger x are integers
    return float(r)


def ref(name, args):
    a = list(args)
    x = a[0] if len(a) > 0 else NAN
    y = a[1] if len(a) > 1 else NAN
    nan1 = x != x

    if name == "random":
        return ("unit",)
    if name == "abs":
        return ("exact", NAN if nan1 else abs(x))
    if name == "sign":
        if nan1 or x == 0:
            return ("exact", x)
        return ("exact", 1.0 if x > 0 else -1.0)
    if name == "floor":
        if nan1 or abs(x) == INF or x == 0:
            return ("exact", x)
        return ("exact", float(math.floor(x)))
    if name == "ceil":
        if nan1 or abs(x) == INF or x == 0:
            return ("exact", x)
        if -1 < x < 0:
            return ("exact", -0.0)
        return ("exact", float(math.ceil(x)))
    if name == "trunc":
        if nan1 or abs(x) == INF or x == 0:
            return ("exact", x)
        if -1 < x < 0:
            return ("exact", -0.0)
        return ("exact", float(math.trunc(x)))
    if name == "round":
        return ("exact", _round(x))
    if name == "fround":
        return ("exact", _fround(x))
    if name == "clz32":
        n = P.to_uint32(x)
        return ("exact", float(32 - n.bit_length()))
    if name == "imul":
        p = (P.to_uint32(x) * P.to_uint32(y)) % (1 << 32)
        return ("exact", float(p - (1 << 32) if p >= (1 << 31) else p))
    if name in ("max", "min"):
        if not a:
            return ("exact", -INF if name == "max" else INF)
        if any(v != v for v in a):
            return ("exact", NAN)
        best = a[0]
        for v in a[1:]:
            if name == "max":
                if v > best or (v == 0 and best == 0 and _isneg0(best)):
                    best = v
            else:
                if v < best or (v == 0 and best == 0 and _isneg0(v)):
                    best = v
        return ("exact", best)
    if name == "hypot":
        if any(abs(v) == INF for v in a):
            return ("exact", INF)
        if any(v != v for v in a):
            return ("exact", NAN)
        if all(v == 0 for v in a):
            return ("exact", 0.0)
        if len(a) == 1:
            return ("ulp", abs(a[0]))
        r = _safe(math.hypot, *a)
        return ("ulp", INF if r is None else r)
    if name == "pow":
        b, e = x, y
        if e != e:
            return ("exact", NAN)
        if e == 0:
            return ("exact", 1.0)
        if b != b:
            return ("exact", NAN)
        v = P.js_pow(b, e)
        special = (
            abs(e) == INF or abs(b) == INF or b == 0 or (b < 0 and not float(e).is_integer())
        )
        return ("exact" if special else "ulp", v)
    if name == "sqrt":
        if nan1 or x == 0 or x == INF:
            return ("exact", x)
        if x < 0:
            return ("exact", NAN)
        return ("ulp", math.sqrt(x))
    if name == "cbrt":
        if nan1 or x == 0 or abs(x) == INF:
            return ("exact", x)
        return ("ulp", _cbrt(x))
    if name == "exp":
        if nan1 or x == INF:
            return ("exact", x)
        if x == 0:
            return ("exact", 1.0)
        if x == -INF:
            return ("exact", 0.0)
        r = _safe(math.exp, x)
        return ("ulp", INF if r is None else r)
    if name == "expm1":
        if nan1 or x == 0 or x == INF:
            return ("exact", x)
        if x == -INF:
            return ("exact", -1.0)
        r = _safe(math.expm1, x)
        return ("ulp", INF if r is None else r)
    if name in ("log", "log2", "log10"):
        if nan1 or x < 0:
            return ("exact", NAN)
        if x == 1:
            return ("exact", 0.0)
        if x == 0:
            return ("exact", -INF)
        if x == INF:
            return ("exact", INF)
        return ("ulp", {"log": math.log, "log2": math.log2, "log10": math.log10}[name](x))
    if name == "log1p":
        if nan1 or x == 0 or x == INF:
            return ("exact", x)
        if x == -1:
            return ("exact", -INF)
        if x < -1:
            return ("exact", NAN)
        return ("ulp", math.log1p(x))
    if name in ("sin", "tan"):
        if nan1 or x == 0:
            return ("exact", x)
        if abs(x) == INF:
            return ("exact", NAN)
        return ("ulp", math.sin(x) if name == "sin" else math.tan(x))
    if name == "cos":
        if nan1 or abs(x) == INF:
            return ("exact", NAN)
        if x == 0:
            return ("exact", 1.0)
        return ("ulp", math.cos(x))
    if name == "asin":
        if nan1 or x > 1 or x < -1:
            return ("exact", NAN)
        if x == 0:
            return ("exact", x)
        return ("ulp", math.asin(x))
    if name == "acos":
        if nan1 or x > 1 or x < -1:
            return ("exact", NAN)
        if x == 1:
            return ("exact", 0.0)
        return ("ulp", math.acos(x))
    if name == "atan":
        if nan1 or x == 0:
            return ("exact", x)
        return ("ulp", math.atan(x))  # +-inf -> +-pi/2, approximated
    if name == "atan2":
        yy, xx = x, y
        if yy != yy or xx != xx:
            return ("exact", NAN)
        v = math.atan2(yy, xx)
        # results that are a zero are exact (sign matters); multiples of pi/4 are approximated
        return ("exact" if v == 0 else "ulp", v)
    if name == "sinh":
        if nan1 or x == 0 or abs(x) == INF:
            return ("exact", x)
        r = _safe(math.sinh, x)
        return ("ulp", math.copysign(INF, x) if r is None else r)
    if name == "cosh":
        if nan1:
            return ("exact", NAN)
        if abs(x) == INF:
            return ("exact", INF)
        if x == 0:
            return ("exact", 1.0)
        r = _safe(math.cosh, x)
        return ("ulp", INF if r is None else r)
    if name == "tanh":
        if nan1 or x == 0:
            return ("exact", x)
        if abs(x) == INF:
            return ("exact", math.copysign(1.0, x))
        return ("ulp", math.tanh(x))
    if name == "asinh":
        if nan1 or x == 0 or abs(x) == INF:
            return ("exact", x)
        return ("ulp", math.asinh(x))
    if name == "acosh":
        if nan1 or x < 1:
            return ("exact", NAN)
        if x == 1:
            return ("exact", 0.0)
        if x == INF:
            return ("exact", INF)
        return ("ulp", math.acosh(x))
    if name == "atanh":
        if nan1 or x > 1 or x < -1:
            return ("exact", NAN)
        if x == 0:
            return ("exact", x)
        if abs(x) == 1:
            return ("exact", math.copysign(INF, x))
        return ("ulp", math.atanh(x))
    return None


def ulps_apart(a, b):
    """Distance between two doubles in units in the last place (0 when both
    are NaN, a large number when only one is, or when the signs of zero differ
    in a way that matters is left to the caller)."""
    if a != a or b != b:
        return 0 if (a != a and b != b) else 1 << 62
    if a == b:
        return 0

    def key(v):
        (i,) = struct.unpack(">q", struct.pack(">d", v))
        return i if i >= 0 else -(i & 0x7FFFFFFFFFFFFFFF)

    return abs(key(a) - key(b))


def accepts(model, got, tol=1):
    """Does the double `got` satisfy the model result?"""
    if not isinstance(got, float):
        return False
    kind = model[0]
    if kind == "unit":
        return 0.0 <= got < 1.0
    v = model[1]
    if kind == "exact":
        if v != v:
            return got != got
        return got == v and (v != 0 or _isneg0(got) == _isneg0(v))
    if got != got or v != v:
        return got != got and v != v
    if v == 0 or got == 0:
        # an approximated result that underflows keeps its sign
        return ulps_apart(v, got) <= tol and (math.copysign(1, v) == math.copysign(1, got))
    return ulps_apart(v, got) <= tol
